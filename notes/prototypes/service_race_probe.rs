// Service create/open race probe (C06 sketch). Throw-away.
use iceoryx2::prelude::*;
use iceoryx2::service::builder::publish_subscribe::{PublishSubscribeCreateError, PublishSubscribeOpenError};
use iceoryx2_bb_concurrency::verif::{self, OpKind, Phase};
use iceoryx2_bb_container::semantic_string::SemanticString;
use iceoryx2_bb_system_types::file_name::FileName;
use iceoryx2_bb_system_types::path::Path;
use std::cell::Cell;
use std::collections::BTreeMap;
use std::sync::{Arc, Barrier, Mutex};
use std::time::{Duration, Instant};

thread_local! { static RNG: Cell<u64> = Cell::new(0); static PERTURB: Cell<u32> = Cell::new(0); }
fn next() -> u64 { RNG.with(|r| { let mut s = r.get().wrapping_add(0x9E3779B97F4A7C15); r.set(s); s = (s ^ (s >> 30)).wrapping_mul(0xBF58476D1CE4E5B9); s = (s ^ (s >> 27)).wrapping_mul(0x94D049BB133111EB); s ^ (s >> 31) }) }
fn hook(_p: Phase, _k: OpKind, _a: usize, _w: bool) { let p = PERTURB.with(|p| p.get()); if p == 0 { return; } let r = next(); if (r % 1000) < p as u64 { match (r >> 20) % 3 { 0 => std::thread::yield_now(), 1 => { let t = Instant::now(); let d = Duration::from_micros((r >> 24) % 40); while t.elapsed() < d { std::hint::spin_loop(); } }, _ => std::thread::sleep(Duration::from_micros(50 + (r >> 24) % 300)) } } }

fn listing(root: &str, prefix: &str) -> Vec<String> {
    let mut v = vec![];
    fn walk(d: &std::path::Path, v: &mut Vec<String>) { if let Ok(rd) = std::fs::read_dir(d) { for e in rd.flatten() { let p = e.path(); if p.is_dir() { walk(&p, v); } else { v.push(p.display().to_string()); } } } }
    walk(&std::path::Path::new(root).join("services"), &mut v);
    if let Ok(rd) = std::fs::read_dir("/dev/shm") { for e in rd.flatten() { let n = e.file_name().to_string_lossy().to_string(); if n.starts_with(prefix) && !n.ends_with("global_mgmt") { v.push(format!("/dev/shm/{}", n)); } } }
    v.sort(); v
}
static CREATORS: std::sync::atomic::AtomicUsize = std::sync::atomic::AtomicUsize::new(0);
static CREATORS_DONE: std::sync::atomic::AtomicUsize = std::sync::atomic::AtomicUsize::new(0);
static WANT: [std::sync::atomic::AtomicBool; 8] = [const { std::sync::atomic::AtomicBool::new(false) }; 8];
static ERRS: Mutex<BTreeMap<String, usize>> = Mutex::new(BTreeMap::new());
#[derive(Debug, Clone)]
enum Out { Created(usize), Opened(usize /*max_subscribers seen*/), CreateErr(PublishSubscribeCreateError), OpenErr(PublishSubscribeOpenError) }

macro_rules! gen { ($fname:ident, $S:ty) => {
fn $fname(root: &str, tag: &str, rounds: usize, nthreads: usize, perturb: u32, seed: u64) -> (BTreeMap<String, usize>, Vec<String>) {
    type S = $S;
    let prefix = format!("sv{}_{}_{}_", tag, std::process::id(), seed);
    let mut cfg = Config::default(); cfg.global.set_root_path(&Path::new(root.as_bytes()).unwrap()); cfg.global.prefix = FileName::new(prefix.as_bytes()).unwrap(); cfg.global.creation_timeout = Duration::from_millis(200);
    let bar = Arc::new(Barrier::new(nthreads + 1));
    let outs: Arc<Mutex<Vec<(usize, usize, Out, u128)>>> = Arc::new(Mutex::new(vec![]));
    let mut hs = vec![];
    for t in 0..nthreads { let (bar, outs, cfg) = (bar.clone(), outs.clone(), cfg.clone());
        hs.push(std::thread::spawn(move || { RNG.with(|r| r.set(seed * 1000 + t as u64)); 
            let node = NodeBuilder::new().config(&cfg).create::<S>().unwrap();
            for round in 0..rounds { bar.wait(); PERTURB.with(|p| p.set(perturb));
                let want_create = WANT[t].load(std::sync::atomic::Ordering::Relaxed); let t0 = Instant::now();
                let name: ServiceName = "race_svc".try_into().unwrap();
                let (out, handle) = if want_create { match node.service_builder(&name).publish_subscribe::<u64>().max_subscribers(10 + t).max_nodes(8).create() { Ok(s) => (Out::Created(10 + t), Some(s)), Err(e) => (Out::CreateErr(e), None) } }
                    else { let mut res; let mut tries = 0; loop { tries += 1; let fin = CREATORS_DONE.load(std::sync::atomic::Ordering::Relaxed) >= CREATORS.load(std::sync::atomic::Ordering::Relaxed);
                        res = match node.service_builder(&name).publish_subscribe::<u64>().open() { Ok(s) => { let m = s.static_config().max_subscribers(); let usable = s.subscriber_builder().create().is_ok(); (if usable { Out::Opened(m) } else { Out::Opened(usize::MAX) }, Some(s)) } Err(e) => { ERRS.lock().unwrap().entry(format!("{:?}", e)).and_modify(|c| *c += 1).or_insert(1usize); (Out::OpenErr(e), None) } };
                        if res.1.is_some() || fin || tries > 20000 { break; } } res };
                if want_create { CREATORS_DONE.fetch_add(1, std::sync::atomic::Ordering::Relaxed); }
                PERTURB.with(|p| p.set(0));
                outs.lock().unwrap().push((round, t, out, t0.elapsed().as_millis()));
                bar.wait(); // everyone finished the race; handles still alive
                bar.wait(); // main checked "exists while held"
                PERTURB.with(|p| p.set(perturb)); drop(handle); PERTURB.with(|p| p.set(0));
                bar.wait(); // all dropped; main checks "gone"
            } })); }
    let mut problems = vec![]; let mut hist: BTreeMap<String, usize> = BTreeMap::new();
    let name: ServiceName = "race_svc".try_into().unwrap();
    let mut mr = seed; for round in 0..rounds {
        CREATORS_DONE.store(0, std::sync::atomic::Ordering::Relaxed); let mut c = 0; for t in 0..nthreads { mr = mr.wrapping_mul(6364136223846793005).wrapping_add(1442695040888963407); let w = (mr >> 33) % 3 != 0 || (t == 0); WANT[t].store(w, std::sync::atomic::Ordering::Relaxed); if w { c += 1; } } CREATORS.store(c, std::sync::atomic::Ordering::Relaxed);
        bar.wait(); bar.wait();
        let o: Vec<(usize, usize, Out, u128)> = outs.lock().unwrap().iter().filter(|x| x.0 == round).cloned().collect();
        let creators: Vec<usize> = o.iter().filter_map(|x| if let Out::Created(m) = x.2 { Some(m) } else { None }).collect();
        if creators.len() > 1 { problems.push(format!("round {round}: {} creates succeeded", creators.len())); }
        for x in &o { let k = match &x.2 { Out::Created(_) => "created".to_string(), Out::Opened(_) => "opened".to_string(), Out::CreateErr(e) => format!("create:{:?}", e), Out::OpenErr(e) => format!("open:{:?}", e) }; *hist.entry(k).or_default() += 1;
            if let Out::Opened(m) = x.2 { if creators.len() == 1 && m != creators[0] { problems.push(format!("round {round}: opener saw max_subscribers {} but creator set {}", m, creators[0])); } if creators.is_empty() { problems.push(format!("round {round}: open succeeded but nobody created")); } }
            if let Out::Opened(m) = x.2 { if m == usize::MAX { problems.push(format!("round {round}: opened service not usable")); } }
            if x.3 > 5000 { problems.push(format!("round {round}: call took {} ms", x.3)); } }
        let held = o.iter().any(|x| matches!(x.2, Out::Created(_) | Out::Opened(_)));
        let exists = S::does_exist(&name, &cfg, MessagingPattern::PublishSubscribe).unwrap_or(false);
        if held != exists { problems.push(format!("round {round}: handles held={} but does_exist={}", held, exists)); }
        bar.wait(); bar.wait();
        let exists = S::does_exist(&name, &cfg, MessagingPattern::PublishSubscribe).unwrap_or(true);
        let rest = listing(root, &prefix);
        if exists || !rest.is_empty() { problems.push(format!("round {round}: after all drops does_exist={} residue={:?}", exists, rest.iter().map(|f| f.replace(&prefix, "P_")).collect::<Vec<_>>())); }
    }
    for h in hs { h.join().unwrap(); }
    (hist, problems)
} } }
gen!(run_ipc, ipc::Service);
gen!(run_local, local::Service);

fn main() {
    verif::set_hook(Some(hook));
    let a: Vec<String> = std::env::args().collect(); let root = a[1].clone(); let rounds: usize = a[2].parse().unwrap(); let perturb: u32 = a[3].parse().unwrap();
    std::fs::create_dir_all(&root).unwrap();
    for seed in 1..=3u64 { for (v, (hist, problems)) in [("ipc", run_ipc(&root, "i", rounds, 4, perturb, seed)), ("local", run_local(&root, "l", rounds, 4, perturb, seed))] {
        println!("{} seed {} rounds {} perturb {}: outcomes {:?}\n   problems {} {:?}", v, seed, rounds, perturb, hist, problems.len(), &problems[..problems.len().min(4)]); } }
    println!("all open errors seen while polling: {:?}", ERRS.lock().unwrap());
}
