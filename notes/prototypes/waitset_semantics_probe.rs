use iceoryx2::prelude::*;
use core::time::Duration;
fn main() -> Result<(), Box<dyn std::error::Error>> {
    for variant in ["ipc"] {
        run_ipc(variant)?;
    }
    Ok(())
}
fn run_ipc(v: &str) -> Result<(), Box<dyn std::error::Error>> { type S = ipc::Service;
    let node = NodeBuilder::new().create::<S>()?;
    let name = format!("ws_probe_{}_{}", v, std::process::id());
    let ev = node.service_builder(&name.as_str().try_into()?).event().open_or_create()?;
    let l1 = ev.listener_builder().create()?;
    let l2 = ev.listener_builder().create()?;
    let n = ev.notifier_builder().create()?;
    let ws = WaitSetBuilder::new().create::<S>()?;
    let g1 = ws.attach_notification(&l1)?;
    let g2 = ws.attach_notification(&l2)?;
    let dup = ws.attach_notification(&l1);
    println!("[{v}] double attach -> {:?} len={} cap={}", dup.as_ref().err(), ws.len(), ws.capacity());
    macro_rules! report { ($tag:expr, $($n:expr => $g:expr),*) => {{
        let mut hits: Vec<i32> = vec![];
        let r = ws.wait_and_process_once_with_timeout(|id| { $( if id.has_event_from($g) { hits.push($n); } )* CallbackProgression::Continue }, Duration::ZERO);
        println!("[{v}] {}: result={:?} hits={:?}", $tag, r, hits);
    }}; }
    report!("nothing notified", 1 => &g1, 2 => &g2);
    n.notify_with_custom_event_id(EventId::new(3))?;
    report!("after notify (both listeners of service)", 1 => &g1, 2 => &g2);
    report!("again without draining", 1 => &g1, 2 => &g2);
    l1.try_wait(|_| {})?;
    report!("after draining l1", 1 => &g1, 2 => &g2);
    l2.try_wait(|_| {})?;
    report!("after draining l2", 1 => &g1, 2 => &g2);
    drop(g2);
    n.notify()?;
    report!("g2 dropped, notify", 1 => &g1);
    l1.try_wait(|_| {})?; l2.try_wait(|_| {})?;
    let g2b = ws.attach_notification(&l2)?;
    report!("re-attached l2, nothing pending", 1 => &g1, 2 => &g2b);
    n.notify()?;
    let mut hits = vec![];
    let _ = ws.wait_and_process_once_with_timeout(|id| { if id.has_event_from(&g1) { hits.push(1); } if id.has_event_from(&g2b) { hits.push(2); } CallbackProgression::Continue }, Duration::ZERO);
    println!("[{v}] re-attached, notify: hits={:?}", hits);
    Ok(())
}
