// Connection lifecycle probe (C13 sketch). Throw-away.
extern crate iceoryx2_bb_loggers;
use iceoryx2_bb_concurrency::verif::{self, OpKind, Phase};
use iceoryx2_bb_posix::testing::generate_file_path;
use iceoryx2_cal::named_concept::*;
use iceoryx2_cal::testing::generate_isolated_config;
use iceoryx2_cal::zero_copy_connection::*;
use std::cell::Cell;
use std::collections::BTreeMap;
use std::sync::{Arc, Barrier, Mutex};
use std::time::{Duration, Instant};

thread_local! { static RNG: Cell<u64> = Cell::new(0); static PERTURB: Cell<u32> = Cell::new(0); }
fn next() -> u64 { RNG.with(|r| { let mut s = r.get().wrapping_add(0x9E3779B97F4A7C15); r.set(s); s = (s ^ (s >> 30)).wrapping_mul(0xBF58476D1CE4E5B9); s = (s ^ (s >> 27)).wrapping_mul(0x94D049BB133111EB); s ^ (s >> 31) }) }
fn hook(_p: Phase, _k: OpKind, _a: usize, _w: bool) { let p = PERTURB.with(|p| p.get()); if p == 0 { return; } let r = next(); if (r % 1000) < p as u64 { match (r >> 20) % 3 { 0 => std::thread::yield_now(), 1 => { let t = Instant::now(); let d = Duration::from_micros((r >> 24) % 40); while t.elapsed() < d { std::hint::spin_loop(); } }, _ => std::thread::sleep(Duration::from_micros(50 + (r >> 24) % 300)) } } }
static T0: std::sync::OnceLock<Instant> = std::sync::OnceLock::new();
fn now() -> u64 { T0.get().unwrap().elapsed().as_nanos() as u64 }

#[derive(Debug, Clone)]
struct Hold { role: char, from: u64, to: u64, token_ok: Option<bool>, existed: bool }

fn run<Sut: ZeroCopyConnection>(seed: u64, threads: usize, iters: usize, perturb: u32) -> (Vec<String>, BTreeMap<String, usize>) where Sut::Sender: 'static, Sut::Receiver: 'static {
    let name = generate_file_path().file_name();
    let _ = generate_isolated_config::<Sut>(); let prefix = generate_file_path().file_name(); let mk = move || -> Sut::Configuration { iceoryx2_cal::testing::generate_custom_config::<Sut>(&prefix, &iceoryx2_bb_posix::config::TEST_DIRECTORY) }; let config = mk();
    let holds = Arc::new(Mutex::new(Vec::<Hold>::new())); let errs = Arc::new(Mutex::new(BTreeMap::<String, usize>::new()));
    let bar = Arc::new(Barrier::new(threads)); let mut hs = vec![];
    for t in 0..threads { let (holds, errs, bar, name) = (holds.clone(), errs.clone(), bar.clone(), name.clone());
        hs.push(std::thread::spawn(move || { let config = mk(); RNG.with(|r| r.set(seed * 100 + t as u64)); bar.wait(); PERTURB.with(|p| p.set(perturb));
            for _ in 0..iters { let want_sender = next() % 2 == 0;
                if want_sender { match Sut::Builder::new(&name).config(&config).buffer_size(2).number_of_chunks_per_segment(4).receiver_max_borrowed_chunks_per_channel(2).create_sender() {
                    Ok(s) => { let from = now(); let existed = Sut::does_exist_cfg(&name, &config).unwrap_or(false); let mut token_ok = None; let _ = &mut token_ok; let _ = s.is_connected();
                        if next() % 3 == 0 { std::thread::yield_now(); } let to = now(); drop(s); holds.lock().unwrap().push(Hold { role: 'S', from, to, token_ok, existed }); }
                    Err(e) => { *errs.lock().unwrap().entry(format!("sender:{:?}", e)).or_default() += 1; } } }
                else { match Sut::Builder::new(&name).config(&config).buffer_size(2).number_of_chunks_per_segment(4).receiver_max_borrowed_chunks_per_channel(2).create_receiver() {
                    Ok(r) => { let from = now(); let existed = Sut::does_exist_cfg(&name, &config).unwrap_or(false); while let Ok(Some(p)) = r.receive(ChannelId::new(0)) { let _ = r.release(p, ChannelId::new(0)); }
                        if next() % 3 == 0 { std::thread::yield_now(); } let to = now(); drop(r); holds.lock().unwrap().push(Hold { role: 'R', from, to, token_ok: None, existed }); }
                    Err(e) => { *errs.lock().unwrap().entry(format!("receiver:{:?}", e)).or_default() += 1; } } } }
            PERTURB.with(|p| p.set(0)); })); }
    for h in hs { h.join().unwrap(); }
    let mut problems = vec![]; let hv = holds.lock().unwrap().clone();
    for role in ['S', 'R'] { let mut v: Vec<&Hold> = hv.iter().filter(|h| h.role == role).collect(); v.sort_by_key(|h| h.from); for w in v.windows(2) { if w[1].from < w[0].to { problems.push(format!("two live {} handles overlap: [{},{}] and [{},{}]", role, w[0].from, w[0].to, w[1].from, w[1].to)); } } }
    for h in &hv { if !h.existed { problems.push(format!("does_exist false while a {} handle was held", h.role)); } if h.token_ok == Some(false) { problems.push("send on a connected pair failed".into()); } }
    if Sut::does_exist_cfg(&name, &config).unwrap_or(true) { problems.push("connection still exists after all handles dropped".into()); }
    let mut e = errs.lock().unwrap().clone(); e.insert("holds".into(), hv.len());
    (problems, e)
}

fn main() {
    T0.set(Instant::now()).unwrap(); verif::set_hook(Some(hook));
    let a: Vec<String> = std::env::args().collect(); let runs: u64 = a[1].parse().unwrap(); let perturb: u32 = a[2].parse().unwrap();
    let (mut bad, mut tot) = (0, BTreeMap::<String, usize>::new());
    for seed in 1..=runs { let (p, e) = if seed % 2 == 0 { run::<iceoryx2_cal::zero_copy_connection::posix_shared_memory::Connection>(seed, 3, 60, perturb) } else { run::<iceoryx2_cal::zero_copy_connection::process_local::Connection>(seed, 3, 60, perturb) };
        for (k, v) in e { *tot.entry(k).or_default() += v; } if !p.is_empty() { bad += 1; if bad <= 4 { println!("seed {}: {:?}", seed, &p[..p.len().min(3)]); } } }
    println!("runs={} perturb={} problematic={} outcomes={:?}", runs, perturb, bad, tot);
}
