// Saturation probe (C08/C02 sketch) for publish-subscribe. Throw-away.
use iceoryx2::prelude::*;
use iceoryx2::port::LoanError;
type S = local::Service;
struct Rng(u64);
impl Rng { fn next(&mut self) -> u64 { self.0 = self.0.wrapping_add(0x9E3779B97F4A7C15); let mut z = self.0; z = (z ^ (z >> 30)).wrapping_mul(0xBF58476D1CE4E5B9); z = (z ^ (z >> 27)).wrapping_mul(0x94D049BB133111EB); z ^ (z >> 31) } fn below(&mut self, n: u64) -> u64 { self.next() % n } }
fn run(seed: u64, nsub: usize, buf: usize, bor: usize, hist: usize, loans: usize, overflow: bool) -> Result<(usize, usize), String> {
    let mut rng = Rng(seed);
    let node = NodeBuilder::new().create::<S>().map_err(|e| format!("{e:?}"))?;
    let name = format!("sat_{}_{}_{}{}{}{}{}{}", std::process::id(), seed, nsub, buf, bor, hist, loans, overflow as u8);
    let svc = node.service_builder(&name.as_str().try_into().unwrap()).publish_subscribe::<u64>().max_subscribers(nsub).max_publishers(1).subscriber_max_buffer_size(buf).subscriber_max_borrowed_samples(bor).history_size(hist).enable_safe_overflow(overflow).create().map_err(|e| format!("create: {e:?}"))?;
    let p = svc.publisher_builder().max_loaned_samples(loans).backpressure_strategy(BackpressureStrategy::DiscardData).create().map_err(|e| format!("{e:?}"))?;
    let mut subs: Vec<Option<_>> = (0..nsub).map(|_| Some(svc.subscriber_builder().create().unwrap())).collect();
    let mut held: Vec<Vec<iceoryx2::sample::Sample<S, u64, ()>>> = (0..nsub).map(|_| vec![]).collect();
    let mut my_loans = vec![]; let (mut sends, mut loan_ok) = (0usize, 0usize); let mut ctr = 0u64;
    for step in 0..400 {
        match rng.below(10) {
            0..=3 => { // send (needs a loan slot)
                if my_loans.len() == loans { my_loans.pop(); }
                ctr += 1; match p.send_copy(ctr) { Ok(_) => sends += 1, Err(e) => return Err(format!("step {step}: send failed inside limits: {e:?} (subs {nsub} buf {buf} borrow {bor} hist {hist} loans {loans} overflow {overflow}; outstanding loans {} held {:?})", my_loans.len(), held.iter().map(|h| h.len()).collect::<Vec<_>>())) } }
            4..=5 => { // take a loan up to the limit, and one beyond
                if my_loans.len() < loans { match p.loan_uninit() { Ok(l) => { my_loans.push(l); loan_ok += 1; } Err(e) => return Err(format!("step {step}: loan {} of {} failed: {e:?} (subs {nsub} buf {buf} borrow {bor} hist {hist} overflow {overflow}; held {:?})", my_loans.len() + 1, loans, held.iter().map(|h| h.len()).collect::<Vec<_>>())) } }
                else { match p.loan_uninit() { Err(LoanError::ExceedsMaxLoans) => {} Ok(_) => return Err(format!("step {step}: loan beyond the limit succeeded")), Err(e) => return Err(format!("step {step}: loan beyond limit gave {e:?}")) } } }
            6..=7 => { let j = rng.below(nsub as u64) as usize; if held[j].len() < bor { if let Ok(Some(s)) = subs[j].as_ref().unwrap().receive() { held[j].push(s); } } }
            8 => { let j = rng.below(nsub as u64) as usize; if !held[j].is_empty() { let k = rng.below(held[j].len() as u64) as usize; held[j].remove(k); } }
            _ => { if rng.below(4) == 0 { let j = rng.below(nsub as u64) as usize; held[j].clear(); subs[j] = None; subs[j] = Some(svc.subscriber_builder().create().map_err(|e| format!("recreate subscriber: {e:?}"))?); } }
        }
    }
    Ok((sends, loan_ok))
}
fn main() {
    let (mut ok, mut bad) = (0, 0); let mut first = vec![];
    for nsub in 1..=2 { for buf in 1..=3 { for bor in 1..=3 { for hist in 0..=buf.min(2) { for loans in 1..=3 { for overflow in [false, true] { for seed in 1..=3u64 {
        match std::panic::catch_unwind(|| run(seed, nsub, buf, bor, hist, loans, overflow)) { Ok(Ok(_)) => ok += 1, Ok(Err(e)) => { bad += 1; if first.len() < 5 { first.push(e); } } Err(_) => { bad += 1; if first.len() < 5 { first.push(format!("PANIC subs {nsub} buf {buf} borrow {bor} hist {hist} loans {loans} overflow {overflow} seed {seed}")); } } } } } } } } } }
    println!("configs×seeds ok={} failing={}", ok, bad); for f in first { println!("  {}", f); }
}
