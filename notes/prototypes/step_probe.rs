use iceoryx2::prelude::*;
use iceoryx2::node::NodeState;
use iceoryx2_bb_container::semantic_string::SemanticString;
use iceoryx2_bb_system_types::file_name::FileName;
use iceoryx2_bb_system_types::path::Path;
use std::os::unix::process::CommandExt;
use std::process::Command;

fn config(root: &str, prefix: &str) -> Config {
    let mut c = Config::default();
    c.global.set_root_path(&Path::new(root.as_bytes()).unwrap());
    c.global.prefix = FileName::new(prefix.as_bytes()).unwrap();
    c.global.node.cleanup_dead_nodes_on_creation = false;
    c.global.node.cleanup_dead_nodes_on_destruction = false;
    c
}

fn child(root: &str, prefix: &str) {
    let cfg = config(root, prefix);
    unsafe { libc::getppid(); } // marker: scenario starts
    let node = NodeBuilder::new().config(&cfg).create::<ipc::Service>().unwrap();
    let svc = node.service_builder(&"crash_svc".try_into().unwrap()).publish_subscribe::<u64>()
        .history_size(1).subscriber_max_buffer_size(2).open_or_create().unwrap();
    let p = svc.publisher_builder().create().unwrap();
    let s = svc.subscriber_builder().create().unwrap();
    p.send_copy(7).unwrap();
    let _ = s.receive().unwrap();
    drop(s); drop(p); drop(svc); drop(node);
    unsafe { libc::getppid(); } // marker: scenario ends
}

fn listing(root: &str, prefix: &str) -> Vec<String> {
    let mut v = vec![];
    fn walk(d: &std::path::Path, v: &mut Vec<String>) { if let Ok(rd) = std::fs::read_dir(d) { for e in rd.flatten() { let p = e.path(); if p.is_dir() { walk(&p, v); } else { v.push(p.display().to_string()); } } } }
    walk(std::path::Path::new(root), &mut v);
    if let Ok(rd) = std::fs::read_dir("/dev/shm") { for e in rd.flatten() { let n = e.file_name().to_string_lossy().to_string(); if n.starts_with(prefix) { v.push(format!("/dev/shm/{}", n)); } } }
    v.sort(); v
}

// runs child until the k-th syscall entry after the start marker, kills it. returns (killed_at_name, total_seen, finished)
fn run_and_kill(exe: &str, root: &str, prefix: &str, k: usize) -> (i64, usize, bool) {
    let mut cmd = Command::new(exe);
    cmd.arg("child").arg(root).arg(prefix).env("IOX2_LOG_LEVEL", "FATAL").stderr(std::process::Stdio::null());
    unsafe { cmd.pre_exec(|| { libc::ptrace(libc::PTRACE_TRACEME, 0, 0, 0); Ok(()) }); }
    let ch = cmd.spawn().unwrap();
    let pid = ch.id() as i32;
    let mut status = 0i32;
    unsafe { libc::waitpid(pid, &mut status, 0); libc::ptrace(libc::PTRACE_SETOPTIONS, pid, 0, libc::PTRACE_O_TRACESYSGOOD | libc::PTRACE_O_EXITKILL); }
    let (mut entry, mut started, mut count, mut last_nr) = (true, false, 0usize, -1i64);
    loop {
        unsafe { libc::ptrace(libc::PTRACE_SYSCALL, pid, 0, 0); libc::waitpid(pid, &mut status, 0); }
        if libc::WIFEXITED(status) || libc::WIFSIGNALED(status) { return (last_nr, count, true); }
        if libc::WIFSTOPPED(status) && libc::WSTOPSIG(status) == (libc::SIGTRAP | 0x80) {
            if entry {
                let mut regs: libc::user_regs_struct = unsafe { std::mem::zeroed() };
                unsafe { libc::ptrace(libc::PTRACE_GETREGS, pid, 0, &mut regs as *mut _); }
                let nr = regs.orig_rax as i64;
                if nr == libc::SYS_getppid { if started { started = false; } else { started = true; } }
                else if started { count += 1; last_nr = nr; if count == k { unsafe { libc::kill(pid, libc::SIGKILL); libc::waitpid(pid, &mut status, 0); } return (nr, count, false); } }
            }
            entry = !entry;
        }
    }
}

fn main() {
    let args: Vec<String> = std::env::args().collect();
    if args[1] == "child" { child(&args[2], &args[3]); return; }
    let exe = std::env::current_exe().unwrap().display().to_string();
    let base = args[2].clone();
    let from: usize = args[3].parse().unwrap(); let to: usize = args[4].parse().unwrap();
    let mut summary = std::collections::BTreeMap::<String, usize>::new();
    let t0 = std::time::Instant::now();
    let mut trials = 0;
    for k in from..=to {
        let root = format!("{}/t{}", base, k); let prefix = format!("vp{}_{}_", std::process::id(), k);
        std::fs::create_dir_all(&root).unwrap();
        let (nr, seen, finished) = run_and_kill(&exe, &root, &prefix, k);
        trials += 1;
        if finished { println!("k={} child finished after {} syscalls", k, seen); let rest = listing(&root, &prefix); println!("  residue after orderly run: {:?}", rest); break; }
        let cfg = config(&root, &prefix);
        let mut states = vec![];
        let mut cleaned = vec![];
        let r = Node::<ipc::Service>::list(&cfg, |st| {
            match st { NodeState::Alive(_) => states.push("Alive"), NodeState::Dead(v) => { states.push("Dead"); cleaned.push(format!("{:?}", v.try_remove_stale_resources())); }, NodeState::Inaccessible(_) => states.push("Inaccessible"), NodeState::Undefined(_) => states.push("Undefined") }
            CallbackProgression::Continue });
        let rest: Vec<String> = listing(&root, &prefix).into_iter().filter(|f| !f.ends_with("global_mgmt")).map(|f| f.replace(&root, "").replace(&prefix, "P_")).collect();
        let key = format!("list={:?} states={:?} cleanup={:?} residue={}", r.is_ok(), states, cleaned, rest.len());
        *summary.entry(key.clone()).or_insert(0) += 1;
        if !rest.is_empty() || states.iter().any(|s| *s != "Dead") { println!("k={} sysnr={} {} {:?}", k, nr, key, rest); }
        // cleanup trial
        let _ = std::fs::remove_dir_all(&root);
        for f in listing(&root, &prefix) { let _ = std::fs::remove_file(f); }
    }
    println!("trials={} secs={:.1}", trials, t0.elapsed().as_secs_f64());
    for (k, v) in summary { println!("{:5} x {}", v, k); }
}
