// Differential probe (C16 sketch): exhaustive short histories, element life table. Throw-away.
extern crate iceoryx2_bb_loggers;
use iceoryx2_bb_container::queue::*;
use iceoryx2_bb_container::slotmap::*;
use iceoryx2_bb_container::flatmap::*;
use iceoryx2_bb_container::vector::*;
use std::cell::RefCell;
use std::collections::{BTreeMap, VecDeque};

thread_local! { static LIFE: RefCell<Vec<u8>> = RefCell::new(vec![]); static ERR: RefCell<Vec<String>> = RefCell::new(vec![]); }
#[derive(Debug)]
struct El { uid: usize, val: u8 }
impl El { fn new(val: u8) -> Self { let uid = LIFE.with(|l| { let mut l = l.borrow_mut(); l.push(1); l.len() - 1 }); El { uid, val } } fn v(&self) -> u8 { LIFE.with(|l| if l.borrow()[self.uid] != 1 { ERR.with(|e| e.borrow_mut().push(format!("use after drop uid {}", self.uid))); }); self.val } }
impl Drop for El { fn drop(&mut self) { LIFE.with(|l| { let mut l = l.borrow_mut(); if l[self.uid] != 1 { ERR.with(|e| e.borrow_mut().push(format!("double drop uid {}", self.uid))); } l[self.uid] = 2; }); } }
impl Clone for El { fn clone(&self) -> Self { El::new(self.v()) } }
fn life_reset() { LIFE.with(|l| l.borrow_mut().clear()); ERR.with(|e| e.borrow_mut().clear()); }
fn life_check(ctx: &str) -> Result<(), String> { let leaked = LIFE.with(|l| l.borrow().iter().filter(|s| **s == 1).count()); let errs = ERR.with(|e| e.borrow().clone()); if leaked > 0 || !errs.is_empty() { Err(format!("{}: leaked {} errs {:?}", ctx, leaked, errs)) } else { Ok(()) } }

// enumerate all sequences of length <= L over alphabet size A
fn for_all_seqs<F: FnMut(&[usize]) -> Result<(), String>>(a: usize, l: usize, mut f: F) -> (u64, Vec<String>) {
    let mut n = 0u64; let mut fails = vec![];
    for len in 0..=l { let mut seq = vec![0usize; len]; loop { n += 1; let r = std::panic::catch_unwind(std::panic::AssertUnwindSafe(|| f(&seq))).unwrap_or_else(|p| Err(format!("PANIC {}", p.downcast_ref::<String>().cloned().or(p.downcast_ref::<&str>().map(|s| s.to_string())).unwrap_or_default()))); if let Err(e) = r { if fails.len() < 3 { fails.push(format!("{:?}: {}", seq, e)); } else { fails.push(String::new()); } }
        let mut i = len; loop { if i == 0 { break; } i -= 1; seq[i] += 1; if seq[i] < a { break; } seq[i] = 0; if i == 0 { i = usize::MAX; break; } } if len == 0 || i == usize::MAX { break; } } }
    (n, fails)
}

fn queue_hist<const C: usize>(seq: &[usize], heap: bool) -> Result<(), String> {
    life_reset();
    { let mut m: VecDeque<u8> = VecDeque::new();
      enum Q<const C: usize> { H(Queue<El>), F(FixedSizeQueue<El, C>) }
      let mut q = if heap { Q::<C>::H(Queue::new(C)) } else { Q::<C>::F(FixedSizeQueue::new()) };
      macro_rules! q { ($q:ident => $e:expr) => { match &mut q { Q::H($q) => $e, Q::F($q) => $e } } }
      for (step, op) in seq.iter().enumerate() { let val = step as u8 + 1;
        match op { 0 => { let r = q!(x => x.push(El::new(val))); let exp = m.len() < C; if exp { m.push_back(val); } if r != exp { return Err(format!("push -> {} model {}", r, exp)); } }
            1 => { let r = q!(x => x.push_with_overflow(El::new(val))).map(|e| e.v()); let exp = if C == 0 { Some(val) } else if m.len() == C { m.pop_front() } else { None }; if C > 0 { m.push_back(val); } if r != exp { return Err(format!("push_with_overflow -> {:?} model {:?}", r, exp)); } }
            2 => { let r = q!(x => x.pop()).map(|e| e.v()); let exp = m.pop_front(); if r != exp { return Err(format!("pop -> {:?} model {:?}", r, exp)); } }
            3 => { q!(x => x.clear()); m.clear(); }
            _ => { let r = q!(x => x.peek().map(|e| e.v())); if r != m.front().cloned() { return Err(format!("peek -> {:?} model {:?}", r, m.front())); } } }
        let (len, full, empty) = q!(x => (x.len(), x.is_full(), x.is_empty()));
        if len != m.len() || full != (m.len() == C) || empty != m.is_empty() { return Err(format!("len/full/empty {} {} {} model len {}", len, full, empty, m.len())); }
        let _ = &m; } }
    life_check("queue")
}

fn slotmap_hist<const C: usize>(seq: &[usize], heap: bool) -> Result<(), String> {
    life_reset();
    { let mut m: BTreeMap<usize, u8> = BTreeMap::new();
      enum Q<const C: usize> { H(SlotMap<El>), F(FixedSizeSlotMap<El, C>) }
      let mut q = if heap { Q::<C>::H(SlotMap::new(C)) } else { Q::<C>::F(FixedSizeSlotMap::new()) };
      macro_rules! q { ($q:ident => $e:expr) => { match &mut q { Q::H($q) => $e, Q::F($q) => $e } } }
      for (step, op) in seq.iter().enumerate() { let val = step as u8 + 1;
        match op { 0 => { let nf = q!(x => x.next_free_key()); let r = q!(x => x.insert(El::new(val))); match r { Some(k) => { if m.len() >= C { return Err("insert succeeded beyond capacity".into()); } if m.contains_key(&k.value()) { return Err(format!("insert returned live key {}", k.value())); } if nf != Some(k) { return Err(format!("next_free_key {:?} but insert used {:?}", nf, k)); } m.insert(k.value(), val); } None => { if m.len() < C { return Err(format!("insert failed with len {} < cap {}", m.len(), C)); } } } }
            1 | 2 | 3 => { let k = if *op == 3 { if std::env::var("NO_EDGE").is_ok() { C - 1 } else { C } } else { (op - 1).min(C - 1) }; let r = q!(x => x.insert_at(SlotMapKey::new(k), El::new(val))); let exp = k < C; if exp { m.insert(k, val); } if r != exp { return Err(format!("insert_at({}) -> {} model {}", k, r, exp)); } }
            4 | 5 | 6 => { let k = if *op == 6 { if std::env::var("NO_EDGE").is_ok() { C - 1 } else { C } } else { (op - 4).min(C - 1) }; let r = q!(x => x.remove(SlotMapKey::new(k))).map(|e| e.v()); let exp = m.remove(&k); if r != exp { return Err(format!("remove({}) -> {:?} model {:?}", k, r, exp)); } }
            _ => {} }
        let len = q!(x => x.len()); if len != m.len() { return Err(format!("len {} model {}", len, m.len())); }
        for k in 0..C { let g = q!(x => x.get(SlotMapKey::new(k)).map(|e| e.v())); if g != m.get(&k).cloned() { return Err(format!("get({}) -> {:?} model {:?}", k, g, m.get(&k))); } let c = q!(x => x.contains(SlotMapKey::new(k))); if c != m.contains_key(&k) { return Err(format!("contains({}) {}", k, c)); } }
        let mut it: Vec<(usize, u8)> = q!(x => x.iter().map(|(k, e)| (k.value(), e.v())).collect()); it.sort(); let mm: Vec<(usize, u8)> = m.iter().map(|(k, v)| (*k, *v)).collect(); if it != mm { return Err(format!("iter {:?} model {:?}", it, mm)); } } }
    life_check("slotmap")
}

fn flatmap_hist<const C: usize>(seq: &[usize], heap: bool) -> Result<(), String> {
    life_reset();
    { let mut m: BTreeMap<u8, u8> = BTreeMap::new();
      enum Q<const C: usize> { H(FlatMap<u8, El>), F(FixedSizeFlatMap<u8, El, C>) }
      let mut q = if heap { Q::<C>::H(FlatMap::new(C)) } else { Q::<C>::F(FixedSizeFlatMap::new()) };
      macro_rules! q { ($q:ident => $e:expr) => { match &mut q { Q::H($q) => $e, Q::F($q) => $e } } }
      for (step, op) in seq.iter().enumerate() { let val = step as u8 + 1;
        match op { 0 | 1 | 2 => { let k = *op as u8; let r = q!(x => x.insert(k, El::new(val))); let exp_ok = !m.contains_key(&k) && m.len() < C; if exp_ok { m.insert(k, val); } if r.is_ok() != exp_ok { return Err(format!("insert({}) -> {:?} model ok={}", k, r.map(|_| ()), exp_ok)); } }
            3 | 4 | 5 => { let k = (op - 3) as u8; let r = q!(x => x.remove(&k)).map(|e| e.v()); let exp = m.remove(&k); if r != exp { return Err(format!("remove({}) -> {:?} model {:?}", k, r, exp)); } }
            _ => {} }
        let len = q!(x => x.len()); if len != m.len() { return Err(format!("len {} model {}", len, m.len())); }
        for k in 0..3u8 { let g = q!(x => x.get(&k).map(|e| e.v())); if g != m.get(&k).cloned() { return Err(format!("get({}) -> {:?} model {:?}", k, g, m.get(&k))); } let c = q!(x => x.contains(&k)); if c != m.contains_key(&k) { return Err(format!("contains({}) {}", k, c)); } } } }
    life_check("flatmap")
}

fn vec_hist<const C: usize>(seq: &[usize]) -> Result<(), String> {
    life_reset();
    { let mut m: Vec<u8> = vec![]; let mut q = StaticVec::<El, C>::new();
      for (step, op) in seq.iter().enumerate() { let val = step as u8 + 1;
        match op { 0 => { let r = q.push(El::new(val)); let exp = m.len() < C; if exp { m.push(val); } if r.is_ok() != exp { return Err(format!("push ok={} model {}", r.is_ok(), exp)); } }
            1 => { let r = q.pop().map(|e| e.v()); let exp = m.pop(); if r != exp { return Err(format!("pop {:?} model {:?}", r, exp)); } }
            2 | 3 => { let idx = op - 2; let r = q.insert(idx, El::new(val)); let exp = idx <= m.len() && m.len() < C; if exp { m.insert(idx, val); } if r.is_ok() != exp { return Err(format!("insert({}) ok={} model {}", idx, r.is_ok(), exp)); } }
            4 | 5 => { let idx = op - 4; let r = q.remove(idx).map(|e| e.v()); let exp = if idx < m.len() { Some(m.remove(idx)) } else { None }; if r != exp { return Err(format!("remove({}) {:?} model {:?}", idx, r, exp)); } }
            6 => { q.truncate(1); m.truncate(1); }
            7 => { let r = q.resize_with(2, || El::new(val)); let exp = 2 <= C; if exp { m.resize(2, val); } if r.is_ok() != exp { return Err(format!("resize_with ok={} model {}", r.is_ok(), exp)); } }
            _ => { q.clear(); m.clear(); } }
        let got: Vec<u8> = q.as_slice().iter().map(|e| e.v()).collect(); if got != m { return Err(format!("contents {:?} model {:?}", got, m)); }
        if q.len() != m.len() || q.is_full() != (m.len() == C) { return Err("len/full".into()); } } }
    life_check("vec")
}

fn main() { std::panic::set_hook(Box::new(|_| {}));
    let l: usize = std::env::args().nth(1).map(|s| s.parse().unwrap()).unwrap_or(5);
    macro_rules! report { ($name:expr, $r:expr) => { let (n, f) = $r; println!("{:28} histories={:8} failing={:6} {}", $name, n, f.len(), f.iter().take(2).cloned().collect::<Vec<_>>().join(" | ")); } }
    report!("queue heap cap0", for_all_seqs(5, l, |s| queue_hist::<0>(s, true)));
    report!("queue heap cap1", for_all_seqs(5, l, |s| queue_hist::<1>(s, true)));
    report!("queue heap cap2", for_all_seqs(5, l, |s| queue_hist::<2>(s, true)));
    report!("queue fixed cap1", for_all_seqs(5, l, |s| queue_hist::<1>(s, false)));
    report!("queue fixed cap3", for_all_seqs(5, l, |s| queue_hist::<3>(s, false)));
    report!("slotmap heap cap1", for_all_seqs(7, l, |s| slotmap_hist::<1>(s, true)));
    report!("slotmap heap cap2", for_all_seqs(7, l, |s| slotmap_hist::<2>(s, true)));
    report!("slotmap fixed cap2", for_all_seqs(7, l, |s| slotmap_hist::<2>(s, false)));
    report!("slotmap fixed cap3", for_all_seqs(7, l, |s| slotmap_hist::<3>(s, false)));
    report!("flatmap heap cap1", for_all_seqs(6, l, |s| flatmap_hist::<1>(s, true)));
    report!("flatmap heap cap2", for_all_seqs(6, l, |s| flatmap_hist::<2>(s, true)));
    report!("flatmap fixed cap2", for_all_seqs(6, l, |s| flatmap_hist::<2>(s, false)));
    report!("staticvec cap0", for_all_seqs(9, l.min(4), |s| vec_hist::<0>(s)));
    report!("staticvec cap1", for_all_seqs(9, l.min(5), |s| vec_hist::<1>(s)));
    report!("staticvec cap2", for_all_seqs(9, l.min(5), |s| vec_hist::<2>(s)));
    report!("staticvec cap3", for_all_seqs(9, l.min(5), |s| vec_hist::<3>(s)));
}
