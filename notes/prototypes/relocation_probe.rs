// Relocation probe (C14 sketch): build a relocatable container in a block, memcpy the block to a
// fresh address, free the old block, continue. Throw-away.
extern crate iceoryx2_bb_loggers;
use iceoryx2_bb_container::queue::RelocatableQueue;
use iceoryx2_bb_container::vector::relocatable_vec::RelocatableVec;
use iceoryx2_bb_container::vector::Vector;
use iceoryx2_bb_lock_free::mpmc::unique_index_set::UniqueIndexSet;
use iceoryx2_bb_lock_free::mpmc::unique_index_set_enums::ReleaseMode;
use iceoryx2_bb_lock_free::spsc::index_queue::RelocatableIndexQueue;
use iceoryx2_bb_elementary::bump_allocator::BumpAllocator;
use iceoryx2_bb_elementary_traits::relocatable_container::RelocatableContainer;
use std::alloc::{alloc_zeroed, dealloc, Layout};
use std::ptr::NonNull;

struct Block<T> { ptr: *mut u8, layout: Layout, _t: std::marker::PhantomData<T> }
impl<T: RelocatableContainer> Block<T> {
    fn new(cap: usize, shift: usize) -> Self {
        let size = std::mem::size_of::<T>() + T::memory_size(cap) + 64;
        let layout = Layout::from_size_align(size + shift, 64).unwrap();
        let ptr = unsafe { alloc_zeroed(layout) };
        let b: Block<T> = Block { ptr, layout, _t: std::marker::PhantomData };
        unsafe { (b.hdr() as *mut T).write(T::new_uninit(cap)); let start = NonNull::new_unchecked(b.ptr.add(std::mem::size_of::<T>())); let a = BumpAllocator::new(start, size - std::mem::size_of::<T>()); (*b.hdr()).init(&a).unwrap(); }
        b
    }
    fn hdr(&self) -> *mut T { self.ptr as *mut T }
    fn get(&mut self) -> &mut T { unsafe { &mut *self.hdr() } }
    fn relocate(self) -> Self {
        let new = unsafe { alloc_zeroed(self.layout) };
        unsafe { std::ptr::copy_nonoverlapping(self.ptr, new, self.layout.size()); std::ptr::write_bytes(self.ptr, 0xAA, self.layout.size()); dealloc(self.ptr, self.layout); }
        Block { ptr: new, layout: self.layout, _t: std::marker::PhantomData }
    }
    fn free(self) { unsafe { dealloc(self.ptr, self.layout); } }
}
struct Rng(u64);
impl Rng { fn next(&mut self) -> u64 { self.0 = self.0.wrapping_add(0x9E3779B97F4A7C15); let mut z = self.0; z = (z ^ (z >> 30)).wrapping_mul(0xBF58476D1CE4E5B9); z = (z ^ (z >> 27)).wrapping_mul(0x94D049BB133111EB); z ^ (z >> 31) } }

fn main() {
    let seeds: u64 = std::env::args().nth(1).map(|s| s.parse().unwrap()).unwrap_or(20);
    let (mut ops, mut relocs) = (0u64, 0u64);
    for seed in 1..=seeds { let mut r = Rng(seed); let cap = 1 + (r.next() % 4) as usize;
        // vec
        let mut b = Block::<RelocatableVec<u64>>::new(cap, 0); let mut m: Vec<u64> = vec![];
        for _ in 0..30 { match r.next() % 4 { 0 | 1 => { let v = r.next() % 100; let ok = b.get().push(v).is_ok(); assert_eq!(ok, m.len() < cap); if ok { m.push(v); } } 2 => { assert_eq!(b.get().pop(), m.pop()); } _ => { b = b.relocate(); relocs += 1; } } assert_eq!(b.get().as_slice(), &m[..]); ops += 1; }
        b.free();
        // queue
        let mut b = Block::<RelocatableQueue<u64>>::new(cap, 0); let mut m: std::collections::VecDeque<u64> = Default::default();
        for _ in 0..30 { match r.next() % 4 { 0 | 1 => { let v = r.next() % 100; let ok = unsafe { b.get().push(v) }; assert_eq!(ok, m.len() < cap); if ok { m.push_back(v); } } 2 => { assert_eq!(unsafe { b.get().pop() }, m.pop_front()); } _ => { b = b.relocate(); relocs += 1; } } assert_eq!(b.get().len(), m.len()); ops += 1; }
        b.free();
        // unique index set
        let mut b = Block::<UniqueIndexSet>::new(cap, 0); let mut held: Vec<u32> = vec![];
        for _ in 0..30 { match r.next() % 4 { 0 | 1 => { match unsafe { b.get().acquire_raw_index() } { Ok(i) => { assert!((i as usize) < cap && !held.contains(&i)); held.push(i); } Err(_) => assert_eq!(held.len(), cap) } } 2 => { if let Some(i) = held.pop() { unsafe { b.get().release_raw_index(i, ReleaseMode::Default); } } } _ => { b = b.relocate(); relocs += 1; } } assert_eq!(b.get().borrowed_indices(), held.len()); ops += 1; }
        b.free();
        // index queue
        let mut b = Block::<RelocatableIndexQueue>::new(cap, 0); let mut m: std::collections::VecDeque<u64> = Default::default();
        for _ in 0..30 { match r.next() % 4 { 0 | 1 => { let v = r.next() % 100; let ok = unsafe { b.get().push(v) }; assert_eq!(ok, m.len() < cap); if ok { m.push_back(v); } } 2 => { assert_eq!(unsafe { b.get().pop() }, m.pop_front()); } _ => { b = b.relocate(); relocs += 1; } } ops += 1; }
        b.free();
    }
    println!("ok ops={} relocations={}", ops, relocs);
}
