extern crate iceoryx2_bb_loggers;
use iceoryx2_bb_concurrency::verif::{self, OpKind, Phase};
use iceoryx2_bb_lock_free::mpmc::unique_index_set::*;
use iceoryx2_bb_lock_free::mpmc::unique_index_set_enums::*;
use std::cell::Cell;
use std::sync::atomic::{AtomicBool, AtomicU64, AtomicUsize, Ordering::*};
use std::sync::{Arc, Barrier};
use std::time::{Duration, Instant};

const MAXT: usize = 4;
#[repr(align(128))]
struct Pad(AtomicU64);
static PROGRESS: [Pad; MAXT] = [Pad(AtomicU64::new(0)), Pad(AtomicU64::new(0)), Pad(AtomicU64::new(0)), Pad(AtomicU64::new(0))];
static DONE: [AtomicBool; MAXT] = [AtomicBool::new(false), AtomicBool::new(false), AtomicBool::new(false), AtomicBool::new(false)];
static PLAN_T: AtomicUsize = AtomicUsize::new(usize::MAX);
static PLAN_K: AtomicU64 = AtomicU64::new(0);
static PLAN_M: AtomicU64 = AtomicU64::new(0);
static NTHREADS: AtomicUsize = AtomicUsize::new(0);
static EFFECTIVE: AtomicU64 = AtomicU64::new(0);
static REACHED: AtomicU64 = AtomicU64::new(0);
thread_local! { static TID: Cell<usize> = Cell::new(usize::MAX); static CNT: Cell<u64> = Cell::new(0); }

fn hook(_p: Phase, _k: OpKind, _addr: usize, _wrote: bool) {
    let tid = TID.with(|t| t.get());
    if tid == usize::MAX { return; }
    let c = CNT.with(|c| { let v = c.get() + 1; c.set(v); v });
    PROGRESS[tid].0.store(c, Relaxed);
    if PLAN_T.load(Relaxed) == tid && PLAN_K.load(Relaxed) == c {
        REACHED.fetch_add(1, Relaxed);
        let n = NTHREADS.load(Relaxed);
        let others = |_: ()| -> u64 { (0..n).filter(|i| *i != tid).map(|i| PROGRESS[i].0.load(Relaxed)).sum() };
        let s0 = others(());
        let m = PLAN_M.load(Relaxed);
        let start = Instant::now();
        loop {
            let all_done = (0..n).filter(|i| *i != tid).all(|i| DONE[i].load(Relaxed));
            if others(()) >= s0.saturating_add(m) { EFFECTIVE.fetch_add(1, Relaxed); break; }
            if all_done { if m == u64::MAX { EFFECTIVE.fetch_add(1, Relaxed); } break; }
            if start.elapsed() > Duration::from_millis(2) { break; }
            std::thread::yield_now();
        }
    }
}

#[derive(Clone, Copy, Debug)]
enum Op { Acq, RelOldest, RelNewest }

struct Rng(u64);
impl Rng { fn next(&mut self) -> u64 { self.0 = self.0.wrapping_add(0x9E3779B97F4A7C15); let mut z = self.0; z = (z ^ (z >> 30)).wrapping_mul(0xBF58476D1CE4E5B9); z = (z ^ (z >> 27)).wrapping_mul(0x94D049BB133111EB); z ^ (z >> 31) } }

// returns (violations, per-thread hook counts)
fn run(cap: usize, progs: &Vec<Vec<Op>>, plan: Option<(usize, u64, u64)>) -> (u64, Vec<u64>) {
    let n = progs.len();
    NTHREADS.store(n, Relaxed);
    for i in 0..MAXT { PROGRESS[i].0.store(0, Relaxed); DONE[i].store(false, Relaxed); }
    match plan { Some((t, k, m)) => { PLAN_K.store(k, Relaxed); PLAN_M.store(m, Relaxed); PLAN_T.store(t, Relaxed); } None => PLAN_T.store(usize::MAX, Relaxed) }
    let set = Arc::new(FixedSizeUniqueIndexSet::<4>::new_with_reduced_capacity(cap).unwrap());
    let owner: Arc<Vec<AtomicU64>> = Arc::new((0..4).map(|_| AtomicU64::new(0)).collect());
    let viol = Arc::new(AtomicU64::new(0));
    let bar = Arc::new(Barrier::new(n));
    let mut hs = vec![];
    for (tid, prog) in progs.iter().cloned().enumerate() {
        let (set, owner, viol, bar) = (set.clone(), owner.clone(), viol.clone(), bar.clone());
        hs.push(std::thread::spawn(move || {
            bar.wait();
            TID.with(|t| t.set(tid)); CNT.with(|c| c.set(0));
            let me = tid as u64 + 1;
            let mut held: Vec<u32> = vec![];
            for op in prog {
                match op {
                    Op::Acq => { if let Ok(i) = unsafe { set.acquire_raw_index() } {
                        if i as usize >= cap { viol.fetch_add(1, Relaxed); } else if owner[i as usize].swap(me, Relaxed) != 0 { viol.fetch_add(1, Relaxed); }
                        held.push(i); } }
                    Op::RelOldest | Op::RelNewest => { if !held.is_empty() { let i = if matches!(op, Op::RelOldest) { held.remove(0) } else { held.pop().unwrap() };
                        if (i as usize) < cap && owner[i as usize].swap(0, Relaxed) != me { viol.fetch_add(1, Relaxed); }
                        unsafe { set.release_raw_index(i, ReleaseMode::Default); } } }
                }
            }
            for i in held { if (i as usize) < cap { owner[i as usize].swap(0, Relaxed); } unsafe { set.release_raw_index(i, ReleaseMode::Default); } }
            let c = CNT.with(|c| c.get());
            TID.with(|t| t.set(usize::MAX));
            DONE[tid].store(true, Relaxed);
            c
        }));
    }
    let counts: Vec<u64> = hs.into_iter().map(|h| h.join().unwrap()).collect();
    // leak probe
    let mut got = 0; let mut tmp = vec![];
    while let Ok(i) = unsafe { set.acquire_raw_index() } { got += 1; tmp.push(i); if got > 8 { break; } }
    let mut v = viol.load(Relaxed);
    if got != cap { v += 1; }
    let mut s = tmp.clone(); s.sort(); s.dedup(); if s.len() != tmp.len() { v += 1; }
    (v, counts)
}

fn main() {
    let args: Vec<String> = std::env::args().collect();
    let seed: u64 = args.get(1).map(|s| s.parse().unwrap()).unwrap_or(1);
    let nprogs: usize = args.get(2).map(|s| s.parse().unwrap()).unwrap_or(20);
    let mode = args.get(3).map(|s| s.as_str()).unwrap_or("sweep").to_string();
    verif::set_hook(Some(hook));
    let mut rng = Rng(seed);
    let (mut execs, mut viols, mut first) = (0u64, 0u64, None);
    let t0 = Instant::now();
    for p in 0..nprogs {
        let cap = 2 + (rng.next() % 2) as usize;
        let nt = 2 + (rng.next() % 2) as usize;
        let progs: Vec<Vec<Op>> = (0..nt).map(|_| (0..(3 + rng.next() % 4)).map(|_| match rng.next() % 5 { 0 | 1 | 2 => Op::Acq, 3 => Op::RelOldest, _ => Op::RelNewest }).collect()).collect();
        if mode == "stress" {
            for _ in 0..400 { let (v, _) = run(cap, &progs, None); execs += 1; if v > 0 { viols += 1; if first.is_none() { first = Some((p, cap, progs.clone(), None)); } } }
            continue;
        }
        let (v, counts) = run(cap, &progs, None); execs += 1; if v > 0 { viols += 1; }
        for t in 0..nt { for k in 1..=counts[t] + 2 { for m in [1u64, 2, 4, 8, 16, u64::MAX] {
            let (v, _) = run(cap, &progs, Some((t, k, m))); execs += 1;
            if v > 0 { viols += 1; if first.is_none() { first = Some((p, cap, progs.clone(), Some((t, k, m)))); } }
        } } }
    }
    println!("mode={} execs={} violations={} reached={} effective={} secs={:.1} first={:?}", mode, execs, viols, REACHED.load(Relaxed), EFFECTIVE.load(Relaxed), t0.elapsed().as_secs_f64(), first);
}
