// Drop-order permutation probe (C17 sketch), publish-subscribe. Throw-away.
use iceoryx2::prelude::*;
use iceoryx2_bb_container::semantic_string::SemanticString;
use iceoryx2_bb_system_types::file_name::FileName;
use iceoryx2_bb_system_types::path::Path;
use std::any::Any;

fn listing(root: &str, prefix: &str) -> Vec<String> {
    let mut v = vec![];
    fn walk(d: &std::path::Path, v: &mut Vec<String>) { if let Ok(rd) = std::fs::read_dir(d) { for e in rd.flatten() { let p = e.path(); if p.is_dir() { walk(&p, v); } else { v.push(p.display().to_string()); } } } }
    walk(std::path::Path::new(root), &mut v);
    if let Ok(rd) = std::fs::read_dir("/dev/shm") { for e in rd.flatten() { let n = e.file_name().to_string_lossy().to_string(); if n.starts_with(prefix) && !n.ends_with("global_mgmt") { v.push(format!("/dev/shm/{}", n)); } } }
    v.sort(); v
}
fn permutations(n: usize) -> Vec<Vec<usize>> { let mut out = vec![]; let mut a: Vec<usize> = (0..n).collect(); fn heap(k: usize, a: &mut Vec<usize>, out: &mut Vec<Vec<usize>>) { if k == 1 { out.push(a.clone()); return; } heap(k - 1, a, out); for i in 0..k - 1 { if k % 2 == 0 { a.swap(i, k - 1); } else { a.swap(0, k - 1); } heap(k - 1, a, out); } } heap(n, &mut a, &mut out); out }

macro_rules! gen { ($fname:ident, $S:ty) => {
fn $fname(root: &str, tag: &str) -> (usize, Vec<String>) {
    type S = $S;
    let names = ["node", "service", "publisher", "subscriber", "loaned sample", "received sample", "second node+subscriber"];
    let perms = permutations(names.len());
    let mut problems = vec![];
    for (pi, perm) in perms.iter().enumerate() {
        let prefix = format!("pm{}_{}_{}_", tag, std::process::id(), pi);
        let mut cfg = Config::default(); cfg.global.set_root_path(&Path::new(root.as_bytes()).unwrap()); cfg.global.prefix = FileName::new(prefix.as_bytes()).unwrap();
        let r = std::panic::catch_unwind(std::panic::AssertUnwindSafe(|| -> Result<(), String> {
            let node = NodeBuilder::new().config(&cfg).create::<S>().map_err(|e| format!("{e:?}"))?;
            let svc = node.service_builder(&"perm_svc".try_into().unwrap()).publish_subscribe::<u64>().history_size(1).subscriber_max_buffer_size(2).max_subscribers(2).max_nodes(2).create().map_err(|e| format!("{e:?}"))?;
            let p = svc.publisher_builder().create().map_err(|e| format!("{e:?}"))?;
            let s = svc.subscriber_builder().create().map_err(|e| format!("{e:?}"))?;
            let node2 = NodeBuilder::new().config(&cfg).create::<S>().map_err(|e| format!("{e:?}"))?;
            let svc2 = node2.service_builder(&"perm_svc".try_into().unwrap()).publish_subscribe::<u64>().open().map_err(|e| format!("{e:?}"))?;
            let s2 = svc2.subscriber_builder().create().map_err(|e| format!("{e:?}"))?;
            p.send_copy(41).map_err(|e| format!("{e:?}"))?;
            let loan = p.loan().map_err(|e| format!("{e:?}"))?;
            let recv = s.receive().map_err(|e| format!("{e:?}"))?.ok_or("nothing received")?;
            let mut objs: Vec<Option<Box<dyn Any>>> = vec![Some(Box::new(node)), Some(Box::new(svc)), Some(Box::new(p)), Some(Box::new(s)), Some(Box::new(loan)), Some(Box::new(recv)), Some(Box::new((s2, svc2, node2)))];
            for i in perm { drop(objs[*i].take());
                // survivors: the received sample must keep its value
                if let Some(Some(b)) = objs.get(5) { if let Some(smp) = b.downcast_ref::<iceoryx2::sample::Sample<S, u64, ()>>() { if **smp != 41 { return Err(format!("received sample changed to {} after dropping {}", **smp, names[*i])); } } } }
            Ok(()) }));
        let res = match r { Ok(Ok(())) => None, Ok(Err(e)) => Some(e), Err(p) => Some(format!("PANIC {}", p.downcast_ref::<String>().cloned().or(p.downcast_ref::<&str>().map(|s| s.to_string())).unwrap_or_default())) };
        let rest = listing(root, &prefix);
        if res.is_some() || !rest.is_empty() { let order: Vec<&str> = perm.iter().map(|i| names[*i]).collect(); problems.push(format!("order {:?}: {:?} residue {:?}", order, res, rest.iter().map(|f| f.replace(root, "").replace(&prefix, "P_")).collect::<Vec<_>>())); for f in rest { let _ = std::fs::remove_file(f); } }
    }
    (perms.len(), problems)
} } }
gen!(run_ipc, ipc::Service);
gen!(run_local, local::Service);

fn main() {
    std::panic::set_hook(Box::new(|_| {}));
    let root = std::env::args().nth(1).unwrap();
    std::fs::create_dir_all(&root).unwrap();
    for (name, (n, problems)) in [("ipc", run_ipc(&root, "i")), ("local", run_local(&root, "l"))] {
        println!("{}: permutations={} problematic={}", name, n, problems.len());
        let mut classes = std::collections::BTreeMap::<String, (usize, String)>::new();
        for p in &problems { let key = p.split(": ").skip(1).collect::<Vec<_>>().join(": "); let e = classes.entry(key).or_insert((0, p.clone())); e.0 += 1; }
        for (k, (c, ex)) in classes.iter().take(8) { println!("  {:5} x {}\n          e.g. {}", c, &k[..k.len().min(200)], &ex[..ex.len().min(260)]); }
    }
}
