// Registry snapshot probe (C10 sketch) + seqlock probe (C12 sketch). Throw-away.
extern crate iceoryx2_bb_loggers;
use iceoryx2_bb_concurrency::verif::{self, OpKind, Phase};
use iceoryx2_bb_lock_free::mpmc::container::*;
use iceoryx2_bb_lock_free::mpmc::unique_index_set_enums::ReleaseMode;
use iceoryx2_bb_lock_free::spmc::unrestricted_atomic::UnrestrictedAtomic;
use std::cell::Cell;
use std::sync::atomic::{AtomicBool, Ordering::*};
use std::sync::{Arc, Barrier};
use std::time::{Duration, Instant};

thread_local! { static RNG: Cell<u64> = Cell::new(0); static PERTURB: Cell<u32> = Cell::new(0); }
fn next() -> u64 { RNG.with(|r| { let mut s = r.get().wrapping_add(0x9E3779B97F4A7C15); r.set(s); s = (s ^ (s >> 30)).wrapping_mul(0xBF58476D1CE4E5B9); s = (s ^ (s >> 27)).wrapping_mul(0x94D049BB133111EB); s ^ (s >> 31) }) }
fn hook(_p: Phase, _k: OpKind, _a: usize, _w: bool) { let p = PERTURB.with(|p| p.get()); if p == 0 { return; } let r = next(); if (r % 1000) < p as u64 { match (r >> 20) % 3 { 0 => std::thread::yield_now(), 1 => { let t = Instant::now(); let d = Duration::from_micros((r >> 24) % 40); while t.elapsed() < d { std::hint::spin_loop(); } }, _ => std::thread::sleep(Duration::from_micros(50 + (r >> 24) % 200)) } } }
static T0: std::sync::OnceLock<Instant> = std::sync::OnceLock::new();
fn now() -> u64 { T0.get().unwrap().elapsed().as_nanos() as u64 }

const K: usize = 7;
#[derive(Clone, Copy, Debug)]
#[repr(C)]
struct Entry { id: u64, fill: [u64; K] }
impl Entry { fn new(id: u64) -> Self { let mut fill = [0; K]; for (i, f) in fill.iter_mut().enumerate() { *f = id.wrapping_mul(0x9E37) ^ (i as u64 + 1); } Entry { id, fill } } fn ok(&self) -> bool { let e = Entry::new(self.id); e.fill == self.fill } }

#[derive(Debug, Clone)]
enum Ev { Add { id: u64, call: u64, ret: u64, ok: bool }, Rem { id: u64, call: u64, ret: u64 }, Snap { call: u64, ret: u64, changed: bool, ids: Vec<u64>, torn: usize } }

fn container_run<const CAP: usize>(seed: u64, writers: usize, ops: usize, perturb: u32) -> Vec<String> {
    let c = Arc::new(FixedSizeContainer::<Entry, CAP>::new());
    let stop = Arc::new(AtomicBool::new(false));
    let bar = Arc::new(Barrier::new(writers + 1));
    let mut hs = vec![];
    for w in 0..writers { let (c, bar) = (c.clone(), bar.clone());
        hs.push(std::thread::spawn(move || { RNG.with(|r| r.set(seed * 77 + w as u64)); PERTURB.with(|p| p.set(perturb)); let owner = OwnerId::new(100 + w as u64).unwrap(); let mut log = vec![]; let mut mine: Vec<(u64, ContainerHandle)> = vec![]; let mut ctr = 0u64; bar.wait();
            for _ in 0..ops { if mine.is_empty() || next() % 2 == 0 { ctr += 1; let id = ((w as u64 + 1) << 32) | ctr; let call = now(); let r = c.add(Entry::new(id), owner); let ret = now(); if let Ok((_, h)) = r { mine.push((id, h)); } log.push(Ev::Add { id, call, ret, ok: r.is_ok() }); }
                else { let k = (next() % mine.len() as u64) as usize; let (id, h) = mine.remove(k); let call = now(); unsafe { c.remove(h, ReleaseMode::Default).unwrap(); } log.push(Ev::Rem { id, call, ret: now() }); } }
            for (id, h) in mine { let call = now(); unsafe { c.remove(h, ReleaseMode::Default).unwrap(); } log.push(Ev::Rem { id, call, ret: now() }); }
            PERTURB.with(|p| p.set(0)); log })); }
    let reader = { let (c, stop, bar) = (c.clone(), stop.clone(), bar.clone()); std::thread::spawn(move || { RNG.with(|r| r.set(seed * 13 + 5)); PERTURB.with(|p| p.set(perturb)); let mut st = c.get_state(); let mut log = vec![]; bar.wait();
        loop { let fin = stop.load(Relaxed); let call = now(); let changed = unsafe { c.update_state(&mut st) }; let ret = now(); let mut ids = vec![]; let mut torn = 0; st.for_each(|_, e: &Entry| { if !e.ok() { torn += 1; } ids.push(e.id); CallbackProgression::Continue }); log.push(Ev::Snap { call, ret, changed, ids, torn }); if fin { break; } }
        // quiescent: one more refresh must report nothing changed
        let call = now(); let changed = unsafe { c.update_state(&mut st) }; let mut ids = vec![]; st.for_each(|_, e: &Entry| { ids.push(e.id); CallbackProgression::Continue }); log.push(Ev::Snap { call, ret: now(), changed, ids, torn: 0 });
        PERTURB.with(|p| p.set(0)); log }) };
    let mut wl = vec![]; for h in hs { wl.extend(h.join().unwrap()); }
    stop.store(true, Relaxed);
    let rl = reader.join().unwrap();
    // oracle
    let mut errs = vec![];
    let mut adds = std::collections::HashMap::new(); let mut rems = std::collections::HashMap::new();
    for e in &wl { match e { Ev::Add { id, call, ret, ok } => { if *ok { adds.insert(*id, (*call, *ret)); } } Ev::Rem { id, call, ret } => { rems.insert(*id, (*call, *ret)); } _ => {} } }
    let mut prev_ids: Option<Vec<u64>> = None;
    for e in &rl { if let Ev::Snap { call, ret, changed, ids, torn } = e {
        if *torn > 0 { errs.push(format!("torn entries {}", torn)); }
        for id in ids { match adds.get(id) { None => errs.push(format!("ghost id {:x} never added", id)), Some((acall, _)) => { if acall > ret { errs.push(format!("id {:x} seen before its add was called", id)); } } } if let Some((_, rret)) = rems.get(id) { if rret < call { errs.push(format!("id {:x} seen although its remove returned before the refresh was called", id)); } } }
        for (id, (_, aret)) in &adds { if aret < call { let removed_maybe = rems.get(id).map(|(rcall, _)| rcall < ret).unwrap_or(false); if !removed_maybe && !ids.contains(id) { errs.push(format!("id {:x} missing: add returned before refresh call and remove not started before refresh return", id)); } } }
        if !*changed { if let Some(p) = &prev_ids { if p != ids { errs.push("update_state returned false but contents differ".into()); } } }
        prev_ids = Some(ids.clone()); } }
    if let Some(Ev::Snap { changed, ids, .. }) = rl.last() { if *changed { errs.push("quiescent refresh reported a change".into()); } if !ids.is_empty() { errs.push(format!("quiescent snapshot not empty: {:?}", ids)); } }
    errs
}

fn seqlock_run<const N: usize>(seed: u64, k: u64, perturb: u32) -> Vec<String> {
    let val = |v: u64| -> [u8; N] { let mut x = [0u8; N]; for (i, b) in x.iter_mut().enumerate() { *b = (v as u8).wrapping_mul(31).wrapping_add(i as u8) ^ ((v >> 8) as u8); } if N >= 1 { x[0] = v as u8; } x };
    let a = Arc::new(UnrestrictedAtomic::<[u8; N]>::new(val(0)));
    let bar = Arc::new(Barrier::new(3)); let stop = Arc::new(AtomicBool::new(false));
    let w = { let (a, bar) = (a.clone(), bar.clone()); std::thread::spawn(move || { RNG.with(|r| r.set(seed)); PERTURB.with(|p| p.set(perturb)); let p = a.acquire_producer().unwrap(); assert!(a.acquire_producer().is_none()); bar.wait(); for v in 1..=k { p.store(val(v)); } PERTURB.with(|p| p.set(0)); }) };
    let mut rs = vec![];
    for t in 0..2 { let (a, bar, stop) = (a.clone(), bar.clone(), stop.clone()); rs.push(std::thread::spawn(move || { RNG.with(|r| r.set(seed * 3 + t)); PERTURB.with(|p| p.set(perturb)); let mut errs = vec![]; let mut last = 0u64; let mut reads = 0; bar.wait();
        loop { let fin = stop.load(Relaxed); let x = a.load(); reads += 1; let v0 = x[0] as u64; // recover version modulo 256 by search near last
            let mut found = None; for cand in last..=last + 300 { if val(cand) == x { found = Some(cand); break; } } match found { Some(v) => { last = v; } None => { // may be a torn value or a step backwards
                let mut back = false; for cand in 0..last { if val(cand) == x { back = true; break; } } errs.push(if back { format!("version went backwards (first byte {})", v0) } else { format!("torn value first byte {}", v0) }); } }
            if fin { break; } }
        PERTURB.with(|p| p.set(0)); (errs, reads, last) })); }
    w.join().unwrap(); stop.store(true, Relaxed);
    let mut errs = vec![]; for r in rs { let (e, _reads, last) = r.join().unwrap(); errs.extend(e); if last != k { errs.push(format!("final read {} != last written {}", last, k)); } }
    errs
}

fn main() {
    T0.set(Instant::now()).unwrap(); verif::set_hook(Some(hook));
    let a: Vec<String> = std::env::args().collect(); let runs: u64 = a[1].parse().unwrap(); let perturb: u32 = a[2].parse().unwrap();
    let t = Instant::now(); let (mut bad_c, mut bad_s) = (0, 0);
    for seed in 1..=runs { let e = if seed % 2 == 0 { container_run::<2>(seed, 2, 60, perturb) } else { container_run::<3>(seed, 1 + (seed % 2) as usize, 60, perturb) }; if !e.is_empty() { bad_c += 1; if bad_c <= 3 { println!("container seed {}: {:?}", seed, &e[..e.len().min(3)]); } }
        let e = match seed % 4 { 0 => seqlock_run::<1>(seed, 200, perturb), 1 => seqlock_run::<9>(seed, 200, perturb), 2 => seqlock_run::<65>(seed, 200, perturb), _ => seqlock_run::<200>(seed, 200, perturb) }; if !e.is_empty() { bad_s += 1; if bad_s <= 3 { println!("seqlock seed {}: {:?}", seed, &e[..e.len().min(3)]); } } }
    println!("runs={} perturb={} container_violations={} seqlock_violations={} secs={:.1}", runs, perturb, bad_c, bad_s, t.elapsed().as_secs_f64());
}
