// Miri M1 regimes probe: race-free regimes of the four optimistic structures. Throw-away.
extern crate iceoryx2_bb_loggers;
use iceoryx2_bb_lock_free::mpmc::container::*;
use iceoryx2_bb_lock_free::mpmc::unique_index_set::*;
use iceoryx2_bb_lock_free::mpmc::unique_index_set_enums::*;
use iceoryx2_bb_lock_free::spmc::unrestricted_atomic::*;
use iceoryx2_bb_lock_free::spsc::safely_overflowing_index_queue::*;
use std::cell::UnsafeCell;
use std::sync::Arc;
struct Canary(Vec<UnsafeCell<u64>>);
unsafe impl Sync for Canary {}
fn overflow_queue_no_lap() { // total pushes <= capacity: the producer can never lap the consumer
    let cap = 3; let q = Arc::new(SafelyOverflowingIndexQueue::new(cap)); let pay = Arc::new(Canary((0..8).map(|_| UnsafeCell::new(0)).collect()));
    let (q2, pay2) = (q.clone(), pay.clone());
    let t = std::thread::spawn(move || { let mut p = q2.acquire_producer().unwrap(); for i in 1..=cap as u64 { unsafe { *pay2.0[i as usize].get() = i * 10; } assert!(p.push(i).is_none()); } });
    let mut c = q.acquire_consumer().unwrap(); let mut got = vec![];
    for _ in 0..40 { if let Some(v) = c.pop() { assert_eq!(unsafe { *pay.0[v as usize].get() }, v * 10); got.push(v); } else { std::thread::yield_now(); } if got.len() == cap { break; } }
    t.join().unwrap(); while let Some(v) = c.pop() { got.push(v); } assert_eq!(got, vec![1, 2, 3]);
}
fn index_set_handover() { // one thread only acquires, one only releases; indices handed over through a channel
    let s = Arc::new(FixedSizeUniqueIndexSet::<2>::new()); let cells = Arc::new(Canary((0..2).map(|_| UnsafeCell::new(0)).collect()));
    let (tx, rx) = std::sync::mpsc::channel::<u32>(); let (s2, c2) = (s.clone(), cells.clone());
    let rel = std::thread::spawn(move || { for i in rx { unsafe { *c2.0[i as usize].get() += 1; s2.release_raw_index(i, ReleaseMode::Default); } } });
    let mut n = 0; let mut spins = 0;
    while n < 6 && spins < 400 { match unsafe { s.acquire_raw_index() } { Ok(i) => { unsafe { *cells.0[i as usize].get() += 1; } tx.send(i).unwrap(); n += 1; } Err(_) => { std::thread::yield_now(); spins += 1; } } }
    drop(tx); rel.join().unwrap();
}
fn container_add_only() { // no slot reuse: the reader's copy can only race with a write if publication is broken
    let c = Arc::new(FixedSizeContainer::<[u64; 3], 4>::new()); let c2 = c.clone();
    let w = std::thread::spawn(move || { let o = OwnerId::new(5).unwrap(); for i in 1..=4u64 { c2.add([i; 3], o).unwrap(); } });
    let mut st = c.get_state(); let mut seen = 0;
    for _ in 0..30 { unsafe { c.update_state(&mut st) }; let mut n = 0; st.for_each(|_, v| { assert!(v.iter().all(|x| *x == v[0])); n += 1; CallbackProgression::Continue }); assert!(n >= seen); seen = n; if seen == 4 { break; } std::thread::yield_now(); }
    w.join().unwrap(); unsafe { c.update_state(&mut st) }; let mut n = 0; st.for_each(|_, _| { n += 1; CallbackProgression::Continue }); assert_eq!(n, 4);
}
fn uatomic_single_store() { // k = 1: writer fills the spare cell once; readers read the other cell or the new one
    let a = Arc::new(UnrestrictedAtomic::<[u64; 8]>::new([1; 8])); let a2 = a.clone();
    let w = std::thread::spawn(move || { let p = a2.acquire_producer().unwrap(); p.store([2; 8]); });
    for _ in 0..6 { let v = a.load(); assert!(v == [1; 8] || v == [2; 8]); std::thread::yield_now(); }
    w.join().unwrap(); assert_eq!(a.load(), [2; 8]);
}
fn main() { match std::env::args().nth(1).unwrap().as_str() { "oq" => overflow_queue_no_lap(), "is" => index_set_handover(), "co" => container_add_only(), "ua" => uatomic_single_store(), _ => panic!() } println!("ok"); }
