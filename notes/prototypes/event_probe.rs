use iceoryx2::prelude::*;
use iceoryx2_bb_concurrency::verif::{self, OpKind, Phase};
use std::cell::Cell;
use std::sync::atomic::{AtomicBool, AtomicU64, Ordering::*};
use std::sync::{Arc, Barrier, Mutex};
use std::time::{Duration, Instant};

thread_local! { static RNG: Cell<u64> = Cell::new(0); static PERTURB: Cell<u32> = Cell::new(0); }
fn next() -> u64 { RNG.with(|r| { let mut s = r.get().wrapping_add(0x9E3779B97F4A7C15); r.set(s); s = (s ^ (s >> 30)).wrapping_mul(0xBF58476D1CE4E5B9); s = (s ^ (s >> 27)).wrapping_mul(0x94D049BB133111EB); s ^ (s >> 31) }) }
fn hook(_p: Phase, _k: OpKind, _a: usize, _w: bool) {
    let p = PERTURB.with(|p| p.get()); if p == 0 { return; }
    let r = next();
    if (r % 1000) < p as u64 { match (r >> 20) % 3 { 0 => std::thread::yield_now(), 1 => { let t = Instant::now(); let d = Duration::from_micros((r >> 24) % 60); while t.elapsed() < d { std::hint::spin_loop(); } }, _ => std::thread::sleep(Duration::from_micros(200 + (r >> 24) % 800)) } }
}
#[derive(Debug, Clone)]
enum Ev { Notify { t: usize, id: usize, call: u128, ret: u128, ok: bool }, Wait { kind: u8, call: u128, ret: u128, got: Vec<(usize, u64)>, n: u64 } }
const ROUNDS: usize = 150;
static DONE: AtomicU64 = AtomicU64::new(0);
static OKS: AtomicU64 = AtomicU64::new(0);
static T0: std::sync::OnceLock<Instant> = std::sync::OnceLock::new();
fn now() -> u128 { T0.get().unwrap().elapsed().as_nanos() }

macro_rules! run_variant { ($S:ty, $seed:expr, $nn:expr, $per:expr, $perturb:expr) => {{
    let seed: u64 = $seed; let nn: usize = $nn; let per: usize = $per;
    let name = format!("ev_probe_{}_{}", std::process::id(), seed);
    let log = Arc::new(Mutex::new(Vec::<Ev>::new()));
    let stop = Arc::new(AtomicBool::new(false));
    let bar = Arc::new(Barrier::new(nn + 1)); DONE.store(0, Relaxed); OKS.store(0, Relaxed);
    let lst = { let (log, stop, bar, name) = (log.clone(), stop.clone(), bar.clone(), name.clone());
        std::thread::spawn(move || {
            RNG.with(|r| r.set(seed ^ 0xABCDEF)); PERTURB.with(|p| p.set($perturb));
            let node = NodeBuilder::new().create::<$S>().unwrap();
            let ev = node.service_builder(&name.as_str().try_into().unwrap()).event().event_id_max_value(3).max_notifiers(4).open_or_create().unwrap();
            let l = ev.listener_builder().create().unwrap();
            let mut mine = vec![];
            let mut do_wait = |kind: u8, mine: &mut Vec<Ev>| { let call = now(); let mut got = vec![];
                let n = match kind { 0 => l.try_wait(|a| got.push((a.id.as_value(), a.count))), 1 => l.timed_wait(|a| got.push((a.id.as_value(), a.count)), Duration::from_micros(300)), 2 => l.timed_wait(|a| got.push((a.id.as_value(), a.count)), Duration::from_millis(5)), _ => l.timed_wait(|a| got.push((a.id.as_value(), a.count)), Duration::from_secs(1)) }.unwrap();
                mine.push(Ev::Wait { kind, call, ret: now(), got, n }); };
            for _round in 0..ROUNDS {
                bar.wait();
                while DONE.load(Relaxed) < nn as u64 { let k = (next() % 3) as u8; do_wait(k, &mut mine); }
                // quiescent: all notifiers returned. P4 probe (only if something is pending) then drain
                let pend = OKS.load(Relaxed) as i64 - mine.iter().map(|e| if let Ev::Wait { got, .. } = e { got.iter().map(|x| x.1 as i64).sum::<i64>() } else { 0 }).sum::<i64>();
                if pend > 0 { do_wait(9, &mut mine); }
                do_wait(0, &mut mine);
                DONE.store(0, Relaxed);
            }
            let _ = &stop;
            PERTURB.with(|p| p.set(0));
            log.lock().unwrap().extend(mine);
        }) };
    let mut hs = vec![];
    for t in 0..nn { let (log, bar, name) = (log.clone(), bar.clone(), name.clone());
        hs.push(std::thread::spawn(move || {
            RNG.with(|r| r.set(seed.wrapping_mul(31).wrapping_add(t as u64))); PERTURB.with(|p| p.set($perturb));
            let node = NodeBuilder::new().create::<$S>().unwrap();
            let ev = node.service_builder(&name.as_str().try_into().unwrap()).event().event_id_max_value(3).max_notifiers(4).open_or_create().unwrap();
            let n = ev.notifier_builder().create().unwrap();
            let mut mine = vec![];
            let _ = per;
            for _round in 0..ROUNDS {
                bar.wait();
                let burst = 1 + next() % 2;
                if next() % 2 == 0 { let t0 = Instant::now(); let d = Duration::from_micros(next() % 300); while t0.elapsed() < d { std::hint::spin_loop(); } }
                for _ in 0..burst { let id = (next() % 3) as usize; let call = now(); let r = n.notify_with_custom_event_id(EventId::new(id)); if r.is_ok() { OKS.fetch_add(1, Relaxed); } mine.push(Ev::Notify { t, id, call, ret: now(), ok: r.is_ok() }); }
                DONE.fetch_add(1, Relaxed);
            }
            PERTURB.with(|p| p.set(0));
            log.lock().unwrap().extend(mine);
        })); }
    for h in hs { h.join().unwrap(); }
    stop.store(true, Relaxed);
    lst.join().unwrap();
    let v = log.lock().unwrap().clone(); v
}}; }

fn check(log: &Vec<Ev>) -> Vec<String> {
    let mut errs = vec![];
    let mut started = [0u64; 4]; let mut okc = [0u64; 4]; let mut delivered = [0u64; 4];
    let mut notifies = vec![]; let mut waits = vec![];
    for e in log { match e { Ev::Notify { id, call, ret, ok, .. } => { started[*id] += 1; if *ok { okc[*id] += 1; } notifies.push((*id, *call, *ret, *ok)); }, Ev::Wait { kind, call, ret, got, n } => { waits.push((*kind, *call, *ret, got.clone(), *n)); for (id, c) in got { if *id > 3 { errs.push(format!("P1 phantom id {}", id)); } else { delivered[*id] += c; } } } } }
    waits.sort_by_key(|w| w.1);
    for id in 0..4 { if delivered[id] > started[id] { errs.push(format!("P2 id {} delivered {} > started {}", id, delivered[id], started[id])); }
        if delivered[id] < okc[id] { errs.push(format!("P3 id {} delivered {} < succeeded {}", id, delivered[id], okc[id])); } }
    // prefix bound: deliveries returned before time T cannot exceed notifies started before T
    let mut cum = [0u64; 4];
    for w in &waits { for (id, c) in &w.3 { cum[*id] += c; let st = notifies.iter().filter(|n| n.0 == *id && n.1 < w.2).count() as u64; if cum[*id] > st { errs.push(format!("P2-prefix id {} cum {} > started-before {}", id, cum[*id], st)); } } }
    // P4: every probe wait (kind 9) was issued with something pending and nobody in flight: it must return > 0
    for (_pi, w) in waits.iter().enumerate() { if w.0 == 9 { let got: u64 = w.3.iter().map(|x| x.1).sum(); let ms = (w.2 - w.1) / 1_000_000; if got == 0 || ms >= 900 { errs.push(format!("P4 lost wake-up: probe with pending ids returned {} events after {} ms (timeout 1000 ms)", got, ms)); } } }
    errs
}

fn main() {
    T0.set(Instant::now()).unwrap();
    verif::set_hook(Some(hook));
    let args: Vec<String> = std::env::args().collect();
    let runs: u64 = args[1].parse().unwrap(); let variant = args[2].clone(); let perturb: u32 = args[3].parse().unwrap();
    let (mut bad, mut nots, mut wts, mut nonempty) = (0, 0usize, 0usize, 0usize);
    let t = Instant::now();
    for seed in 1..=runs {
        let nn = 1 + (seed % 3) as usize;
        let log = if variant == "ipc" { run_variant!(ipc::Service, seed, nn, 40, perturb) } else { run_variant!(local::Service, seed, nn, 40, perturb) };
        nots += log.iter().filter(|e| matches!(e, Ev::Notify { .. })).count(); wts += log.iter().filter(|e| matches!(e, Ev::Wait { .. })).count();
        nonempty += log.iter().filter(|e| matches!(e, Ev::Wait { n, .. } if *n > 0)).count();
        let errs = check(&log);
        if !errs.is_empty() { bad += 1; if bad <= 3 { println!("seed {} nn {}: {:?}", seed, nn, &errs[..errs.len().min(3)]); } }
    }
    println!("variant={} perturb={} runs={} violations={} notifies={} waits={} nonempty_waits={} secs={:.1}", variant, perturb, runs, bad, nots, wts, nonempty, t.elapsed().as_secs_f64());
}
