use iceoryx2::prelude::*;
fn main() -> Result<(), Box<dyn std::error::Error>> {
    let node = NodeBuilder::new().create::<local::Service>()?;
    let svc = node.service_builder(&format!("s10_{}", std::process::id()).as_str().try_into()?).publish_subscribe::<u64>().subscriber_max_buffer_size(1).max_subscribers(1).history_size(0).create()?;
    let p = svc.publisher_builder().max_loaned_samples(2).create()?;
    let s = svc.subscriber_builder().create()?;
    p.send_copy(1111)?;
    let sample = s.receive()?.unwrap();
    println!("held sample = {}", *sample);
    drop(s);
    p.send_copy(9000)?; println!("after first send: held sample = {}", *sample);
    let l1 = p.loan_uninit()?.write_payload(7001);
    println!("after loan 1: held sample = {}", *sample);
    let l2 = p.loan_uninit()?.write_payload(7002);
    println!("after loan 2: held sample = {}", *sample);
    drop(l1); drop(l2);
    Ok(())
}
