// Verification hook, only compiled with `--cfg iceoryx2_verif`.
//
// Every operation on the atomic new-types of this crate reports to an optional, globally
// registered function before and after it is executed. The hook itself performs no
// synchronizing operation.

#[allow(clippy::disallowed_types)]
use core::sync::atomic::{AtomicPtr, Ordering};

#[derive(Clone, Copy, Debug, PartialEq, Eq)]
#[repr(u8)]
pub enum Phase {
    Before = 0,
    After = 1,
}

#[derive(Clone, Copy, Debug, PartialEq, Eq)]
#[repr(u8)]
pub enum OpKind {
    Load = 0,
    Store = 1,
    Swap = 2,
    CompareExchange = 3,
    FetchOp = 4,
    FetchUpdate = 5,
}

/// phase, kind, address of the atomic, `wrote` (After only: the operation modified memory)
pub type Hook = fn(Phase, OpKind, usize, bool);

#[allow(clippy::disallowed_types)]
static HOOK: AtomicPtr<()> = AtomicPtr::new(core::ptr::null_mut());

pub fn set_hook(hook: Option<Hook>) {
    let ptr = match hook {
        Some(f) => f as *mut (),
        None => core::ptr::null_mut(),
    };
    HOOK.store(ptr, Ordering::Release);
}

#[inline(always)]
pub fn call(phase: Phase, kind: OpKind, addr: usize, wrote: bool) {
    let ptr = HOOK.load(Ordering::Relaxed);
    if !ptr.is_null() {
        let f: Hook = unsafe { core::mem::transmute::<*mut (), Hook>(ptr) };
        f(phase, kind, addr, wrote);
    }
}
