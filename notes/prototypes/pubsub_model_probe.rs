// Sequential reference-model probe for publish-subscribe (C01/C02 sketch). Throw-away.
use iceoryx2::prelude::*;
use iceoryx2::port::publisher::Publisher;
use iceoryx2::port::subscriber::Subscriber;
use iceoryx2::sample::Sample;
use iceoryx2::port::ReceiveError;
use iceoryx2::port::update_connections::UpdateConnections;
use std::collections::{BTreeMap, VecDeque};

type S = local::Service;
type P = [u64; 4];
struct Rng(u64);
impl Rng { fn next(&mut self) -> u64 { self.0 = self.0.wrapping_add(0x9E3779B97F4A7C15); let mut z = self.0; z = (z ^ (z >> 30)).wrapping_mul(0xBF58476D1CE4E5B9); z = (z ^ (z >> 27)).wrapping_mul(0x94D049BB133111EB); z ^ (z >> 31) } fn below(&mut self, n: u64) -> u64 { self.next() % n } }
fn payload(id: u64) -> P { [id, id ^ 0xA5A5, id.wrapping_mul(3), !id] }
fn check_payload(p: &P) -> Option<u64> { if *p == payload(p[0]) { Some(p[0]) } else { None } }

#[derive(Debug, Clone, Copy)]
struct Cfg { buf_max: usize, hist: usize, borrow: usize, overflow: bool, max_pubs: usize, max_subs: usize }

struct PubM { uid: u64, seq: u64, history: VecDeque<u64>, connected: Vec<u64> /* sub uids */ }
struct SubM { uid: u64, buf: usize, hist_req: usize, seen_pubs: Vec<u64>, queues: BTreeMap<u64, VecDeque<u64>>, borrows: BTreeMap<u64, usize> }

struct World { cfg: Cfg, pubs: Vec<Option<(Publisher<S, P, ()>, PubM)>>, subs: Vec<Option<(Subscriber<S, P, ()>, SubM)>>, held: Vec<(usize /*sub slot*/, u64 /*sub uid*/, u64 /*pub uid*/, u64 /*id*/, Sample<S, P, ()>)>, next_uid: u64, trace: Vec<String> }

impl World {
    // publisher p refreshes its view of subscribers (on send / explicit update / creation)
    fn pub_update(&mut self, pi: usize) {
        let live: Vec<(u64, usize, usize)> = self.subs.iter().flatten().map(|(_, m)| (m.uid, m.buf, m.hist_req)).collect();
        let (_, pm) = self.pubs[pi].as_mut().unwrap();
        pm.connected.retain(|u| live.iter().any(|l| l.0 == *u));
        let newly: Vec<(u64, usize, usize)> = live.iter().filter(|l| !pm.connected.contains(&l.0)).cloned().collect();
        let puid = pm.uid; let hist: Vec<u64> = pm.history.iter().cloned().collect();
        for (suid, buf, hreq) in newly {
            pm.connected.push(suid);
            let n = hreq.min(buf).min(hist.len());
            let overflow = self.cfg.overflow;
            let sm = &mut self.subs.iter_mut().flatten().find(|(_, m)| m.uid == suid).unwrap().1;
            let q = sm.queues.entry(puid).or_default();
            for id in &hist[hist.len() - n..] { if q.len() == buf { if overflow { q.pop_front(); } else { continue; } } q.push_back(*id); }
        }
    }
    fn sub_update(&mut self, si: usize) {
        let live: Vec<u64> = self.pubs.iter().flatten().map(|(_, m)| m.uid).collect();
        let (_, sm) = self.subs[si].as_mut().unwrap();
        for u in live { if !sm.seen_pubs.contains(&u) { sm.seen_pubs.push(u); } }
    }
}

fn run(seed: u64, steps: usize, verbose: bool) -> Result<(usize, BTreeMap<&'static str, usize>), String> {
    let mut rng = Rng(seed);
    let bm = 1 + rng.below(3) as usize; let cfg = Cfg { buf_max: bm, hist: rng.below(bm as u64 + 1) as usize, borrow: 1 + rng.below(2) as usize, overflow: rng.below(2) == 0, max_pubs: 2, max_subs: 2 };
    let node = NodeBuilder::new().create::<S>().map_err(|e| format!("{e:?}"))?;
    let name = format!("ps1_{}_{}", std::process::id(), seed);
    let svc = node.service_builder(&name.as_str().try_into().unwrap()).publish_subscribe::<P>()
        .subscriber_max_buffer_size(cfg.buf_max).history_size(cfg.hist).subscriber_max_borrowed_samples(cfg.borrow)
        .enable_safe_overflow(cfg.overflow).max_publishers(cfg.max_pubs).max_subscribers(cfg.max_subs).create().map_err(|e| format!("{e:?}"))?;
    let mut w = World { cfg, pubs: (0..cfg.max_pubs).map(|_| None).collect(), subs: (0..cfg.max_subs).map(|_| None).collect(), held: vec![], next_uid: 1, trace: vec![] };
    let mut kinds: BTreeMap<&'static str, usize> = BTreeMap::new();
    macro_rules! fail { ($($a:tt)*) => { return Err(format!("seed {} cfg {:?} step {}: {}\n  trace: {:?}", seed, cfg, w.trace.len(), format!($($a)*), &w.trace[w.trace.len().saturating_sub(25)..])) } }
    for _ in 0..steps {
        match rng.below(100) {
            0..=7 => { let i = rng.below(cfg.max_pubs as u64) as usize; if w.pubs[i].is_none() {
                let p = svc.publisher_builder().backpressure_strategy(BackpressureStrategy::DiscardData).max_loaned_samples(2).create().map_err(|e| format!("{e:?}"))?;
                let uid = w.next_uid; w.next_uid += 1; w.pubs[i] = Some((p, PubM { uid, seq: 0, history: VecDeque::new(), connected: vec![] })); w.trace.push(format!("CreatePub{i}(u{uid})")); w.pub_update(i); *kinds.entry("create_pub").or_default() += 1; } }
            8..=12 => { let i = rng.below(cfg.max_pubs as u64) as usize; if let Some((p, pm)) = w.pubs[i].take() { w.trace.push(format!("DropPub{i}(u{})", pm.uid)); drop(p);
                // samples of subscribers that never looked at this publisher are lost with it
                let strict = std::env::var("STRICT").is_ok(); for (_, sm) in w.subs.iter_mut().flatten() { if !strict && !sm.seen_pubs.contains(&pm.uid) { if let Some(q) = sm.queues.get_mut(&pm.uid) { if !q.is_empty() { *kinds.entry("lost_unseen_publisher").or_default() += 1; } q.clear(); } } }
                *kinds.entry("drop_pub").or_default() += 1; } }
            13..=22 => { let j = rng.below(cfg.max_subs as u64) as usize; if w.subs[j].is_none() {
                let buf = 1 + rng.below(cfg.buf_max as u64) as usize; let hreq = rng.below((cfg.hist.min(buf) + 1) as u64) as usize;
                let s = svc.subscriber_builder().buffer_size(buf).history_request(hreq).create().map_err(|e| format!("{e:?}"))?;
                let uid = w.next_uid; w.next_uid += 1; w.subs[j] = Some((s, SubM { uid, buf, hist_req: hreq, seen_pubs: vec![], queues: BTreeMap::new(), borrows: BTreeMap::new() })); w.trace.push(format!("CreateSub{j}(u{uid},buf{buf},h{hreq})")); w.sub_update(j); *kinds.entry("create_sub").or_default() += 1; } }
            23..=27 => { let j = rng.below(cfg.max_subs as u64) as usize; if w.subs[j].is_some() { let uid = w.subs[j].as_ref().unwrap().1.uid;
                // held samples of this subscriber stay valid; drop them first in half of the cases
                let keep = std::env::var("KEEP_HELD").is_ok() && rng.below(2) == 0; if !keep { w.held.retain(|h| h.1 != uid); }
                let (s, _) = w.subs[j].take().unwrap(); drop(s); w.trace.push(format!("DropSub{j}(u{uid})")); *kinds.entry("drop_sub").or_default() += 1; } }
            28..=62 => { let i = rng.below(cfg.max_pubs as u64) as usize; if w.pubs[i].is_some() {
                w.pub_update(i);
                let (puid, id) = { let pm = &mut w.pubs[i].as_mut().unwrap().1; pm.seq += 1; (pm.uid, (pm.uid << 32) | pm.seq) };
                // model delivery
                let mut expect = 0usize; let mut evicted = false;
                { let pm = &mut w.pubs[i].as_mut().unwrap().1; if cfg.hist > 0 { if pm.history.len() == cfg.hist { pm.history.pop_front(); } pm.history.push_back(id); } }
                let connected = w.pubs[i].as_ref().unwrap().1.connected.clone();
                for (_, sm) in w.subs.iter_mut().flatten() { if connected.contains(&sm.uid) { let q = sm.queues.entry(puid).or_default(); if q.len() == sm.buf { if cfg.overflow { q.pop_front(); evicted = true; } else { continue; } } q.push_back(id); expect += 1; } }
                let got = w.pubs[i].as_ref().unwrap().0.send_copy(payload(id)).map_err(|e| format!("send: {e:?}"))?;
                w.trace.push(format!("Send{i}(#{})->{}", id & 0xffff, got));
                if got != expect { fail!("send returned {} recipients, model {}", got, expect); }
                *kinds.entry("send").or_default() += 1; if evicted { *kinds.entry("overflow_eviction").or_default() += 1; } if expect < connected.len() { *kinds.entry("discard_full").or_default() += 1; } } }
            63..=90 => { let j = rng.below(cfg.max_subs as u64) as usize; if w.subs[j].is_some() {
                w.sub_update(j);
                let r = w.subs[j].as_ref().unwrap().0.receive();
                let sm = &mut w.subs[j].as_mut().unwrap().1;
                let with_data: Vec<u64> = sm.queues.iter().filter(|(_, q)| !q.is_empty()).map(|(p, _)| *p).collect();
                let receivable: Vec<u64> = with_data.iter().filter(|p| *sm.borrows.get(p).unwrap_or(&0) < cfg.borrow).cloned().collect();
                match r {
                    Ok(Some(sample)) => { let id = match check_payload(sample.payload()) { Some(v) => v, None => fail!("corrupted payload {:?}", sample.payload()) }; let puid = id >> 32;
                        w.trace.push(format!("Recv{j}->#{}of u{}", id & 0xffff, puid));
                        if !receivable.contains(&puid) { fail!("received from u{} but model receivable set is {:?} (with data {:?})", puid, receivable, with_data); }
                        let head = sm.queues.get_mut(&puid).unwrap().pop_front().unwrap();
                        if head != id { fail!("received #{} but model head for that pair is #{}", id & 0xffff, head & 0xffff); }
                        *sm.borrows.entry(puid).or_default() += 1; let suid = sm.uid; w.held.push((j, suid, puid, id, sample)); *kinds.entry("recv").or_default() += 1; }
                    Ok(None) => { w.trace.push(format!("Recv{j}->None")); if !with_data.is_empty() { fail!("receive returned None but model has data from {:?} (receivable {:?})", with_data, receivable); } }
                    Err(ReceiveError::ExceedsMaxBorrows) => { w.trace.push(format!("Recv{j}->ExceedsMaxBorrows")); if !receivable.is_empty() || with_data.is_empty() { fail!("ExceedsMaxBorrows but model receivable {:?} with_data {:?}", receivable, with_data); } *kinds.entry("exceeds_max_borrows").or_default() += 1; }
                    Err(e) => fail!("receive error {:?}", e),
                } } }
            91..=97 => { if !w.held.is_empty() { let k = rng.below(w.held.len() as u64) as usize; let (j, suid, puid, id, sample) = w.held.remove(k);
                if check_payload(sample.payload()) != Some(id) { fail!("held sample #{} changed: {:?}", id & 0xffff, sample.payload()); }
                drop(sample); w.trace.push(format!("Release(sub u{suid} #{})", id & 0xffff));
                if let Some((_, sm)) = w.subs[j].as_mut() { if sm.uid == suid { if let Some(b) = sm.borrows.get_mut(&puid) { *b -= 1; } } } } }
            _ => { let i = rng.below(cfg.max_pubs as u64) as usize; if w.pubs[i].is_some() { w.pubs[i].as_ref().unwrap().0.update_connections().map_err(|e| format!("{e:?}"))?; w.trace.push(format!("Update{i}")); w.pub_update(i); } }
        }
        // canary: every held sample is unchanged
        for (_, _, _, id, s) in &w.held { if check_payload(s.payload()) != Some(*id) { fail!("held sample #{} changed after step: {:?}", id & 0xffff, s.payload()); } }
    }
    if verbose { println!("{:?}", w.trace); }
    Ok((w.trace.len(), kinds))
}

fn main() {
    let a: Vec<String> = std::env::args().collect();
    let (from, to, steps): (u64, u64, usize) = (a[1].parse().unwrap(), a[2].parse().unwrap(), a[3].parse().unwrap());
    let mut total: BTreeMap<&'static str, usize> = BTreeMap::new(); let (mut ok, mut bad) = (0, 0);
    for seed in from..=to { match run(seed, steps, false) { Ok((_, k)) => { ok += 1; for (n, c) in k { *total.entry(n).or_default() += c; } } Err(e) => { bad += 1; if bad <= 4 { println!("MISMATCH {}", e); } } } }
    println!("histories ok={} mismatching={} events={:?}", ok, bad, total);
}
