// C07 sketch, observer-side stepping: the OBSERVER is held at each of its syscalls inside Node::list
// while the (live) owner performs its complete orderly node drop; then the observer continues.
use iceoryx2::prelude::*;
use iceoryx2::node::NodeState;
use iceoryx2_bb_container::semantic_string::SemanticString;
use iceoryx2_bb_system_types::file_name::FileName;
use iceoryx2_bb_system_types::path::Path;
use std::os::unix::process::CommandExt;
use std::process::{Command, Stdio};
use std::io::Read;

fn config(root: &str, prefix: &str) -> Config { let mut c = Config::default(); c.global.set_root_path(&Path::new(root.as_bytes()).unwrap()); c.global.prefix = FileName::new(prefix.as_bytes()).unwrap(); c.global.node.cleanup_dead_nodes_on_creation = false; c.global.node.cleanup_dead_nodes_on_destruction = false; c }
fn owner(root: &str, prefix: &str, flag: &str) { let cfg = config(root, prefix); let node = NodeBuilder::new().config(&cfg).create::<ipc::Service>().unwrap(); std::fs::write(format!("{flag}.ready"), b"x").unwrap(); while !std::path::Path::new(&format!("{flag}.go")).exists() { std::thread::sleep(std::time::Duration::from_micros(200)); } drop(node); std::fs::write(format!("{flag}.done"), b"x").unwrap(); std::thread::sleep(std::time::Duration::from_secs(2)); /* stays alive */ }
fn observer(root: &str, prefix: &str) { let cfg = config(root, prefix); unsafe { libc::getppid(); } let mut v = vec![]; let r = Node::<ipc::Service>::list(&cfg, |st| { v.push(match st { NodeState::Alive(_) => "Alive", NodeState::Dead(_) => "DEAD", NodeState::Inaccessible(_) => "Inaccessible", NodeState::Undefined(_) => "Undefined" }); CallbackProgression::Continue }); unsafe { libc::getppid(); } println!("{}", if r.is_err() { format!("ListErr({:?})", r.err()) } else if v.is_empty() { "absent".to_string() } else { v.join(",") }); }
fn sysname(nr: i64) -> &'static str { match nr { 0 => "read", 1 => "write", 3 => "close", 9 => "mmap", 11 => "munmap", 72 => "fcntl", 257 => "openat", 262 => "newfstatat", 217 => "getdents64", 8 => "lseek", 17 => "pread64", 21 => "access", _ => "other" } }

fn trial(exe: &std::path::Path, base: &str, k: usize) -> (String, &'static str, usize) {
    let root = format!("{base}/t{k}"); let prefix = format!("ob{}_{}_", std::process::id(), k); std::fs::create_dir_all(&root).unwrap(); let flag = format!("{root}/flag");
    let mut own = Command::new(exe).arg("owner").arg(&root).arg(&prefix).arg(&flag).env("IOX2_LOG_LEVEL", "FATAL").stderr(Stdio::null()).spawn().unwrap();
    while !std::path::Path::new(&format!("{flag}.ready")).exists() { std::thread::sleep(std::time::Duration::from_micros(200)); }
    let mut cmd = Command::new(exe); cmd.arg("observer").arg(&root).arg(&prefix).env("IOX2_LOG_LEVEL", "FATAL").stderr(Stdio::null()).stdout(Stdio::piped());
    unsafe { cmd.pre_exec(|| { libc::ptrace(libc::PTRACE_TRACEME, 0, 0, 0); Ok(()) }); }
    let mut ch = cmd.spawn().unwrap(); let pid = ch.id() as i32; let mut status = 0i32;
    unsafe { libc::waitpid(pid, &mut status, 0); libc::ptrace(libc::PTRACE_SETOPTIONS, pid, 0, libc::PTRACE_O_TRACESYSGOOD | libc::PTRACE_O_EXITKILL); }
    let (mut entry, mut started, mut count, mut held_at) = (true, false, 0usize, "none");
    loop { unsafe { libc::ptrace(libc::PTRACE_SYSCALL, pid, 0, 0); libc::waitpid(pid, &mut status, 0); }
        if libc::WIFEXITED(status) || libc::WIFSIGNALED(status) { break; }
        if libc::WIFSTOPPED(status) && libc::WSTOPSIG(status) == (libc::SIGTRAP | 0x80) { if entry { let mut regs: libc::user_regs_struct = unsafe { std::mem::zeroed() }; unsafe { libc::ptrace(libc::PTRACE_GETREGS, pid, 0, &mut regs as *mut _); } let nr = regs.orig_rax as i64;
            if nr == libc::SYS_getppid { started = !started; } else if started { count += 1; if count == k { held_at = sysname(nr); std::fs::write(format!("{flag}.go"), b"x").unwrap(); while !std::path::Path::new(&format!("{flag}.done")).exists() { std::thread::sleep(std::time::Duration::from_micros(200)); } } } }
            entry = !entry; } }
    let mut out = String::new(); ch.stdout.take().unwrap().read_to_string(&mut out).unwrap(); let _ = ch.wait();
    let owner_alive = own.try_wait().unwrap().is_none();
    let _ = own.kill(); let _ = own.wait(); let _ = std::fs::remove_dir_all(&root);
    if let Ok(rd) = std::fs::read_dir("/dev/shm") { for e in rd.flatten() { if e.file_name().to_string_lossy().starts_with(&prefix) { let _ = std::fs::remove_file(e.path()); } } }
    (format!("{}{}", out.trim(), if owner_alive { "" } else { " (owner exited!)" }), held_at, count)
}
fn main() {
    let args: Vec<String> = std::env::args().collect();
    match args[1].as_str() { "owner" => return owner(&args[2], &args[3], &args[4]), "observer" => return observer(&args[2], &args[3]), _ => {} }
    let exe = std::env::current_exe().unwrap(); let base = args[2].clone();
    let (_, _, total) = trial(&exe, &base, 100000);
    println!("observer Node::list performs {} syscalls", total);
    let mut dead = vec![];
    for k in 1..=total { let (verdict, at, _) = trial(&exe, &base, k); println!("observer held before its syscall {k:3} ({at:10}) while the live owner drops its node -> {verdict}"); if verdict.contains("DEAD") { dead.push(k); } }
    println!("DEAD verdict for a live process at observer hold points: {:?}", dead);
}
