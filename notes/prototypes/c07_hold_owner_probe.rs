// C07 sketch: hold the monitored process at every syscall stop of node create + drop and ask, from
// another process (this one), what Node::list says about it. Throw-away.
use iceoryx2::prelude::*;
use iceoryx2::node::NodeState;
use iceoryx2_bb_container::semantic_string::SemanticString;
use iceoryx2_bb_system_types::file_name::FileName;
use iceoryx2_bb_system_types::path::Path;
use std::os::unix::process::CommandExt;
use std::process::Command;

fn config(root: &str, prefix: &str) -> Config { let mut c = Config::default(); c.global.set_root_path(&Path::new(root.as_bytes()).unwrap()); c.global.prefix = FileName::new(prefix.as_bytes()).unwrap(); c.global.node.cleanup_dead_nodes_on_creation = false; c.global.node.cleanup_dead_nodes_on_destruction = false; c }
fn child(root: &str, prefix: &str) { let cfg = config(root, prefix); unsafe { libc::getppid(); } let node = NodeBuilder::new().config(&cfg).create::<ipc::Service>().unwrap(); unsafe { libc::getppid(); } drop(node); unsafe { libc::getppid(); } }
fn sysname(nr: i64) -> &'static str { match nr { 0 => "read", 1 => "write", 3 => "close", 9 => "mmap", 11 => "munmap", 72 => "fcntl", 74 => "fsync", 77 => "ftruncate", 83 => "mkdir", 84 => "rmdir", 87 => "unlink", 90 => "chmod", 91 => "fchmod", 257 => "openat", 262 => "newfstatat", 217 => "getdents64", 8 => "lseek", 17 => "pread64", 39 => "getpid", 186 => "gettid", 21 => "access", 73 => "flock", _ => "other" } }
fn observe(cfg: &Config) -> String { let mut v = vec![]; let r = Node::<ipc::Service>::list(cfg, |st| { v.push(match st { NodeState::Alive(_) => "Alive", NodeState::Dead(_) => "DEAD", NodeState::Inaccessible(_) => "Inaccessible", NodeState::Undefined(_) => "Undefined" }); CallbackProgression::Continue }); if r.is_err() { format!("ListErr({:?})", r.err()) } else if v.is_empty() { "absent".into() } else { v.join(",") } }
fn main() {
    let args: Vec<String> = std::env::args().collect();
    if args[1] == "child" { child(&args[2], &args[3]); return; }
    let root = args[2].clone(); let prefix = format!("hd{}_", std::process::id()); std::fs::create_dir_all(&root).unwrap();
    let cfg = config(&root, &prefix);
    let exe = std::env::current_exe().unwrap();
    let mut cmd = Command::new(exe); cmd.arg("child").arg(&root).arg(&prefix).env("IOX2_LOG_LEVEL", "FATAL").stderr(std::process::Stdio::null());
    unsafe { cmd.pre_exec(|| { libc::ptrace(libc::PTRACE_TRACEME, 0, 0, 0); Ok(()) }); }
    let ch = cmd.spawn().unwrap(); let pid = ch.id() as i32; let mut status = 0i32;
    unsafe { libc::waitpid(pid, &mut status, 0); libc::ptrace(libc::PTRACE_SETOPTIONS, pid, 0, libc::PTRACE_O_TRACESYSGOOD | libc::PTRACE_O_EXITKILL); }
    let (mut entry, mut phase, mut k) = (true, 0, 0usize);
    let mut rows: Vec<(usize, usize, &'static str, String)> = vec![];
    loop {
        unsafe { libc::ptrace(libc::PTRACE_SYSCALL, pid, 0, 0); libc::waitpid(pid, &mut status, 0); }
        if libc::WIFEXITED(status) || libc::WIFSIGNALED(status) { break; }
        if libc::WIFSTOPPED(status) && libc::WSTOPSIG(status) == (libc::SIGTRAP | 0x80) {
            if entry { let mut regs: libc::user_regs_struct = unsafe { std::mem::zeroed() }; unsafe { libc::ptrace(libc::PTRACE_GETREGS, pid, 0, &mut regs as *mut _); } let nr = regs.orig_rax as i64;
                if nr == libc::SYS_getppid { phase += 1; } else if phase == 1 || phase == 2 { k += 1; let seen = observe(&cfg); rows.push((phase, k, sysname(nr), seen)); } }
            entry = !entry;
        }
    }
    let mut last = String::new();
    for (phase, k, name, seen) in &rows { let tag = if *phase == 1 { "create" } else { "drop" }; let line = format!("{tag} k={k:3} before {name:10} -> {seen}"); if *seen != last { println!("{}", line); last = seen.clone(); } }
    let dead: Vec<_> = rows.iter().filter(|r| r.3.contains("DEAD")).collect();
    println!("stops={} verdict DEAD on a live (held) process at {} stops: {:?}", rows.len(), dead.len(), dead.iter().map(|r| format!("{}:{}:{}", if r.0 == 1 { "create" } else { "drop" }, r.1, r.2)).collect::<Vec<_>>());
}
