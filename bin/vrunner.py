"""Runner engine: builds flavours from /repo's working tree, runs worker processes in parallel
under watchdogs, classifies sanitizer output, matches known findings, writes evidence + replays.

Verdicts are three valued: violation (exit 1 + VIOLATION line), held on what was observed (exit 0),
inconclusive executions are counted separately and never folded into either."""
import json, os, re, subprocess, sys, time, hashlib, shutil, signal
from concurrent.futures import ThreadPoolExecutor

VERIF = os.path.dirname(os.path.dirname(os.path.abspath(__file__)))
HARNESS = os.path.join(VERIF, "harness")
BUILD = os.path.join(VERIF, ".build")
RUN = os.path.join(VERIF, ".run")
REPO = "/repo"
NCPU = os.cpu_count() or 8
TARGET = "x86_64-unknown-linux-gnu"
CFG = "--cfg iceoryx2_verif"

FLAVOURS = {
    # name: (toolchain, rustflags, extra cargo args, profile dir, uses --target)
    "dbg": (None, CFG, [], "debug", False),
    "rel": (None, CFG, ["--release"], "release", False),
    "tsan": ("nightly", "-Zsanitizer=thread " + CFG, ["-Zbuild-std", "--target", TARGET, "--release"], "release", True),
    "asan": ("nightly", "-Zsanitizer=address -Cforce-frame-pointers=yes " + CFG, ["--target", TARGET], "debug", True),
    # plain builds without the hook cfg (guard off): used to show workloads do not depend on the hook
    "nohook": (None, "", [], "debug", False),
}

MIRI_BASE_FLAGS = "-Zmiri-disable-stacked-borrows -Zmiri-disable-isolation"


def base_env():
    e = dict(os.environ)
    e["CARGO_NET_OFFLINE"] = "true"
    e.pop("RUSTFLAGS", None)
    e["IOX2_LOG_LEVEL"] = e.get("IOX2_LOG_LEVEL", "fatal")
    return e


def sync_lock():
    """the harness workspace resolves against /repo's lock file (offline: versions must match)"""
    src, dst = os.path.join(REPO, "Cargo.lock"), os.path.join(HARNESS, "Cargo.lock")
    # keep the harness lock file: it was derived from the repo's and extended by the harness crates
    if not os.path.exists(dst):
        shutil.copy(src, dst)


def cargo_cmd(flavour, pkg):
    tc, rustflags, extra, _, _ = FLAVOURS[flavour]
    cmd = ["cargo"] + (["+" + tc] if tc else []) + ["build", "-p", pkg, "--offline"] + extra
    env = base_env()
    env["RUSTFLAGS"] = rustflags
    env["CARGO_TARGET_DIR"] = os.path.join(BUILD, flavour)
    return cmd, env


def bin_path(flavour, pkg):
    _, _, _, prof, tgt = FLAVOURS[flavour]
    d = os.path.join(BUILD, flavour)
    if tgt:
        d = os.path.join(d, TARGET)
    return os.path.join(d, prof, pkg)


def build(flavour, pkg, log):
    """build one (flavour, package); one retry (rustc occasionally dies with SIGABRT under load)"""
    if flavour == "miri":
        return True
    sync_lock()
    cmd, env = cargo_cmd(flavour, pkg)
    for attempt in (1, 2):
        t0 = time.time()
        p = subprocess.run(cmd, cwd=HARNESS, env=env, stdout=subprocess.PIPE, stderr=subprocess.STDOUT, text=True)
        log.write("== build %s %s attempt %d: exit %d in %.1fs\n" % (flavour, pkg, attempt, p.returncode, time.time() - t0))
        if p.returncode == 0:
            return True
        log.write(p.stdout[-6000:] + "\n")
    return False


class Job:
    """one worker process"""

    def __init__(self, flavour, pkg, args, timeout=120, engine=None, miri_flags="", env=None, tag=None, wrapper=None):
        self.flavour, self.pkg, self.args, self.timeout = flavour, pkg, args, timeout
        self.engine = engine or flavour
        self.miri_flags = miri_flags
        self.env = env or {}
        self.tag = tag or ("%s:%s" % (flavour, args.split()[0] if args else pkg))
        self.wrapper = wrapper  # e.g. ["valgrind", ...]

    def command(self):
        if self.flavour == "miri":
            return ["cargo", "+nightly", "miri", "run", "--offline", "-q", "-p", self.pkg, "--"] + self.args.split()
        cmd = [bin_path(self.flavour, self.pkg)] + self.args.split()
        if self.wrapper:
            cmd = list(self.wrapper) + cmd
        return cmd

    def describe(self):
        d = {"flavour": self.flavour, "pkg": self.pkg, "args": self.args}
        if self.miri_flags:
            d["miri_flags"] = self.miri_flags
        if self.env:
            d["env"] = self.env
        if self.wrapper:
            d["wrapper"] = self.wrapper
        return d


def job_from_desc(d, timeout=300):
    return Job(d["flavour"], d["pkg"], d["args"], timeout=timeout, miri_flags=d.get("miri_flags", ""), env=d.get("env"), wrapper=d.get("wrapper"))


_TSAN_HEAD = re.compile(r"WARNING: ThreadSanitizer: ([^\(]+)\(pid=\d+\)")
_FRAME = re.compile(r"^\s+#\d+ (.+?) (\S+?):(\d+)(?::\d+)? \(")
_FRAME2 = re.compile(r"^\s+#\d+ (\S.*?) \S+ \(")


def _frames(block):
    out = []
    for line in block:
        m = _FRAME.match(line)
        if m:
            out.append((m.group(1), m.group(2)))
        else:
            m = _FRAME2.match(line)
            if m:
                out.append((m.group(1), ""))
    return out


def _clean_fn(fn):
    """`<a::b::Type<X>>::method::{closure#0}::h123` -> `b::Type::method`"""
    fn = re.sub(r"\s*\(\.llvm\.\d+\)", "", fn)  # thin-LTO promoted local symbols carry this suffix
    fn = re.sub(r"\.llvm\.\d+", "", fn)
    fn = re.sub(r"::h[0-9a-f]{16}$", "", fn)
    fn = re.sub(r"::\{closure#\d+\}|::\{\{closure\}\}|::\{shim[^}]*\}", "", fn)
    for _ in range(6):
        fn = re.sub(r"(?<=[\w>])<[^<>]*>", "", fn)
    m = re.match(r"^<([^<>]*)>(.*)$", fn)
    if m:
        fn = m.group(1).split(" as ")[0] + m.group(2)
    fn = fn.replace("details::", "")
    parts = [x for x in fn.split("::") if x]
    return "::".join(parts[-3:])


def first_repo_frame(frames):
    for fn, path in frames:
        # harness frames mention iceoryx2 in their generic arguments (w_ports::bb::execute::<iceoryx2::...>): not repo frames
        if "/verif/harness/" in path or re.match(r"^<?(w_\w+|vkit)::", fn):
            continue
        if "iceoryx2" in fn or "/repo/" in path:
            if "verif" in fn:
                continue
            return _clean_fn(fn)
    return None


def first_harness_frame(frames):
    for fn, path in frames:
        if "/verif/harness/" in path or re.match(r"^(w_\w+|vkit)::", fn):
            return _clean_fn(fn)
    return None


def parse_tsan(text):
    """-> list of dicts {kind, a, b, harness} de-duplicated by (kind, top in-repo frame of each access)"""
    reports, cur = [], None
    for line in text.splitlines():
        if _TSAN_HEAD.search(line):
            cur = {"kind": _TSAN_HEAD.search(line).group(1).strip(), "sections": [], "raw": [line]}
            reports.append(cur)
            continue
        if cur is None:
            continue
        cur["raw"].append(line)
        if line.startswith("SUMMARY: ThreadSanitizer"):
            cur = None
            continue
        s = line.strip()
        if s and not s.startswith("#") and s.endswith(":"):
            cur["sections"].append([s])
        elif cur["sections"] and s.startswith("#"):
            cur["sections"][-1].append(line)
    out = {}
    for r in reports:
        acc = [sec for sec in r["sections"] if re.match(r"^(Previous )?(atomic )?(Write|Read|write|read)", sec[0])]
        tops, harness, writes = [], [], []
        for sec in acc[:2]:
            fr = _frames(sec[1:])
            tops.append(first_repo_frame(fr) or "?")
            harness.append(first_harness_frame(fr) or "?")
            writes.append(bool(re.match(r"^(previous )?(atomic )?write", sec[0].strip().lower())))
        while len(tops) < 2:
            tops.append("?")
            harness.append("?")
            writes.append(True)
        key = (r["kind"],) + tuple(sorted(tops))
        if key not in out:
            out[key] = {"kind": r["kind"], "a": tops[0], "b": tops[1], "harness": harness, "writes": writes, "heads": [s[0] for s in acc[:2]], "count": 0, "raw": "\n".join(r["raw"][:60])}
        out[key]["count"] += 1
    return list(out.values())


_MIRI_ERR = re.compile(r"^error: (Undefined Behavior: )?(.*)$")


def parse_miri(stderr):
    """-> None or dict {what, fn} for the first Miri error"""
    lines = stderr.splitlines()
    for i, line in enumerate(lines):
        m = _MIRI_ERR.match(line)
        if m and ("Undefined Behavior" in line or "memory leaked" in line or "deadlock" in line or "unsupported operation" in line or "the evaluated program" in line):
            what = m.group(2)
            what = re.sub(r"alloc\d+", "alloc", what)
            what = re.sub(r"0x[0-9a-f]+", "0x", what)
            what = re.sub(r"thread `[^`]*`", "thread", what)
            fn = None
            for l2 in lines[i : i + 80]:
                m2 = re.search(r"inside `([^`]+)` at (\S+)", l2)
                if m2 and ("/repo/" in m2.group(2)):
                    fn = _clean_fn(m2.group(1))
                    break
            sites = []
            for l2 in lines[i : i + 80]:
                m3 = re.search(r"--> (/repo/\S+?):\d+", l2)
                if m3:
                    sites.append(m3.group(1).replace("/repo/", ""))
            return {"what": what.strip(), "fn": fn, "sites": sites[:3], "raw": "\n".join(lines[i : i + 40])}
    return None


def run_job(job, idx, workdir):
    env = base_env()
    env.update(job.env)
    logp = None
    if job.flavour == "tsan":
        logp = os.path.join(workdir, "tsan.%d" % idx)
        env["TSAN_OPTIONS"] = "halt_on_error=0 report_signal_unsafe=0 history_size=4 second_deadlock_stack=1 exitcode=0 log_path=%s" % logp
    if job.flavour == "asan":
        logp = os.path.join(workdir, "asan.%d" % idx)
        env["ASAN_OPTIONS"] = env.get("ASAN_OPTIONS", "detect_leaks=1:abort_on_error=0:halt_on_error=1:exitcode=97:log_path=%s" % logp)
    if job.flavour == "miri":
        env["MIRIFLAGS"] = (MIRI_BASE_FLAGS + " " + job.miri_flags).strip()
        env["CARGO_TARGET_DIR"] = os.path.join(BUILD, "miri")
    t0 = time.time()
    res = {"job": job, "idx": idx, "status": "ok", "result": None, "sanitizer": [], "stderr": "", "stdout": ""}
    try:
        p = subprocess.Popen(job.command(), cwd=HARNESS if job.flavour == "miri" else workdir, env=env, stdout=subprocess.PIPE, stderr=subprocess.PIPE, text=True, start_new_session=True)
        try:
            out, err = p.communicate(timeout=job.timeout)
        except subprocess.TimeoutExpired:
            try:
                os.killpg(p.pid, signal.SIGKILL)
            except Exception:
                pass
            out, err = p.communicate()
            res["status"] = "timeout"
        res["rc"] = p.returncode
    except Exception as e:  # harness error
        res["status"] = "error"
        out, err = "", str(e)
        res["rc"] = -1
    res["wall"] = time.time() - t0
    res["stdout"], res["stderr"] = out[-20000:], err[-20000:]
    for line in out.splitlines():
        if line.startswith("RESULT "):
            try:
                res["result"] = json.loads(line[7:])
            except Exception:
                pass
    if job.flavour == "tsan" and logp:
        txt = ""
        for f in os.listdir(workdir):
            if f.startswith(os.path.basename(logp) + "."):
                txt += open(os.path.join(workdir, f), errors="replace").read()
        txt += err
        res["sanitizer"] = parse_tsan(txt)
    if job.flavour == "asan" and logp:
        txt = err
        for f in os.listdir(workdir):
            if f.startswith(os.path.basename(logp) + "."):
                txt += open(os.path.join(workdir, f), errors="replace").read()
        m = re.search(r"ERROR: (AddressSanitizer|LeakSanitizer): ([^\n]*)", txt)
        if m:
            blk = txt[m.start() : m.start() + 6000].splitlines()
            fr = _frames(blk)
            what = re.sub(r"0x[0-9a-f]+", "0x", m.group(2))
            what = re.sub(r"\d+ byte\(s\)", "N byte(s)", what)
            what = what.split(" on address")[0].split(" in ")[0].strip()
            res["sanitizer"] = [{"kind": m.group(1) + ": " + what, "a": first_repo_frame(fr) or "?", "harness": [first_harness_frame(fr) or "?"], "raw": "\n".join(blk[:50])}]
    if job.flavour == "miri":
        me = parse_miri(err)
        if me:
            res["sanitizer"] = [me]
    if res["status"] == "ok" and res["result"] is None and not res["sanitizer"]:
        res["status"] = "crash" if res.get("rc", 0) != 0 else "noresult"
    return res


def load_known():
    p = os.path.join(VERIF, "known_findings.json")
    if not os.path.exists(p):
        return []
    return json.load(open(p)).get("findings", [])


def sig_matches(pattern, sig):
    """exact match, or shell-style pattern with * and ? when the entry uses wildcards ([ is literal)"""
    if "*" in pattern or "?" in pattern:
        import fnmatch
        return fnmatch.fnmatchcase(sig, pattern.replace("[", "[[]"))
    return pattern == sig


class Outcome:
    def __init__(self):
        self.execs = 0
        self.nontrivial = 0
        self.inconclusive = 0
        self.counters = {}
        self.distinct = set()
        self.interleavings = set()
        self.samples = []
        self.violations = []  # dicts: sig, rule, msg, witness, job
        self.notes = []
        self.inconclusive_reasons = {}
        self.sanitizer = {}
        self.jobs_run = 0

    def inconc(self, reason, n=1):
        self.inconclusive += n
        self.inconclusive_reasons[reason] = self.inconclusive_reasons.get(reason, 0) + n

    def add_result(self, r, tag):
        self.execs += r.get("execs", 0)
        self.nontrivial += r.get("nontrivial", 0)
        if r.get("inconclusive", 0):
            self.inconc("worker_reported", r["inconclusive"])
        for k, v in r.get("counters", {}).items():
            if k.startswith("max_"):
                self.counters[k] = max(self.counters.get(k, 0), v)
            else:
                self.counters[k] = self.counters.get(k, 0) + v
        self.distinct.update(r.get("distinct", []))
        self.interleavings.update(r.get("interleavings", []))
        for s in r.get("samples", []):
            if len(self.samples) < 6:
                self.samples.append(s)
        self.notes.extend(r.get("notes", [])[:5])


def load_benign():
    p = os.path.join(VERIF, "bin", "benign_races.json")
    return json.load(open(p))["pairs"] if os.path.exists(p) else []


def classify_report(job, rep, benign, miri_full):
    """-> (class, signature, message); class in violation | benign | inconclusive"""
    if job.flavour == "tsan":
        if not rep["kind"].startswith("data race"):
            return ("violation", "tsan:%s:%s" % (rep["kind"].replace(" ", "_"), rep["a"]), rep["kind"])
        a, b = rep["a"], rep["b"]
        w = rep.get("writes", [True, True])
        if a == "?" or b == "?":
            other = b if a == "?" else a
            h = [x for x in rep["harness"] if x != "?"]
            if h:
                # loan-style API: the user writes the cell through a pointer handed out by the
                # structure; the optimistic reader copy racing with that write is the documented one
                if w.count(False) == 1:
                    rd, user_writes = (a, b == "?") if not w[0] else (b, a == "?")
                    for pair in benign:
                        if pair.get("user_write_ok") and user_writes and re.search(pair["read"], rd):
                            return ("benign", pair["name"], "")
                return ("violation", "tsan:user_memory_race:%s" % other, "data race on memory the harness reads/writes as API user (%s) vs %s" % (h[0], other))
        w = rep.get("writes", [True, True])
        if w.count(False) == 1:  # exactly one read: write/write pairs are never benign
            rd, wr = (a, b) if not w[0] else (b, a)
            for pair in benign:
                if re.search(pair["read"], rd) and re.search(pair["write"], wr):
                    return ("benign", pair["name"], "")
        return ("violation", "tsan:race:%s|%s" % tuple(sorted([a, b])), "unsynchronised access pair %s / %s" % (a, b))
    if job.flavour == "miri":
        what = rep["what"]
        fn = rep.get("fn") or (rep.get("sites") or ["?"])[0]
        if "Data race" in what or "data race" in what:
            if miri_full:
                return ("violation", "miri:data_race:%s" % fn, what)
            sites = " ".join(rep.get("sites", [])) + " " + (rep.get("fn") or "")
            for pair in benign:
                if re.search(pair["read"], sites) or re.search(pair.get("file", "$^"), sites):
                    return ("inconclusive", "miri_benign_race:" + pair["name"], what)
            return ("violation", "miri:data_race:%s" % fn, what)
        if "unsupported operation" in what:
            return ("inconclusive", "miri_unsupported", what)
        short = what.split(":")[0][:80]
        return ("violation", "miri:%s:%s" % (short.replace(" ", "_"), fn), what)
    if job.flavour == "asan":
        return ("violation", "asan:%s:%s" % (rep["kind"].replace(" ", "_"), rep["a"]), rep["kind"])
    return ("inconclusive", "unknown_report", "")


def write_evidence(prop, tier, seed, level, coverage, assumptions, wall, nviol):
    os.makedirs(os.path.join(VERIF, "evidence"), exist_ok=True)
    ev = {"property_id": prop, "tier": tier, "seed": seed, "level": level, "coverage": coverage, "assumptions": assumptions, "wall_s": round(wall, 1), "violations": nviol}
    tmp = os.path.join(VERIF, "evidence", prop + ".json.tmp")
    json.dump(ev, open(tmp, "w"), indent=1, sort_keys=True)
    os.replace(tmp, os.path.join(VERIF, "evidence", prop + ".json"))


def run_check(prop, spec, tier, seed, replay=None):
    t0 = time.time()
    workdir = os.path.join(RUN, "%s_%d" % (prop, os.getpid()))
    shutil.rmtree(workdir, ignore_errors=True)
    os.makedirs(workdir, exist_ok=True)
    os.makedirs(os.path.join(VERIF, "replays", prop), exist_ok=True)
    log = open(os.path.join(workdir, "runner.log"), "w")
    if replay:
        rp = json.load(open(replay))
        jobs = [job_from_desc(rp["job"])] * int(rp.get("repeat", 1))
    else:
        jobs = spec["jobs"](tier, seed)
    # ---- build ----
    need = sorted(set((j.flavour, j.pkg) for j in jobs if j.flavour != "miri"))
    for fl, pkg in need:
        if not build(fl, pkg, log):
            log.flush()
            print("BROKEN: build of %s/%s failed, see %s" % (fl, pkg, log.name))
            sys.stdout.write(open(log.name).read()[-4000:])
            return 2
    # miri builds on first use; serialise the first miri job so the others reuse its artefacts
    miri_jobs = [j for j in jobs if j.flavour == "miri"]
    out = Outcome()
    benign = load_benign()
    results = []
    ordered = [j for j in jobs if j.flavour != "miri"]
    with ThreadPoolExecutor(max_workers=NCPU) as ex:
        futs = []
        if miri_jobs:
            first = run_job(miri_jobs[0], 10_000, workdir)
            if first["status"] in ("crash", "noresult") and "could not compile" in first["stderr"]:
                first = run_job(miri_jobs[0], 10_000, workdir)
            results.append(first)
            ordered = ordered + miri_jobs[1:]
        for i, j in enumerate(ordered):
            futs.append(ex.submit(run_job, j, i, workdir))
        for f in futs:
            results.append(f.result())
    known = load_known()
    viol_by_sig = {}
    for r in results:
        job = r["job"]
        out.jobs_run += 1
        out.counters["jobs_" + job.engine] = out.counters.get("jobs_" + job.engine, 0) + 1
        if r["result"]:
            out.add_result(r["result"], job.tag)
            for v in r["result"].get("violations", []):
                v = dict(v)
                v["job"] = job.describe()
                viol_by_sig.setdefault(v["sig"], []).append(v)
        for rep in r["sanitizer"]:
            cls, sig, msg = classify_report(job, rep, benign, spec.get("miri_full", lambda j: True)(job))
            key = "%s_reports_%s" % (job.flavour, cls)
            out.counters[key] = out.counters.get(key, 0) + rep.get("count", 1)
            if cls == "violation":
                full = "%s:%s" % (prop, sig)
                viol_by_sig.setdefault(full, []).append({"sig": full, "rule": job.flavour, "msg": msg, "witness": {"report": rep.get("raw", "")[:4000]}, "job": job.describe()})
            elif cls == "benign":
                out.sanitizer[sig] = out.sanitizer.get(sig, 0) + rep.get("count", 1)
            else:
                out.inconc(sig)
        if r["status"] == "timeout":
            out.inconc("watchdog:" + job.tag)
            log.write("== timeout %s\n%s\n" % (job.describe(), r["stderr"][-2000:]))
        elif r["status"] in ("crash", "noresult", "error"):
            # a worker that died without a result and without a sanitizer report: harness error or abort
            handler = spec.get("on_crash")
            handled = handler(r, out, viol_by_sig) if handler else False
            # A worker killed by a memory-fault signal is an observation about the code under test (the
            # harnesses are safe Rust over the public API), not a harness error. SIGKILL (OOM killer,
            # watchdog), SIGABRT and panics stay inconclusive.
            FAULTS = {-11: "SIGSEGV", -7: "SIGBUS", -4: "SIGILL", -8: "SIGFPE"}
            if not handled and r["status"] == "crash" and r.get("rc") in FAULTS and job.flavour in ("dbg", "rel"):
                sub = job.args.split()[0] if job.args else "?"
                full = "%s:crash:%s:%s:%s" % (prop, FAULTS[r["rc"]], job.pkg, sub)
                viol_by_sig.setdefault(full, []).append({"sig": full, "rule": "worker_killed_by_memory_fault", "msg": "the worker process was killed by %s while driving the API inside its contract (last output: %s)" % (FAULTS[r["rc"]], (r["stdout"][-300:] + " | " + r["stderr"][-300:]).replace("\n", " ")), "witness": {"replay_args": job.args}, "job": job.describe()})
                log.write("== memory fault rc=%s %s\n%s\n%s\n" % (r.get("rc"), job.describe(), r["stdout"][-1500:], r["stderr"][-3000:]))
                handled = True
            if not handled:
                out.inconc("worker_%s:%s" % (r["status"], job.tag))
                log.write("== %s rc=%s %s\n%s\n%s\n" % (r["status"], r.get("rc"), job.describe(), r["stdout"][-1500:], r["stderr"][-3000:]))
    log.flush()
    # ---- verdict ----
    new_viol, known_hits = [], []
    for sig, vs in sorted(viol_by_sig.items()):
        k = [f for f in known if f.get("status", "known") == "known" and f["property"] == prop and sig_matches(f["signature"], sig)]
        if k:
            prev = [h for h in known_hits if h[1] is k[0]]
            if prev:
                known_hits[known_hits.index(prev[0])] = (prev[0][0], k[0], prev[0][2] + len(vs))
            else:
                known_hits.append((k[0]["signature"], k[0], len(vs)))
        else:
            new_viol.append((sig, vs))
    wall = time.time() - t0
    cov = {
        "evaluations": out.execs,
        "distinct_nontrivial": len(out.distinct),
        "nontrivial_executions": out.nontrivial,
        "rule": spec["rule"],
        "samples": out.samples[:6] if out.samples else [],
        "distinct_interleavings_observed": len(out.interleavings),
        "events": out.counters,
        "inconclusive": out.inconclusive,
        "inconclusive_reasons": out.inconclusive_reasons,
        "sanitizer_benign": out.sanitizer,
        "worker_processes": out.jobs_run,
        "engines": sorted(set(j.engine for j in jobs)),
        "known_findings_hit": [{"signature": s, "count": n} for s, _, n in known_hits],
        "exhaustive": bool(spec.get("exhaustive", lambda t: False)(tier)),
    }
    if out.notes:
        cov["notes"] = sorted(set(out.notes))[:20]
    extra = spec.get("extra")
    if extra:
        cov.update(extra(out))
    if replay:
        for sig, vs in new_viol:
            print("REPLAY reproduced: %s — %s" % (sig, vs[0]["msg"][:300]))
        for sig, k, n in known_hits:
            print("REPLAY reproduced known finding: %s" % sig)
        if not new_viol and not known_hits:
            print("REPLAY: no violation in %d execution(s) (%d worker runs)" % (out.execs, out.jobs_run))
        return 1 if new_viol else 0
    write_evidence(prop, tier, seed, spec["level"], cov, spec["assumptions"], wall, len(new_viol))
    for sig, k, n in known_hits:
        print("KNOWN-FINDING: property=%s %s [%s] (seen %d×)" % (prop, k["what"], sig, n))
    rc = 0
    for n, (sig, vs) in enumerate(new_viol):
        path = os.path.join(VERIF, "replays", prop, "%s_%d_%d.json" % (tier, seed, n))
        v = vs[0]
        job = dict(v["job"])
        rargs = (v.get("witness") or {}).get("replay_args")
        if rargs:
            job["args"] = rargs
        json.dump({"property": prop, "signature": sig, "rule": v.get("rule"), "message": v["msg"], "witness": v.get("witness"), "job": job, "repeat": 20 if rargs else 3, "seen": len(vs), "tier": tier, "seed": seed}, open(path, "w"), indent=1)
        print("%s: %s" % (sig, v["msg"][:600]))
        print("VIOLATION property=%s replay=%s" % (prop, path))
        rc = 1
    floor_e, floor_n = spec.get("floor", (1, 2))
    if rc == 0 and (out.execs < floor_e or len(out.distinct) < floor_n):
        print("BROKEN: observed too little (executions=%d distinct non-trivial=%d, floors %d/%d); inconclusive=%s; see %s" % (out.execs, len(out.distinct), floor_e, floor_n, out.inconclusive_reasons, log.name))
        return 2
    print("%s %s seed=%d: %s on %d executions (%d distinct non-trivial, %d interleaving signatures, %d inconclusive) in %.0fs" % (prop, tier, seed, "VIOLATED" if rc else "held", out.execs, len(out.distinct), len(out.interleavings), out.inconclusive, wall))
    if rc == 0:
        shutil.rmtree(workdir, ignore_errors=True)
    return rc
