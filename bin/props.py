"""Per-property check definitions: which worker processes run in which flavour for each tier,
what counts as non-trivial, floors, assumptions."""
from vrunner import Job

M1 = "-Zmiri-permissive-provenance -Zmiri-preemption-rate=0.05"
M2 = "-Zmiri-permissive-provenance -Zmiri-preemption-rate=0.05 -Zmiri-disable-data-race-detector"


def miri_full(job):
    return "disable-data-race-detector" not in job.miri_flags


def shards(flavour, pkg, args, n, secs, seed, first=0, timeout=None, **kw):
    return [Job(flavour, pkg, "%s --seed %d --shard %d --secs %d" % (args, seed, first + i, secs), timeout=timeout or secs * 4 + 60, **kw) for i in range(n)]


def miri(pkg, args, n, secs, seed, flags, first=0):
    return [
        Job("miri", pkg, "%s --seed %d --shard %d --secs %d" % (args, seed, 100 + first + i, secs), timeout=secs * 3 + 240, miri_flags="%s -Zmiri-seed=%d" % (flags, seed * 1000 + first + i), engine="miri-full" if "disable-data-race" not in flags else "miri-sc")
        for i in range(n)
    ]


COMMON_ASSUMPTIONS = [
    "verdict covers only the executions observed in this run (random programs from VERIF_SEED, listed perturbation modes)",
    "x86-64 Linux; weak-memory behaviour only where Miri full mode ran (race-free structures/regimes)",
    "precedence between threads is inferred from CLOCK_MONOTONIC with a 5 us safety margin (rules only get more lenient)",
]


def c09_jobs(tier, seed):
    q = tier == "quick"
    s = 15 if q else 150
    j = []
    j += shards("dbg", "w_lockfree", "c09 --kind all", 6 if q else 8, s, seed)
    j += shards("rel", "w_lockfree", "c09 --kind all", 3 if q else 4, s, seed, first=20)
    j += shards("tsan", "w_lockfree", "c09 --kind all --d1 150 --d2 10 --rand 10", 3 if q else 4, s, seed, first=40)
    j += miri("w_lockfree", "c09 --kind robust --off 2", 2 if q else 8, s, seed, M1)
    j += miri("w_lockfree", "c09 --kind plain --off 2", 1 if q else 4, s, seed, M2, first=10)
    j += miri("w_lockfree", "c09 --kind pool --off 2", 1 if q else 4, s, seed, M2, first=20)
    return j


def c03_jobs(tier, seed):
    q = tier == "quick"
    s = 15 if q else 150
    j = []
    j += shards("dbg", "w_lockfree", "c03 --kind all", 6 if q else 8, s, seed)
    j += shards("rel", "w_lockfree", "c03 --kind all", 3 if q else 4, s, seed, first=20)
    j += shards("tsan", "w_lockfree", "c03 --kind all --d1 150 --d2 10 --rand 10", 3 if q else 4, s, seed, first=40)
    j += miri("w_lockfree", "c03 --kind racefree --off 2", 3 if q else 10, s, seed, M1)
    j += miri("w_lockfree", "c03 --kind overflow --off 2", 1 if q else 6, s, seed, M2, first=10)
    return j


def c10_jobs(tier, seed):
    q = tier == "quick"
    s = 15 if q else 150
    j = []
    j += shards("dbg", "w_lockfree", "c10", 6 if q else 8, s, seed)
    j += shards("rel", "w_lockfree", "c10", 3 if q else 4, s, seed, first=20)
    j += shards("tsan", "w_lockfree", "c10 --d1 150 --d2 10 --rand 10", 3 if q else 4, s, seed, first=40)
    j += miri("w_lockfree", "c10 --addonly --off 2", 2 if q else 8, s, seed, M1)
    j += miri("w_lockfree", "c10 --off 2", 2 if q else 8, s, seed, M2, first=10)
    return j


def c12_jobs(tier, seed):
    q = tier == "quick"
    s = 15 if q else 150
    j = []
    j += shards("dbg", "w_lockfree", "c12", 6 if q else 8, s, seed)
    j += shards("rel", "w_lockfree", "c12", 3 if q else 4, s, seed, first=20)
    j += shards("tsan", "w_lockfree", "c12 --d1 150 --d2 10 --rand 10", 3 if q else 4, s, seed, first=40)
    j += miri("w_lockfree", "c12 --single-store --off 2", 2 if q else 8, s, seed, M1)
    j += miri("w_lockfree", "c12 --off 2", 2 if q else 8, s, seed, M2, first=10)
    return j


PROPS = {
    "C09": {
        "level": "exploration",
        "jobs": c09_jobs,
        "miri_full": miri_full,
        "rule": "random 2-3 thread acquire/release/lock-if-last/abandon/recover programs on UniqueIndexSet, RobustUniqueIndexSet and bb-memory PoolAllocator (capacity 1-4); each program is executed with the hook off, under every depth-1 stall plan (each hooked atomic operation x m in {1,2,4,all}), sampled depth-2 plans and random delays, natively (debug, release), under TSan and under Miri. An execution is non-trivial when operations of different threads overlapped in time; distinct = distinct (program, interleaving signature, result sequence).",
        "assumptions": COMMON_ASSUMPTIONS + ["RobustUniqueIndexSet promises exclusivity but no happens-before between owners: it is judged by atomic owner tags, not by plain canaries"],
        "floor": (2000, 200),
    },
    "C03": {
        "level": "exploration",
        "jobs": c03_jobs,
        "miri_full": miri_full,
        "rule": "random producer/consumer programs (capacity 1-4, 1-2 threads per role handing the role over through a mutex) on IndexQueue, SafelyOverflowingIndexQueue and the generic spsc::Queue with a 24-byte self-checking element; unique increasing values; every program is executed under hook off / every depth-1 stall plan / sampled depth-2 / random delays (debug, release, TSan) and under Miri (full mode for the race-free structures and the no-lap regime, SC mode for the lapping overflow queue). Non-trivial = a push and a pop overlapped in time; distinct = distinct (program, interleaving signature, result sequence).",
        "assumptions": COMMON_ASSUMPTIONS + ["connection-level conservation is covered by the w_cal worker when present in the job list"],
        "floor": (2000, 200),
    },
    "C10": {
        "level": "exploration",
        "jobs": c10_jobs,
        "miri_full": miri_full,
        "rule": "random programs on mpmc::Container (capacity 1-3 so slots are reused, self-checking entries of 8/32/128 bytes): 1-2 writer threads add/remove/abandon-under-dead-owner/recover, one reader refreshing its snapshot; every program under hook off / every depth-1 stall plan / sampled depth-2 / random delays (debug, release, TSan) and Miri (full mode add-only regime, SC mode general). Non-trivial = an add overlapped a refresh in time; distinct = distinct (program, interleaving signature, snapshot sequence).",
        "assumptions": COMMON_ASSUMPTIONS,
        "floor": (1000, 100),
    },
    "C12": {
        "level": "exploration",
        "jobs": c12_jobs,
        "miri_full": miri_full,
        "rule": "random programs on UnrestrictedAtomic with self-checking values of 1,2,3,7,8,9,63,64,65,200 bytes and alignment 1/8/64: a writer doing copy-style and loan-style stores and handing the producer token back, an optional contender for the producer token, 1-2 readers; every program under hook off / every depth-1 stall plan / sampled depth-2 / random delays (debug, release, TSan) and Miri (full mode single-store regime, SC mode general). Non-trivial = a load overlapped a store in time; distinct = distinct (program, interleaving signature, observed versions).",
        "assumptions": COMMON_ASSUMPTIONS,
        "floor": (1000, 100),
    },
}
