"""Per-property check definitions: which worker processes run in which flavour for each tier,
what counts as non-trivial, floors, assumptions."""
from vrunner import Job

M1 = "-Zmiri-permissive-provenance -Zmiri-preemption-rate=0.05"
M2 = "-Zmiri-permissive-provenance -Zmiri-preemption-rate=0.05 -Zmiri-disable-data-race-detector"


def miri_full(job):
    return "disable-data-race-detector" not in job.miri_flags


def shards(flavour, pkg, args, n, secs, seed, first=0, timeout=None, **kw):
    return [Job(flavour, pkg, "%s --seed %d --shard %d --secs %d" % (args, seed, first + i, secs), timeout=timeout or secs * 4 + 60, **kw) for i in range(n)]


def miri(pkg, args, n, secs, seed, flags, first=0):
    return [
        Job("miri", pkg, "%s --seed %d --shard %d --secs %d" % (args, seed, 100 + first + i, secs), timeout=secs * 3 + 240, miri_flags="%s -Zmiri-seed=%d" % (flags, seed * 1000 + first + i), engine="miri-full" if "disable-data-race" not in flags else "miri-sc")
        for i in range(n)
    ]


COMMON_ASSUMPTIONS = [
    "verdict covers only the executions observed in this run (random programs from VERIF_SEED, listed perturbation modes)",
    "x86-64 Linux; weak-memory behaviour only where Miri full mode ran (race-free structures/regimes)",
    "precedence between threads is inferred from CLOCK_MONOTONIC with a 5 us safety margin (rules only get more lenient)",
]


def c09_jobs(tier, seed):
    q = tier == "quick"
    s = 15 if q else 150
    j = []
    j += shards("dbg", "w_lockfree", "c09 --kind all", 6 if q else 8, s, seed)
    j += shards("rel", "w_lockfree", "c09 --kind all", 3 if q else 4, s, seed, first=20)
    j += shards("tsan", "w_lockfree", "c09 --kind all --d1 150 --d2 10 --rand 10", 3 if q else 4, s, seed, first=40)
    j += miri("w_lockfree", "c09 --kind robust --off 2", 2 if q else 8, s, seed, M1)
    j += miri("w_lockfree", "c09 --kind plain --off 2", 1 if q else 4, s, seed, M2, first=10)
    j += miri("w_lockfree", "c09 --kind pool --off 2", 1 if q else 4, s, seed, M2, first=20)
    # owner dies inside acquire / release of the robust set: every atomic-operation death point, then recover
    j += [Job("dbg", "w_lockfree", "c09 --part midop", timeout=600, engine="atomic-op death points")]
    return j


def c03_jobs(tier, seed):
    q = tier == "quick"
    s = 15 if q else 150
    j = []
    j += shards("dbg", "w_lockfree", "c03 --kind all", 6 if q else 8, s, seed)
    j += shards("rel", "w_lockfree", "c03 --kind all", 3 if q else 4, s, seed, first=20)
    j += shards("tsan", "w_lockfree", "c03 --kind all --d1 150 --d2 10 --rand 10", 3 if q else 4, s, seed, first=40)
    j += miri("w_lockfree", "c03 --kind racefree --off 2", 3 if q else 10, s, seed, M1)
    j += miri("w_lockfree", "c03 --kind overflow --off 2", 1 if q else 6, s, seed, M2, first=10)
    # connection level: operation-granularity interleavings of sender and receiver against an offset-conservation model
    j += shards("dbg", "w_cal", "c03conn --storage local", 1 if q else 3, s, seed, first=60)
    j += shards("dbg", "w_cal", "c03conn --storage shm", 1 if q else 3, s, seed, first=70)
    return j


def c10_jobs(tier, seed):
    q = tier == "quick"
    s = 15 if q else 150
    j = []
    j += shards("dbg", "w_lockfree", "c10", 6 if q else 8, s, seed)
    j += shards("rel", "w_lockfree", "c10", 3 if q else 4, s, seed, first=20)
    j += shards("tsan", "w_lockfree", "c10 --d1 150 --d2 10 --rand 10", 3 if q else 4, s, seed, first=40)
    j += miri("w_lockfree", "c10 --addonly --off 2", 2 if q else 8, s, seed, M1)
    j += miri("w_lockfree", "c10 --off 2", 2 if q else 8, s, seed, M2, first=10)
    # owner dies inside add / remove: every atomic-operation death point, then recover + refresh
    j += [Job("dbg", "w_lockfree", "c10 --part midop", timeout=600, engine="atomic-op death points"), Job("rel", "w_lockfree", "c10 --part midop", timeout=600, engine="atomic-op death points")]
    return j


def c12_jobs(tier, seed):
    q = tier == "quick"
    s = 15 if q else 150
    j = []
    hm = 300 if q else 2500
    j += shards("dbg", "w_lockfree", "c12 --hammer-ms %d" % hm, 6 if q else 8, s, seed)
    j += shards("rel", "w_lockfree", "c12 --hammer-ms %d" % hm, 3 if q else 4, s, seed, first=20)
    # the hammer stage races plain harness writes with the optimistic copy by design (benign, see 2.F5): not under TSan
    j += shards("tsan", "w_lockfree", "c12 --hammer-ms 0 --d1 150 --d2 10 --rand 10", 3 if q else 4, s, seed, first=40)
    j += miri("w_lockfree", "c12 --single-store --off 2", 2 if q else 8, s, seed, M1)
    j += miri("w_lockfree", "c12 --off 2", 2 if q else 8, s, seed, M2, first=10)
    # port level: Writer / Reader / EntryHandle(Mut) on local and ipc blackboard services
    j += shards("dbg", "w_ports", "c12p --svc local --d1 100 --d2 20 --rand 20", 2 if q else 3, s, seed, first=60)
    j += shards("dbg", "w_ports", "c12p --svc ipc --d1 100 --d2 20 --rand 20", 2 if q else 3, s, seed, first=70)
    j += shards("tsan", "w_ports", "c12p --svc local --d1 40 --d2 10 --rand 10", 1 if q else 2, s, seed, first=80)
    return j


def ports_jobs(cmd, tier, seed, conc=None, extra=None):
    q = tier == "quick"
    s = 15 if q else 150
    j = []
    j += shards("dbg", "w_ports", "%s --svc local" % cmd, 4 if q else 5, s, seed)
    j += shards("dbg", "w_ports", "%s --svc ipc" % cmd, 2 if q else 3, s, seed, first=10)
    j += shards("rel", "w_ports", "%s --svc local" % cmd, 2, s, seed, first=20)
    j += shards("asan", "w_ports", "%s --svc local" % cmd, 2 if q else 3, s, seed, first=30)
    if conc:
        j += shards("dbg", "w_ports", conc, 2, s, seed, first=40)
        j += shards("tsan", "w_ports", conc, 3, s, seed, first=50)
    if extra:
        j += extra(q, s, seed)
    return j


def c16_jobs(tier, seed):
    q = tier == "quick"
    L = 5 if q else 6
    j = [Job("rel", "w_contain", "c16 --len %d --nshards 6 --shard %d --secs %d --seed %d --random %d" % (L, i, 60 if q else 900, seed, 300 if q else 5000), timeout=400 if q else 2400) for i in range(6)]
    j += [Job("dbg", "w_contain", "c16 --len %d --nshards 3 --shard %d --secs %d --seed %d --random 100" % (4 if q else 5, i, 60 if q else 600, seed), timeout=400 if q else 1800) for i in range(3)]
    j += [Job("asan", "w_contain", "c16 --len %d --nshards 2 --shard %d --secs %d --seed %d --random 50" % (3 if q else 4, i, 60 if q else 600, seed), timeout=400 if q else 1800) for i in range(2)]
    j += [Job("miri", "w_contain", "c16 --len %d --nshards 5 --shard %d --secs %d --seed %d --random %d" % (2, i, 60 if q else 900, seed, 2 if q else 30), timeout=500 if q else 2400, miri_flags=M1, engine="miri-full") for i in range(5)]
    return j


def c15_jobs(tier, seed):
    q = tier == "quick"
    s = 15 if q else 150
    j = []
    j += shards("dbg", "w_contain", "c15", 3 if q else 4, s, seed)
    j += shards("rel", "w_contain", "c15", 2 if q else 3, s, seed, first=10)
    j += shards("asan", "w_contain", "c15", 2, s, seed, first=20)
    j += [Job("miri", "w_contain", "c15 --seed %d --shard %d --secs %d" % (seed, 100 + i, s), timeout=s * 3 + 300, miri_flags=M1, engine="miri-full") for i in range(2 if q else 6)]
    j += shards("dbg", "w_ports", "c15g --svc local", 2, s, seed, first=30)
    j += shards("dbg", "w_ports", "c15g --svc ipc", 2, s, seed, first=40)
    j += shards("asan", "w_ports", "c15g --svc local", 1 if q else 2, s, seed, first=50)
    return j


def c04_jobs(tier, seed):
    q = tier == "quick"
    n = 14
    j = [Job("dbg", "w_proc", "c04 --scenario all --nshards %d --shard %d --stride %d --seed %d --secs %d" % (n, i, 3 if q else 1, seed, 150 if q else 1500), timeout=400 if q else 2400, engine="ptrace-stepper") for i in range(n)]
    j += [Job("dbg", "w_proc", "c04 --part shared --scenario all --nshards 6 --shard %d --stride %d --seed %d --secs %d" % (i, 4 if q else 1, seed, 150 if q else 1500), timeout=400 if q else 2400, engine="ptrace-stepper+holder") for i in range(6)]
    j += [Job("dbg", "w_proc", "c04 --part second --scenario all --nshards 8 --shard %d --stride %d --seed %d --secs %d" % (i, 12 if q else 1, seed, 150 if q else 2400), timeout=500 if q else 3600, engine="ptrace-stepper+second-crash") for i in range(8)]
    if not q:
        j += [Job("dbg", "w_proc", "c04 --scenario all --markers --nshards %d --shard %d --stride 1 --seed %d --secs 1500" % (n, i, seed), timeout=2400, engine="ptrace-stepper+atomic-markers") for i in range(n)]
    return j


def c07_jobs(tier, seed):
    q = tier == "quick"
    st = 2 if q else 1
    j = []
    j += [Job("dbg", "w_proc", "c07 --part owner --nshards 4 --shard %d --stride %d --seed %d" % (i, st, seed), timeout=600, engine="ptrace-stepper") for i in range(4)]
    j += [Job("dbg", "w_proc", "c07 --part observer --nshards 4 --shard %d --stride %d --seed %d" % (i, 1, seed), timeout=600, engine="ptrace-stepper") for i in range(4)]
    j += [Job("dbg", "w_proc", "c07 --part cleaners --nshards 8 --shard %d --stride %d --seed %d --cleaner-rounds %d" % (i, st, seed, 3 if q else 20), timeout=900, engine="ptrace-stepper") for i in range(8)]
    return j


def c05_jobs(tier, seed):
    q = tier == "quick"
    s = 20 if q else 200
    j = []
    j += shards("dbg", "w_ports", "c05 --svc local --d1 300", 8 if q else 9, s, seed)
    j += shards("dbg", "w_ports", "c05 --svc ipc --d1 300", 4, s, seed, first=20)
    j += shards("rel", "w_ports", "c05 --svc local --d1 300", 2, s, seed, first=40)
    j += shards("tsan", "w_ports", "c05 --svc local --d1 100 --d2 10 --rand 10", 2, s, seed, first=50)
    # the two event-state implementations on their own (lock-free core)
    j += shards("dbg", "w_lockfree", "c05", 2 if q else 4, s, seed, first=60)
    j += shards("rel", "w_lockfree", "c05", 1 if q else 2, s, seed, first=70)
    j += shards("tsan", "w_lockfree", "c05 --d1 150 --d2 10 --rand 10", 1 if q else 2, s, seed, first=80)
    j += miri("w_lockfree", "c05 --off 2", 2 if q else 8, s, seed, M1, first=20)
    return j


def c13_jobs(tier, seed):
    q = tier == "quick"
    s = 15 if q else 150
    L = 5 if q else 6
    j = []
    for st in ("local", "shm"):
        # one process per slice of the box: handles leaked on behalf of dead peers keep their descriptors
        ns = 4 if q else 24
        j += [Job("dbg", "w_cal", "c13 --part seq --storage %s --len %d --nshards %d --shard %d" % (st, L, ns, i), timeout=1200, engine="exhaustive-histories") for i in range(ns)]
        j += shards("dbg", "w_cal", "c13 --part conc --storage %s" % st, 3 if q else 4, s, seed, first=10 if st == "shm" else 0)
    j += shards("rel", "w_cal", "c13 --part conc --storage local", 2, s, seed, first=30)
    j += shards("tsan", "w_cal", "c13 --part conc --storage local --d1 100 --d2 10 --rand 10", 2, s, seed, first=40)
    return j


def c14_jobs(tier, seed):
    q = tier == "quick"
    s = 15 if q else 150
    j = []
    j += shards("dbg", "w_contain", "c14", 3, s, seed)
    j += shards("rel", "w_contain", "c14", 2, s, seed, first=10)
    j += shards("asan", "w_contain", "c14", 3, s, seed, first=20)
    j += [Job("miri", "w_contain", "c14 --seed %d --shard %d --secs %d" % (seed, 100 + i, 40 if q else 400), timeout=600 if q else 2400, miri_flags=M1, engine="miri-full") for i in range(5 if q else 8)]
    return j


def c19_jobs(tier, seed):
    q = tier == "quick"
    L = 2 if q else 3
    n = 4 if q else 16
    j = [Job("rel", "w_contain", "c19 --len %d --nshards %d --shard %d --seed %d --random %d" % (L, n, i, seed, 2000 if q else 20000), timeout=600 if q else 3000, engine="exhaustive-names") for i in range(n)]
    j += [Job("dbg", "w_contain", "c19 --len 1 --nshards 1 --shard 0 --seed %d --random 3000" % seed, timeout=600)]
    j += [Job("miri", "w_contain", "c19 --len 1 --nshards 8 --shard %d --seed %d --random 20" % (i, seed), timeout=900, miri_flags=M1, engine="miri-full") for i in range(2)]
    j += [Job("dbg", "w_proc", "c19iso --rounds %d --shard %d" % (2 if q else 10, i), timeout=900, engine="process-isolation") for i in range(3)]
    return j


def c20_jobs(tier, seed):
    q = tier == "quick"
    s = 20 if q else 200
    j = []
    j += shards("dbg", "w_ports", "c20 --svc local", 5, s, seed)
    j += shards("dbg", "w_ports", "c20 --svc ipc", 5, s, seed, first=10)
    j += shards("asan", "w_ports", "c20 --svc local", 3, s, seed, first=20)
    j += shards("rel", "w_ports", "c20 --svc ipc", 2, s, seed, first=30)
    return j


def c17_jobs(tier, seed):
    q = tier == "quick"
    j = []
    for g in ("ps", "rr"):
        for svc, n in (("local", 3), ("ipc", 4)):
            j += [Job("dbg", "w_ports", "c17 --graph %s --svc %s --nshards %d --shard %d --every %d --seed %d --secs %d" % (g, svc, n, i, 12 if q else 1, seed, 200 if q else 2400), timeout=600 if q else 3000, engine="drop-permutations") for i in range(n)]
    for svc in ("local", "ipc"):
        j += [Job("dbg", "w_ports", "c17 --graph ev --svc %s --nshards 1 --shard 0 --every %d --seed %d --secs 600" % (svc, 2 if q else 1, seed), timeout=900, engine="drop-permutations")]
    j += [Job("asan", "w_ports", "c17 --graph %s --svc local --nshards 1 --shard 0 --every %d --seed %d --secs 300" % (g, 60 if q else 6, seed), timeout=900, engine="drop-permutations-asan") for g in ("ps", "rr", "ev")]
    return j


def c06_jobs(tier, seed):
    q = tier == "quick"
    s = 25 if q else 300
    j = []
    j += shards("dbg", "w_ports", "c06 --svc local --d1 120 --d2 30 --rand 20", 2 if q else 3, s, seed)
    j += shards("dbg", "w_ports", "c06 --svc ipc --d1 120 --d2 30 --rand 20", 3 if q else 4, s, seed, first=10)
    j += shards("rel", "w_ports", "c06 --svc local --d1 120 --d2 30 --rand 20", 1 if q else 2, s, seed, first=20)
    j += shards("rel", "w_ports", "c06 --svc ipc --d1 120 --d2 30 --rand 20", 1 if q else 2, s, seed, first=30)
    j += shards("tsan", "w_ports", "c06 --svc local --d1 40 --d2 10 --rand 10", 1 if q else 2, s, seed, first=40)
    j += shards("dbg", "w_ports", "c06p", 2 if q else 4, s, seed, first=50)
    j += shards("rel", "w_ports", "c06p", 1 if q else 2, s, seed, first=60)
    return j


def c18_jobs(tier, seed):
    q = tier == "quick"
    s = 30 if q else 400
    j = [Job("dbg", "w_ffi", "errmap", timeout=600, engine="error-map-enumeration")]
    for pat in ("ps", "ev", "rr"):
        j += shards("dbg", "w_ffi", "diff --pattern %s" % pat, 2 if q else 3, s, seed, first={"ps": 0, "ev": 10, "rr": 20}[pat], engine="c-vs-rust-differential")
    j += shards("rel", "w_ffi", "diff --pattern all", 2 if q else 3, s, seed, first=30, engine="c-vs-rust-differential")
    j += shards("asan", "w_ffi", "diff --pattern all", 2 if q else 3, s, seed, first=40, engine="c-vs-rust-differential-asan")
    return j


PROPS = {
    "C18": {
        "level": "exploration",
        "jobs": c18_jobs,
        "rule": "(1) error mapping: for every `impl IntoCInt for T` of the C binding (47 types) ALL values of T are generated from T's definition in the repository sources (build.rs parses the enums; tuple variants are expanded recursively through the enums they carry) and pushed through the binding's own conversion (hook verif_into_c_int) in a child process per type: the conversion terminates, an error never converts to IOX2_OK, different variants never share a code, every code of one C enum has a distinct non-empty printable name from its *_string function, and no code spells another variant of the same type. (2) differential: random programs for publish-subscribe (u64 and [u8] payloads, copy and loan APIs, holding samples, port creation beyond the limits, incompatible opens, port counts), event (custom and default ids incl. out-of-range, try_wait) and request-response (send, receive, respond, drop of either end, is_connected) are executed with every role (service creator, each port) played through the Rust API or the C API: all-Rust, all-C, C-sender/Rust-receiver, Rust-sender/C-receiver and a mixed assignment on the same service; the result trace of every assignment must equal the all-Rust trace step by step (values, counts, element counts, and for failures the C code must be the code the binding's conversion gives the Rust error). (3) handle hygiene: after every program all handles are dropped through their own API: the service's port counts must follow the live handles exactly and return to zero, nothing may remain in the domain, and the ASan/LSan build must stay silent (leak = handle not released, double free = released twice). Non-trivial = an assignment whose trace equals the reference; distinct = distinct (pattern, config, program, assignment).",
        "assumptions": COMMON_ASSUMPTIONS + ["the C API is driven from Rust through the rlib of iceoryx2-ffi-c (the same extern \"C\" functions a C program links against); the generated C header and the C++/Python layers are not exercised", "payload types: u64 and [u8] (the types whose Rust type name a C participant can reproduce); arbitrary custom type details are used C-to-C only through these two layouts", "error enums without a *_string function (9) are only checked for distinct codes"],
        "floor": (300, 100),
    },
    "C06": {
        "level": "exploration",
        "jobs": c06_jobs,
        "rule": "one execution = one existence epoch of one service name, for each of the four messaging patterns on local_threadsafe and ipc_threadsafe services: 2-4 racers (threads with their own node; in the c06p jobs separate processes) create / open (polling until the creators are done) / open_or_create the same name, every creator asking for a different value of one setting (max subscribers / listeners / clients / readers); all handles are held over a barrier, a checker samples does_exist and opens the service from a fresh node, then everything is dropped and the name is re-created with other settings. Thread races run with the hook off, under sampled depth-1 stall plans at every hooked atomic operation of every racer, depth-2 plans and random delays (debug, release, TSan); process races run with random delays at the hooked atomics. Verdict per epoch: at most one create() succeeded; all handles show the same setting and it is one a creator asked for; every handle can create a port; only documented race errors (AlreadyExists, IsBeingCreatedByAnotherInstance, DoesNotExist, IsMarkedForDestruction, requirement mismatch of an open_or_create that lost) occurred; somebody created; does_exist == (a handle is held); after the last drop does_exist is false, no service file or segment remains, the name is creatable and shows the new setting. Sequential part: compatibility grids per pattern (18 + 22 + 27 + 10 cases of creator settings x opener requirement incl. payload/header/key types and wrong pattern) with the documented result for each and, after every case, unchanged static config and a working round trip through the creator's own ports. Non-trivial = an epoch in which two racers obtained the service or a creator lost against another; distinct = distinct (pattern, roles, interleaving signature, outcome vector).",
        "assumptions": COMMON_ASSUMPTIONS + ["the pairwise product of ALL settings is reduced to one requirement at a time against one creator configuration per pattern (each verify_service_configuration branch is reached from both sides)", "process-level races are perturbed by start jitter and random delays only; crash points inside creation are C04's subject"],
        "floor": (100, 40),
    },
    "C09": {
        "level": "exploration",
        "jobs": c09_jobs,
        "miri_full": miri_full,
        "rule": "death inside an operation (c09 --part midop, exhaustive): an acquire, a release and a release(LockIfLastIndex) of the robust set under a dead owner id are cut off before each of their atomic operations (the atomics hook unwinds out of the call), then the dead owner is recovered: the recovery never returns a live owner's index, afterwards borrowed_indices() counts only the live owner's, the live owner can take exactly the remaining indices, the set is locked only if the interrupted call was the lock-if-last release of the last index; rule index_held_after_lock: after a release returned Locked nobody holds an index, however an acquire raced with the lock (tiny two/three-thread programs, all same-thread double-stall plans); random 2-3 thread acquire/release/lock-if-last/abandon/recover programs on UniqueIndexSet, RobustUniqueIndexSet and bb-memory PoolAllocator (capacity 1-4); each program is executed with the hook off, under every depth-1 stall plan (each hooked atomic operation x m in {1,2,4,all}), sampled depth-2 plans and random delays, natively (debug, release), under TSan and under Miri. An execution is non-trivial when operations of different threads overlapped in time; distinct = distinct (program, interleaving signature, result sequence).",
        "assumptions": COMMON_ASSUMPTIONS + ["RobustUniqueIndexSet promises exclusivity but no happens-before between owners: it is judged by atomic owner tags, not by plain canaries"],
        "floor": (2000, 200),
    },
    "C03": {
        "level": "exploration",
        "jobs": c03_jobs,
        "miri_full": miri_full,
        "rule": "random producer/consumer programs (capacity 1-4, 1-2 threads per role handing the role over through a mutex) on IndexQueue, SafelyOverflowingIndexQueue and the generic spsc::Queue with a 24-byte self-checking element; unique increasing values; every program is executed under hook off / every depth-1 stall plan / sampled depth-2 / random delays (debug, release, TSan) and under Miri (full mode for the race-free structures and the no-lap regime, SC mode for the lapping overflow queue). Connection level: random operation histories (reclaim-all, try_send, receive, release) against a model that keeps every offset in exactly one of sender-owned / submission / borrowed / completion, release must never fail, failing histories are shrunk. Non-trivial = a push and a pop overlapped in time (queues) or the completion queue reached its worst case / an overflow eviction happened (connection); distinct = distinct (program, interleaving signature, result sequence) / (config, script).",
        "assumptions": COMMON_ASSUMPTIONS + ["connection level (zero_copy_connection over process-local and POSIX shared memory): sequential histories at operation granularity where the sender follows the port protocol (reclaim until empty, then send) and receiver operations may fall in between"],
        "floor": (2000, 200),
    },
    "C10": {
        "level": "exploration",
        "jobs": c10_jobs,
        "miri_full": miri_full,
        "rule": "death inside an operation (w_lockfree c10 --part midop, exhaustive): for capacities 1-3, entry sizes 8/32/128 bytes and every combination of live entries and freed slots, an add or a remove under a dead owner id is cut off before EACH of its atomic operations (the atomics hook unwinds out of the call: nothing after that operation happens), a survivor recovers the dead owner, then a reader that had a snapshot and a fresh reader refresh: no entry of the dead owner, exactly the live entries, every entry completely written, the slot reusable; random programs on mpmc::Container (capacity 1-3 so slots are reused, self-checking entries of 8/32/128 bytes): 1-2 writer threads add/remove/abandon-under-dead-owner/recover, one reader refreshing its snapshot; every program under hook off / every depth-1 stall plan / sampled depth-2 / random delays (debug, release, TSan) and Miri (full mode add-only regime, SC mode general). Non-trivial = an add overlapped a refresh in time; distinct = distinct (program, interleaving signature, snapshot sequence).",
        "assumptions": COMMON_ASSUMPTIONS,
        "floor": (1000, 100),
    },
    "C12": {
        "level": "exploration",
        "jobs": c12_jobs,
        "miri_full": miri_full,
        "rule": "random programs on UnrestrictedAtomic with self-checking values of 1,2,3,7,8,9,63,64,65,200 bytes and alignment 1/8/64: a writer doing copy-style and loan-style stores and handing the producer token back, an optional contender for the producer token, 1-2 readers; every program under hook off / every depth-1 stall plan / sampled depth-2 / random delays (debug, release, TSan) and Miri (full mode single-store regime, SC mode general); hammer stage (debug, release): per shard four long real-thread runs on values of 2, 5, 8 and 24 bytes carrying their full version, one writer mixing copy stores and byte-by-byte loan fills with a pause in the middle, two readers in a tight loop (about 10^7 loads per run): no torn load, no load older than the previous one. Port level (w_ports c12p, local_threadsafe and ipc_threadsafe blackboard services, keys with 8-, 40- and 200-byte self-checking values): a writer thread (one EntryHandleMut per key; copy updates, loan-style updates, discarded loans, refused second write handle), a contender creating writer ports, 1-2 reader threads with their own ports; rules: no torn value, versions monotone per reader and key, no value from a discarded loan, no read older than an update completed before it began, second writer port never created inside the first one's holding interval, second write handle refused with HandleAlreadyExists, final values = newest, writer slot and write handles free again at quiescence. Non-trivial = a load overlapped a store in time; distinct = distinct (program, interleaving signature, observed versions).",
        "assumptions": COMMON_ASSUMPTIONS,
        "floor": (1000, 100),
    },
    "C01": {
        "level": "exploration",
        "jobs": lambda tier, seed: ports_jobs("c01", tier, seed, conc="c01c"),
        "rule": "payloads: fixed-size [u64; 4] and, in every third history, slices [u64] of 1-6 elements whose length and every element are functions of the sample id (statically sized segment); sequential: random API histories (create/drop publisher and subscriber, send_copy, loan/write/send, receive, release, update_connections, has_samples) over 1-3 publishers x 1-3 subscribers with random QoS (buffer 1-4, history 0-3, borrow 1-3, overflow on/off, loans 1-3) on local and ipc services, compared with an exact reference model after every step (debug, release, ASan); concurrent: publisher and subscriber threads on one service with random delays at hooked atomics, pairwise delivery rules over the logs (debug, TSan). Non-trivial = history with an overflow eviction, a late joiner with history, a discard on a full buffer or a documented loss, and at least one receive; distinct = distinct (config, kinds of events) / (config, received sequence).",
        "assumptions": COMMON_ASSUMPTIONS + ["fixed-size payload [u64;4]; slices and growing segments are exercised by C15", "cross-publisher order is unspecified and not checked"],
        "floor": (300, 50),
    },
    "C02": {
        "level": "exploration",
        "jobs": lambda tier, seed: ports_jobs("c02", tier, seed, extra=lambda q, s, sd: shards("dbg", "w_ports", "c02r --svc local", 2, s, sd, first=60) + shards("dbg", "w_ports", "c02r --svc ipc", 1, s, sd, first=65)),
        "rule": "request-response lifetime (c02r: the request/response model histories): the request chunk behind every held ActiveRequest and every held Response is re-read after every step and must be unchanged, corrupted or invented payloads at receive are violations; payloads: fixed-size [u64; 4] and, in every third history, slices [u64] of 1-6 elements whose length and every element are functions of the sample id (statically sized segment); the C01 history generator with loans kept unsent and received samples kept across further steps (also past the drop of their subscriber): every held sample and unsent loan carries a unique pattern that is re-verified after every step; at the end of every history a saturation probe drives each publisher to the worst case (all buffers full, every subscriber at its borrow limit, history full) and then takes all max_loaned_samples loans, twice. Non-trivial = a history in which two or more references (held samples, unsent loans) existed at once and the saturation probe ran; distinct = distinct (config, kinds of events).",
        "assumptions": COMMON_ASSUMPTIONS + ["request/response payload lifetime is covered by the C11 histories (held responses are re-verified after every step)"],
        "floor": (300, 50),
    },
    "C08": {
        "level": "exploration",
        "jobs": lambda tier, seed: ports_jobs("c08", tier, seed, extra=lambda q, s, sd: shards("dbg", "w_ports", "c08r --svc local", 2, s, sd, first=60) + shards("dbg", "w_ports", "c08r --svc ipc", 1, s, sd, first=65) + shards("dbg", "w_cal", "c03conn --prop C08 --storage local", 1 if q else 3, s, sd, first=90) + shards("dbg", "w_cal", "c03conn --prop C08 --storage shm", 1 if q else 3, s, sd, first=95) + [Job("dbg", "w_ports", "c08l --shard 0", timeout=600, engine="limit-table"), Job("asan", "w_ports", "c08l --shard 1", timeout=900, engine="limit-table-asan")]),
        "rule": "adversarial histories that stay at the limits: publish-subscribe (loans, borrows, publishers, subscribers: limit reached, limit+1 refused with the documented error and without side effect on the model, saturation probe at the end) and request-response (active requests per client, borrowed responses per connection, request buffer at the server); every error/fatal log record inside the contract is a violation; 'a release never fails for lack of queue space' is decided at the connection level with operation-granularity interleavings of sender and receiver (reclaim-all / try_send / receive / release histories against an offset-conservation model). Limit table (w_ports c08l, local and ipc): for max_publishers, max_subscribers, max_notifiers, max_listeners, max_clients, max_servers, max_readers, the single writer and max_nodes of each pattern, with every value 1..3: exactly `limit` objects can be created, the next two attempts are refused with the specific documented error, the refusals change neither the service's port counts nor the behaviour of the existing objects (round trip through each), dropping one object makes room for exactly one, and all counts return to zero. Non-trivial = a history in which at least one limit was hit and enforced / a table case; distinct = distinct (config, kinds of events).",
        "assumptions": COMMON_ASSUMPTIONS + ["wait-set attachment capacity and event-id range are exercised by C20 / C18 workloads"],
        "floor": (300, 50),
    },
    "C11": {
        "level": "exploration",
        "jobs": lambda tier, seed: ports_jobs("c11", tier, seed, extra=lambda q, s, sd: shards("dbg", "w_ports", "c11c --d1 300", 3 if q else 5, s, sd, first=70) + shards("tsan", "w_ports", "c11c --d1 100 --d2 10 --rand 10", 2, s, sd, first=80)),
        "rule": "sequential request-response histories over 1-2 clients x 1-2 servers (max active requests 1-3, response buffer 1-4, borrow 1-3, overflow on/off, fire-and-forget on/off) biased to the reuse pattern 'pending response dropped while responses are queued, next request takes the channel'; unique ids in requests and responses; an exact model of every request buffer and every response channel buffer (including stale entries of dropped requests) is compared after every step; failing histories are shrunk by delta debugging. Concurrent: a client thread sends requests while 1-2 server threads poll, answer and the client collects (buffers sized so that nothing may be discarded), every hooked atomic operation of every thread is a stall point (depth-1 sweep, depth-2 sampled, random; debug and TSan): every request must reach every server exactly once in order, every response its own request. Non-trivial = a history in which a pending response was dropped with queued responses or a response was sent after the client had dropped, and responses were received / every concurrent execution; distinct = distinct (config, kinds of events) / (config, interleaving signature).",
        "assumptions": COMMON_ASSUMPTIONS + ["with two servers the order in which stale entries are skipped is not observable; such channel queues are judged tolerantly until drained"],
        "floor": (300, 50),
    },
    "C16": {
        "level": "exploration",
        "jobs": c16_jobs,
        "exhaustive": lambda tier: True,
        "rule": "differential execution against std models (VecDeque, BTreeMap slab, BTreeMap, Vec, Vec<u8>) after every operation with an element life table, for queue (heap/fixed, capacity 0-3), slot map (heap/fixed, capacity 1-4 and 6 with the full key domain incl. key == capacity), flat map (heap/fixed, 1-3), vector (static/polymorphic-heap, 0-3), static string (1-4), RelocatableOption (replace, take, take_if, as_mut, map, unwrap_or): ALL operation sequences up to length 5 (quick) / 6 (thorough) over the per-container alphabet (bounded to 5 for vectors and 4 for the 19-letter string alphabet), plus random sequences of length up to 40; release build for the enumeration, debug/ASan for shorter boxes, Miri for length <= 2 plus random short ones. Non-trivial = a history of maximal enumerated length or a random one; distinct = distinct (target, history). exhaustive=true refers to exactly this (length, alphabet, capacity) box.",
        "assumptions": ["std containers are the reference semantics, capacity errors must leave the container unchanged", "String::retain removes the bytes for which the closure returns true (upstream test retain_works), the doc line of String::retain says the opposite"],
        "floor": (100000, 20),
    },
    "C15": {
        "level": "exploration",
        "jobs": c15_jobs,
        "rule": "allocator level: random cases over a grid of awkward layouts (bucket size 1-72 incl. sizes that are not a multiple of the alignment, alignment 1-64, block start misaligned by 0-63, partial last bucket, compile-time bucket limit reached) for bb-memory PoolAllocator, bb-elementary BumpAllocator and OneChunkAllocator: allocate / deallocate / grow front+back / shrink with an allocation shadow (bounds, alignment, size, disjointness), pattern fill verified on release, guard bytes around the block, exhaustion probe after freeing everything; failing cases are shrunk (debug, release, ASan, Miri). Port level: publisher with slice payloads and BestFit/PowerOfTwo/Static strategy, subscribers holding samples across repeated segment growth on local and ipc services. Non-trivial = a case with two or more successful allocations / a history with a growth step while samples were held; distinct = distinct (allocator, layout, block, operations) / (config, events).",
        "assumptions": ["cal shm allocators (pool/bump with offsets) are reached through the port-level growth scenario (data segments use them), not driven directly"],
        "floor": (10000, 100),
    },
    "C04": {
        "level": "fault_enumeration",
        "jobs": c04_jobs,
        "exhaustive": lambda tier: tier == "thorough",
        "rule": "for each scenario (node create/drop; publish-subscribe, event, request-response, blackboard: service + ports + traffic + orderly shutdown) the child process is killed before each of its system-call stops (file, descriptor, memory-map, lock calls; thorough: every stop and additionally after every shared-memory atomic write; quick: every 3rd stop, offset by the seed); a separate survivor process then lists nodes, removes stale resources, lists again, checks the residue (directory + /dev/shm listing by name), re-creates the same service name with different settings and exchanges data, checks the residue again. Non-trivial = a crash point at which at least one file or shm object of the child existed; distinct = distinct (scenario, stop index, system call, object kind). exhaustive (thorough) means: every stop of the listed classes in the listed scenarios.",
        "assumptions": ["process death is injected with SIGKILL at system-call entry (and after atomic writes with markers); not machine crashes, not torn single system calls", "a survivor hang counts only when it reproduces (watchdog 6 s, twice)", "crash points are named by (phase, system call, object kind), known findings are keyed on (scenario pattern, phase, outcome class)"],
        "floor": (100, 30),
    },
    "C07": {
        "level": "fault_enumeration",
        "jobs": c07_jobs,
        "exhaustive": lambda tier: tier == "thorough",
        "rule": "(a) the monitored process is held (alive, stopped by ptrace) before each system-call stop of node create + node drop while an observer process calls Node::list: the verdict must never be Dead; (b) the observer is held before each stop of its own Node::list while the live owner performs its complete node drop and is then released: the verdict must not be Dead; (c) 2-4 cleaner processes are released at once on a node whose process was killed: exactly one cleanup succeeds, the others get the documented refusals, nothing remains; (d) a cleaner is killed before each of its own stops, a second cleaner must then complete the cleanup. Quick samples every 2nd stop of (a) and (d). Non-trivial = a query/trial in which the node's files existed; distinct = distinct (sweep, stop index, system call, object kind).",
        "assumptions": ["file-lock based monitoring (ipc::Service) only; process-local monitoring has no crashes by definition", "a held process is stopped by ptrace, i.e. alive and not scheduled; kills are SIGKILL at system-call entry"],
        "floor": (60, 30),
    },
    "C05": {
        "level": "exploration",
        "jobs": c05_jobs,
        "rule": "port level (Notifier/Listener over local and ipc services, ids 0-2, 1-3 notifier threads): short rounds in which every notifier fires a burst and parks while the listener mixes try_wait / timed_wait; after every round (all notifiers parked between calls) a quiescent probe runs whenever something is undelivered: timed_wait(1 s) must deliver and must not have slept >= 0.9 s. Every execution runs with the hook off, under each sampled depth-1 stall plan (stall before/after every hooked atomic operation of listener and notifiers, m in {1,2,4,10,all}), sampled depth-2 plans and random delays (debug, release, TSan). Log rules: no phantom id, deliveries <= started notifications on every prefix, every successful notification followed by a delivery of its id, quiescent wake-up probe. Non-trivial = an execution in which events were delivered or a probe ran; distinct = distinct (config, interleaving signature, delivered sequence). Lock-free core (w_lockfree c05): BitSet and CountingBitSet with capacities 1-130, 1-3 setter threads and a drainer (reset_all / reset_next) under the same sweep, TSan and Miri (data-race detector on: the sets use atomics only): no phantom id, a completed set is reported by a later drain or the final quiescent drain, never more occurrences than set calls begun, counting set: reported counts add up exactly to the set calls, plain set: number of set calls that returned true == number of reports.",
        "assumptions": COMMON_ASSUMPTIONS + ["unbounded 'eventually' is restated as the quiescent probe: no notify in flight, undelivered id exists, wait must not sleep; the 0.9 s threshold is 5-6 orders of magnitude above the expected latency and a firing watchdog alone is never a verdict without the pending-id witness; a probe during which the listener thread spent >= 200 ms runnable-but-not-running (/proc/thread-self/schedstat) is inconclusive", "event implementations reached: process-local and unix-datagram/socket based ones selected by local/ipc services"],
        "floor": (150, 50),
    },
    "C13": {
        "level": "exploration",
        "jobs": c13_jobs,
        "exhaustive": lambda tier: True,
        "rule": "zero_copy_connection over process-local storage and POSIX shared memory. Sequential: ALL histories up to length 5 (quick) / 6 (thorough) over {attach sender, attach receiver, detach sender, detach receiver, forced removal of the sender / receiver role of a leaked (dead) handle, attach with a mismatching buffer size} against a model of the registered roles: second attach of a role refused, existence == some role registered, token sent by the attached sender arrives at the attached receiver, mismatching attach refused with the documented error without disturbing the pair, no residue. Concurrent: 2-3 threads attach/detach random roles on one name under hook off / depth-1 stall plans / depth-2 / random delays (debug, release, TSan): holding intervals of one role never overlap, does_exist sampled inside every holding interval is true, after the last detach false, only documented attach errors. Non-trivial = a history of maximal length / an execution in which attach calls overlapped in time; exhaustive=true refers to the sequential box.",
        "assumptions": COMMON_ASSUMPTIONS + ["a forced removal is only issued for a role whose handle is leaked (its owner is dead), as the contract requires"],
        "floor": (2000, 50),
    },
    "C14": {
        "level": "exploration",
        "jobs": c14_jobs,
        "rule": "for RelocatableVec, RelocatableQueue, RelocatableSlotMap, RelocatableFlatMap, RelocatableString, UniqueIndexSet, RobustUniqueIndexSet, RelocatableIndexQueue, RelocatableSafelyOverflowingIndexQueue, RelocatableBitSet, RelocatableCountingBitSet, RelocatableUsedChunkList and mpmc::Container (capacity 1-4): the structure is built by new_uninit + init(bump allocator) inside one block; a random history runs against a std model and after every operation, with probability 1/4, the whole block is byte-copied to a fresh allocation at another in-page offset, the old block is poisoned with 0xAA and freed, and the history continues on the copy (debug, release, ASan, Miri). Non-trivial = a history with at least one relocation; distinct = distinct (structure, history).",
        "assumptions": ["relocation = byte-for-byte copy of header + payload as a whole (what another process mapping the segment sees); moving only the header is not a supported operation", "the shm pool/bump allocators keep an absolute start address and are only ever used by the process that created the segment; other processes see their results as segment-relative offsets, which C15 checks (in bounds, aligned, disjoint) and C15's growth worker resolves in a second mapping"],
        "floor": (2000, 200),
    },
    "C19": {
        "level": "exploration",
        "jobs": c19_jobs,
        "exhaustive": lambda tier: True,
        "rule": "names: reference predicates written from the documentation of FileName, Path and FilePath, differential against the constructors over ALL byte strings of length <= 2 (quick) / <= 3 (thorough, 16.8 M per type) plus structured random strings up to 300 bytes (separators, dots, NUL, non-ASCII, maximum length +-1): accepted iff allowed, accepted names round-trip, an accepted file name cannot denote a location outside the root; mutation closure: from every accepted value of length <= 2 each of 12 mutating operations with 8 argument bytes yields a valid value or fails without changing it. Isolation: three domains (prefix P+'a' vs P+'ab' in one root; P+'a' again in a nested root) each run a node + publish-subscribe service in its own process: every created file lies under the domain's root with its prefix or is a /dev/shm object carrying the prefix; node and service listings of each domain show exactly its own; after one owner is killed, cleanup runs in the other domains neither see nor remove the dead node or any foreign file, the domain's own cleanup succeeds. Non-trivial = a random long string / an isolation query; exhaustive=true refers to the byte-string box.",
        "assumptions": ["Linux rules (the platform-independent forbidden set is enforced on Linux too)", "service and node names: a reference predicate (non-empty, no iox2:// prefix, code points 1..=127, length <= 255 for services; code points 1..=127, length <= 128 for nodes) is compared with ServiceName::new / NodeName::new over all strings of length <= 2 of a 15-character alphabet (separators, dots, NUL, newline, DEL, non-ASCII) and random strings around the length limits; accepted names read back unchanged"],
        "floor": (100000, 100),
    },
    "C20": {
        "level": "exploration",
        "jobs": c20_jobs,
        "rule": "sequential histories over {attach notification, attach deadline (1 h | 1 us), attach interval (1 h | 500 us), drop a guard, notify a service, drain a listener, process with zero timeout (sometimes notifying from inside the callback)} with 1-4 listeners on 1-2 event services, re-attach after detach, on the select (local) and epoll (ipc) reactors; after every processing call the set of reported attachments (matched against every live guard with has_event_from / has_missed_deadline) must equal the model set {attachments whose listener has an undrained notification} + {expired short deadlines/intervals}; no callback id may match no live guard; double attach must be refused with AlreadyAttached and len() unchanged; len() == live guards after every step; failing histories are shrunk. Non-trivial = a history with a processing call that reported something and at least one detach; distinct = distinct (configuration, history).",
        "assumptions": ["deadlines are either far (never expected) or already expired when processing starts (3 ms pause), so wall-clock never decides", "the declared capacity (millions of attachments) is not reachable before the process runs out of descriptors and is not driven"],
        "floor": (100, 30),
    },
    "C17": {
        "level": "exploration",
        "jobs": c17_jobs,
        "exhaustive": lambda tier: tier == "thorough",
        "rule": "three object graphs on one service name, on local and ipc services: publish-subscribe (node, service, publisher, subscriber, loaned sample, received sample, second node+service+subscriber), request-response (node, service, client, server, pending response, active request, received response), event (node, service, notifier, listener, wait set, wait-set guard; the guard must precede listener and wait set): the objects are dropped in every admissible permutation (thorough: all 5040 + 5040 + 240 per service type; quick: every 12th / every 2nd, offset by the seed); after EVERY single drop each survivor is exercised actively (publisher: send + two simultaneous loans; subscribers: receive; held samples, loans, requests, responses: checksum; client: send; server: receive; active request: respond; pending response: receive; notifier + listener + wait set: notify, process, wait) and must work; after the last drop no file or shm object may remain, no error may have been logged, and the same names must be creatable with different settings (ASan on a sample). Non-trivial = every permutation; distinct = distinct (service type, graph, permutation).",
        "assumptions": ["drop orders the borrow checker forbids are out of scope here (C handles: C18)", "thread-safe service variants are not permuted"],
        "floor": (200, 100),
    },
}
