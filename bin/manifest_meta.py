HOOK_COMMITS = ["f2e3e94"]
NOTES = "Runtime monitoring and sanitizers only. bin/check <id> --tier quick|thorough; VERIF_SEED seeds all random choices. Known findings: /verif/known_findings.json. See DESIGN.md."
ENGINES = [
    {"name": "ptrace-stepper", "path": "harness/w_proc/src/step.rs", "serves_properties": ["C04", "C07"], "kind_free_text": "PTRACE_SYSCALL stepping of scenario children; kill or hold at any system-call stop; marker syscalls for phases and atomic writes"},
    {"name": "allocation-shadow", "path": "harness/w_contain/src/c15.rs", "serves_properties": ["C15"], "kind_free_text": "interval-set shadow of live allocations, pattern fill, guard bytes, case shrinking"},
    {"name": "container-differential", "path": "harness/w_contain/src/c16.rs", "serves_properties": ["C16"], "kind_free_text": "exhaustive short histories + random long ones against std models, element life table"},
    {"name": "sequential-models", "path": "harness/w_ports/src", "serves_properties": ["C01", "C02", "C08", "C11"], "kind_free_text": "model-based random API histories over local and ipc services; exact reference model compared after every step; canaries; saturation probes; history shrinking"},
    {"name": "stall-sweep", "path": "harness/vkit/src/sched.rs", "serves_properties": ["C03", "C09", "C10", "C12"], "kind_free_text": "real threads; atomics hook stalls one thread at every hooked atomic operation (depth-1 exhaustive, depth-2 sampled, random delays)"},
    {"name": "tsan", "path": "bin/vrunner.py", "serves_properties": ["C03", "C09", "C10", "C12"], "kind_free_text": "ThreadSanitizer build (-Zbuild-std) of the same workloads; reports classified (user-memory race / documented optimistic read / other)"},
    {"name": "miri", "path": "bin/vrunner.py", "serves_properties": ["C03", "C09", "C10", "C12"], "kind_free_text": "Miri: UB + data-race detector + weak-memory emulation for race-free structures/regimes (full mode), SC interleavings otherwise"},
]
NOT_YET = {}
META = {
    "C03": {
        "engine": "stall-sweep + tsan + miri",
        "technique": "history checker over unique values (conservation, FIFO order, eviction distance, full/empty legitimacy) on perturbed real-thread executions; TSan; Miri",
        "level_text": "Exploration: every generated program is run under all depth-1 stall points of both threads plus sampled depth-2 and random delays, in debug, release, TSan and Miri; the oracle is exact for conservation/order and conservative (clock margin) for full/empty legitimacy.",
        "level_note": "Held on the executions observed only. Trusted: CLOCK_MONOTONIC across cores (5 us margin), the harness role mutex, Miri/TSan themselves.",
        "design_ref": "DESIGN.md section 4 C03",
    },
    "C09": {
        "engine": "stall-sweep + tsan + miri",
        "technique": "ownership-interval checker + atomic owner tags + plain canaries + leak/lock probes on perturbed real-thread executions; TSan; Miri",
        "level_text": "Exploration: random small programs over three allocators, each run under every depth-1 stall point (the ABA family), sampled depth-2, random delays; debug, release, TSan, Miri.",
        "level_note": "Held on the executions observed only. Trusted: CLOCK_MONOTONIC (5 us margin), Miri/TSan.",
        "design_ref": "DESIGN.md section 4 C09",
    },
    "C10": {
        "engine": "stall-sweep + tsan + miri",
        "technique": "membership-by-timestamp snapshot checker with tear-detecting entries on perturbed real-thread executions; TSan; Miri",
        "level_text": "Exploration: random add/remove/recover programs with slot reuse against a refreshing reader under every depth-1 stall point, sampled depth-2 and random delays; debug, release, TSan, Miri.",
        "level_note": "Held on the executions observed only. Trusted: CLOCK_MONOTONIC (5 us margin), Miri/TSan. Service-level registries are exercised by the port workloads of C01/C11.",
        "design_ref": "DESIGN.md section 4 C10",
    },
    "C12": {
        "engine": "stall-sweep + tsan + miri",
        "technique": "self-checking values, monotone versions and producer-token interval checker on perturbed real-thread executions; TSan; Miri",
        "level_text": "Exploration: writer/contender/readers programs over 10 value sizes x 3 alignments under every depth-1 stall point, sampled depth-2, random delays; debug, release, TSan, Miri.",
        "level_note": "Held on the executions observed only. Trusted: CLOCK_MONOTONIC (5 us margin), Miri/TSan.",
        "design_ref": "DESIGN.md section 4 C12",
    },
    "C01": {
        "engine": "sequential reference model + concurrent log checker + tsan + asan",
        "technique": "exact sequential reference model compared after every API step; pairwise delivery checker over concurrent logs; TSan; ASan",
        "level_text": "Exploration: thousands of random API histories on local and ipc services against an exact model (recipient counts, per-pair FIFO heads, documented losses only), plus concurrent executions with perturbed schedules under TSan.",
        "level_note": "Held on the histories observed only. The model encodes the documented rules (DESIGN.md F18); its relaxations are counted in the evidence.",
        "design_ref": "DESIGN.md section 4 C01",
    },
    "C02": {
        "engine": "sequential reference model + canaries + saturation probe + asan",
        "technique": "payload canaries re-verified after every step and loan-to-worst-case saturation probes on model-driven histories; ASan",
        "level_text": "Exploration: every reference to a chunk (held sample, unsent loan) is a canary checked after every step; leaks are made visible by driving each publisher to the worst case the formula allows and loaning everything.",
        "level_note": "Held on the histories observed only. One genuine defect is recorded in known_findings.json (sample outliving its subscriber).",
        "design_ref": "DESIGN.md section 4 C02",
    },
    "C08": {
        "engine": "sequential reference model + adversarial driver + log monitor",
        "technique": "adversarial limit-hugging histories against exact models (pub-sub and request-response) with error-log monitor",
        "level_text": "Exploration: the generator stays at the declared limits; every limit+1 attempt must give the documented error and leave the model state unchanged, and nothing inside the limits may fail.",
        "level_note": "Held on the histories observed only.",
        "design_ref": "DESIGN.md section 4 C08",
    },
    "C11": {
        "engine": "sequential reference model with channel buffers + shrinker",
        "technique": "exact request/response channel model with unique ids compared after every step; delta-debugging of failing histories; ASan",
        "level_text": "Exploration: request-response histories biased to channel reuse, judged by an exact model of the request buffers and response channel buffers including stale entries.",
        "level_note": "Held on the histories observed only.",
        "design_ref": "DESIGN.md section 4 C11",
    },
    "C16": {
        "engine": "exhaustive differential enumeration + life table + miri + asan",
        "technique": "differential execution against std models over all short operation sequences with an element life table; Miri; ASan",
        "level_text": "Exploration, exhaustive inside a stated box: every operation sequence up to length 5/6 per container, storage flavour and capacity 0-4 is compared with a std model after every step; every element's drop is tracked.",
        "level_note": "Exhaustive only for the stated (length, alphabet, capacity) box; random beyond. Relocatable flavours are covered by C14.",
        "design_ref": "DESIGN.md section 4 C16",
    },
    "C15": {
        "engine": "allocation shadow + pattern fill + growth histories + miri + asan",
        "technique": "allocation shadow with pattern fill and guard bytes over an awkward-layout grid; model-driven segment-growth histories at port level; Miri; ASan",
        "level_text": "Exploration: millions of random allocator cases over awkward layouts with a shadow interval set, plus port-level histories in which samples are held across repeated growth of a dynamic data segment.",
        "level_note": "Held on the cases observed only.",
        "design_ref": "DESIGN.md section 4 C15",
    },
    "C04": {
        "engine": "ptrace stepper (kill at every system-call stop / atomic write) + survivor script",
        "technique": "fault injection by ptrace at every system-call stop of lifecycle scenarios, judged by a survivor process script and a residue listing",
        "level_text": "Fault enumeration: every inter-syscall crash point (thorough: plus every atomic shared-memory write) of five lifecycle scenarios is injected; the survivor's verdicts, cleanup results, residue and re-usability are classified.",
        "level_note": "Enumerates process death only. Eleven outcome classes that fail on the pinned tree are genuine defects recorded in known_findings.json; any other class, phase or survivor failure is reported.",
        "design_ref": "DESIGN.md section 4 C04",
    },
    "C07": {
        "engine": "ptrace stepper (hold owner / hold observer / kill cleaner) + helper processes",
        "technique": "cross-process interleaving enumeration by ptrace: verdict queried at every owner step and every observer step; racing and dying cleaner processes",
        "level_text": "Fault/interleaving enumeration at system-call granularity: every stop of the owner's node create+drop and of the observer's Node::list is a hold point; every stop of a cleaner is a crash point.",
        "level_note": "Three classes that fail on the pinned tree are genuine defects recorded in known_findings.json (Dead verdict for a node that is shutting down; two uncollectable-residue classes after a cleaner died).",
        "design_ref": "DESIGN.md section 4 C07",
    },
}
