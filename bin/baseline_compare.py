#!/usr/bin/env python3
"""Compares /repo/target/nextest/pb/junit.xml (written by MANIFEST.hooks.baseline_off_cmd) with the
stable_pass list of /root/.vp/BASELINE.json: every stable test must have passed."""
import json, sys, xml.etree.ElementTree as ET
junit = sys.argv[1] if len(sys.argv) > 1 else "/repo/target/nextest/pb/junit.xml"
stable = set(json.load(open("/root/.vp/BASELINE.json"))["stable_pass"])
passed, failed = set(), set()
for tc in ET.parse(junit).getroot().iter("testcase"):
    tid = (tc.get("classname") or "") + "::" + (tc.get("name") or "")
    if any(c.tag in ("failure", "error") for c in tc):
        failed.add(tid)
    elif not any(c.tag == "skipped" for c in tc):
        passed.add(tid)
missing = sorted(stable - passed)
print("stable=%d passed=%d failed=%d stable-but-not-passed=%d" % (len(stable), len(passed), len(failed), len(missing)))
for m in missing[:40]:
    print("  NOT PASSED:", m)
sys.exit(1 if missing else 0)
