#!/usr/bin/env python3
"""Regenerates /verif/MANIFEST.json from bin/props.py + bin/manifest_meta.py (keeps it valid at all times)."""
import json, os, sys
sys.path.insert(0, os.path.dirname(os.path.abspath(__file__)))
import props, manifest_meta as mm

VERIF = os.path.dirname(os.path.dirname(os.path.abspath(__file__)))
all_ids = [json.loads(l)["id"] for l in open(os.path.join(VERIF, "properties.jsonl"))]
checks, na = [], []
for pid in all_ids:
    if pid in props.PROPS and pid in mm.META:
        m = mm.META[pid]
        checks.append({
            "property_id": pid,
            "quick_cmd": "bin/check %s --tier quick" % pid,
            "thorough_cmd": "bin/check %s --tier thorough" % pid,
            "evidence_file": "/verif/evidence/%s.json" % pid,
            "replay_cmd_template": "bin/check %s --replay {path}" % pid,
            "engine": m["engine"],
            "level_claimed": {"category": props.PROPS[pid]["level"], "text": m["level_text"], "design_ref": m["design_ref"]},
            "level_note": m["level_note"],
            "technique": m["technique"],
        })
    else:
        na.append({"property_id": pid, "reason": mm.NOT_YET.get(pid, "check not implemented yet in this round; the runtime-monitoring design for it is in DESIGN.md section 4")})
man = {
    "version": 1,
    "setup_cmd": "bin/setup",
    "hooks": {
        "guard": "--cfg iceoryx2_verif",
        "enable": "RUSTFLAGS='--cfg iceoryx2_verif' (set by bin/check for every flavour; harness crates are path dependencies on /repo)",
        "baseline_off_cmd": "cd /repo && cargo nextest run --workspace --no-fail-fast --tool-config-file pb:/w/lib/nextest.toml --profile pb --test-threads 8 --offline",
        "source_commits": mm.HOOK_COMMITS,
        "add_only": True,
    },
    "engines": mm.ENGINES,
    "checks": checks,
    "notes": mm.NOTES,
    "not_applicable": na,
}
json.dump(man, open(os.path.join(VERIF, "MANIFEST.json"), "w"), indent=1)
print("MANIFEST.json: %d checks, %d not_applicable" % (len(checks), len(na)))
