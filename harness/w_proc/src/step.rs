//! ptrace stepper: runs a child process and stops it at every system-call entry between the start
//! and end markers of its scenario.  At a stop the driver can kill the child (crash point), hold
//! it while something else runs (cross-process interleaving), or let it continue.
//!
//! Markers issued by the child: `getppid()` toggles "inside the scenario"; `kill(0x7f000000|p, 0)`
//! announces phase `p` (which API call is running); with IOX2_VERIF_MARK=1 every atomic write of
//! the library is followed by a `getpid()` so shared-memory writes become stops as well.
use std::os::unix::process::CommandExt;
use std::process::{Command, Stdio};

#[derive(Clone, Debug)]
pub struct Stop {
    /// 1-based index among the stops of the scenario
    pub k: usize,
    pub nr: i64,
    pub name: &'static str,
    /// kind of the object the call works on (derived from its path / fd), e.g. "node.details"
    pub obj: String,
    pub phase: u32,
    pub atomic_marker: bool,
}

impl Stop {
    pub fn descriptor(&self) -> String {
        format!("{}({})", self.name, self.obj)
    }
}

pub enum Action {
    Continue,
    Kill,
}

pub struct RunResult {
    pub stops: Vec<Stop>,
    pub killed_at: Option<Stop>,
    pub exit_code: Option<i32>,
    pub stdout: String,
}

pub fn sysname(nr: i64) -> &'static str {
    match nr {
        0 => "read",
        1 => "write",
        3 => "close",
        4 => "stat",
        5 => "fstat",
        8 => "lseek",
        9 => "mmap",
        10 => "mprotect",
        11 => "munmap",
        17 => "pread64",
        18 => "pwrite64",
        21 => "access",
        32 => "dup",
        39 => "getpid",
        41 => "socket",
        42 => "connect",
        44 => "sendto",
        45 => "recvfrom",
        46 => "sendmsg",
        47 => "recvmsg",
        49 => "bind",
        53 => "socketpair",
        54 => "setsockopt",
        72 => "fcntl",
        73 => "flock",
        74 => "fsync",
        76 => "truncate",
        77 => "ftruncate",
        82 => "rename",
        83 => "mkdir",
        84 => "rmdir",
        87 => "unlink",
        90 => "chmod",
        91 => "fchmod",
        217 => "getdents64",
        232 => "epoll_wait",
        233 => "epoll_ctl",
        257 => "openat",
        262 => "newfstatat",
        263 => "unlinkat",
        281 => "epoll_pwait",
        291 => "epoll_create1",
        202 => "futex",
        230 => "clock_nanosleep",
        228 => "clock_gettime",
        186 => "gettid",
        318 => "getrandom",
        _ => "other",
    }
}

fn read_cstr(pid: i32, addr: u64) -> String {
    let mut out = Vec::new();
    let mut a = addr;
    if addr == 0 {
        return String::new();
    }
    'o: for _ in 0..64 {
        let w = unsafe { libc::ptrace(libc::PTRACE_PEEKDATA, pid, a, 0) };
        let bytes = w.to_ne_bytes();
        for b in bytes {
            if b == 0 {
                break 'o;
            }
            out.push(b);
        }
        a += 8;
    }
    String::from_utf8_lossy(&out).to_string()
}

/// normalise a path to the kind of object: strips the run directory, prefix, ids (long digit/hex runs)
pub fn classify(path: &str, prefix: &str) -> String {
    if path.is_empty() {
        return "-".into();
    }
    let base = path.rsplit('/').next().unwrap_or(path);
    let dir = if path.starts_with("/dev/shm") { "shm:" } else { "" };
    let mut b = base.replace(prefix, "");
    // collapse ids
    let mut out = String::new();
    let mut run = 0;
    for ch in b.drain(..) {
        if ch.is_ascii_hexdigit() {
            run += 1;
            if run <= 3 {
                out.push(ch);
            } else if run == 4 {
                out.truncate(out.len() - 3);
                out.push('#');
            }
        } else {
            run = 0;
            out.push(ch);
        }
    }
    if out.is_empty() || out == "#" {
        // a directory or id-only name: use the parent directory's name as kind
        let parent = path.trim_end_matches('/').rsplit('/').nth(1).unwrap_or("");
        return format!("{}{}/{}", dir, parent, out);
    }
    format!("{}{}", dir, out)
}

fn fd_path(pid: i32, fd: u64) -> String {
    std::fs::read_link(format!("/proc/{}/fd/{}", pid, fd)).map(|p| p.to_string_lossy().to_string()).unwrap_or_default()
}

/// Runs `exe args` under ptrace. `on_stop` is called at each stop inside the scenario.
pub fn run_child(exe: &std::path::Path, args: &[String], envs: &[(&str, String)], prefix: &str, on_stop: &mut dyn FnMut(&Stop) -> Action) -> RunResult {
    let mut cmd = Command::new(exe);
    cmd.args(args).env("IOX2_LOG_LEVEL", "FATAL").stderr(Stdio::null()).stdout(Stdio::piped());
    for (k, v) in envs {
        cmd.env(k, v);
    }
    unsafe {
        cmd.pre_exec(|| {
            libc::ptrace(libc::PTRACE_TRACEME, 0, 0, 0);
            Ok(())
        });
    }
    let mut ch = cmd.spawn().expect("spawn child");
    let pid = ch.id() as i32;
    let mut status = 0i32;
    unsafe {
        libc::waitpid(pid, &mut status, 0);
        libc::ptrace(libc::PTRACE_SETOPTIONS, pid, 0, libc::PTRACE_O_TRACESYSGOOD | libc::PTRACE_O_EXITKILL);
    }
    let (mut entry, mut started, mut phase) = (true, false, 0u32);
    let mut stops: Vec<Stop> = Vec::new();
    let mut killed_at = None;
    let mut exit_code = None;
    loop {
        unsafe {
            libc::ptrace(libc::PTRACE_SYSCALL, pid, 0, 0);
            libc::waitpid(pid, &mut status, 0);
        }
        if libc::WIFEXITED(status) {
            exit_code = Some(libc::WEXITSTATUS(status));
            break;
        }
        if libc::WIFSIGNALED(status) {
            exit_code = Some(-libc::WTERMSIG(status));
            break;
        }
        if libc::WIFSTOPPED(status) && libc::WSTOPSIG(status) == (libc::SIGTRAP | 0x80) {
            if entry {
                let mut regs: libc::user_regs_struct = unsafe { std::mem::zeroed() };
                unsafe { libc::ptrace(libc::PTRACE_GETREGS, pid, 0, &mut regs as *mut _) };
                let nr = regs.orig_rax as i64;
                if nr == libc::SYS_getppid {
                    started = !started;
                } else if nr == libc::SYS_kill && (regs.rdi as u32 & 0xff00_0000) == 0x7f00_0000 {
                    phase = regs.rdi as u32 & 0x00ff_ffff;
                } else if started {
                    let name = sysname(nr);
                    let atomic_marker = nr == libc::SYS_getpid;
                    let path = match nr {
                        257 | 262 | 263 => read_cstr(pid, regs.rsi),
                        87 | 83 | 84 | 90 | 21 | 4 | 76 | 82 => read_cstr(pid, regs.rdi),
                        3 | 5 | 72 | 73 | 74 | 77 | 91 | 0 | 1 | 17 | 18 | 8 | 217 | 44 | 45 | 46 | 47 => fd_path(pid, regs.rdi),
                        9 => {
                            if (regs.r8 as i64) >= 0 { fd_path(pid, regs.r8) } else { String::new() }
                        }
                        _ => String::new(),
                    };
                    // pure reads of the clock, futex waits of the allocator etc. are not state changes
                    let skip = matches!(nr, 228 | 186 | 318 | 202 | 10 | 13 | 14) || (nr == 9 && path.is_empty()) || (nr == 11) || (name == "other");
                    if !skip {
                        let st = Stop { k: stops.len() + 1, nr, name, obj: if atomic_marker { "atomic-write".into() } else { classify(&path, prefix) }, phase, atomic_marker };
                        stops.push(st.clone());
                        match on_stop(&st) {
                            Action::Continue => {}
                            Action::Kill => {
                                unsafe {
                                    libc::kill(pid, libc::SIGKILL);
                                    libc::waitpid(pid, &mut status, 0);
                                }
                                killed_at = Some(st);
                                break;
                            }
                        }
                    }
                }
            }
            entry = !entry;
        } else if libc::WIFSTOPPED(status) {
            // forward other signals
            let sig = libc::WSTOPSIG(status);
            unsafe {
                libc::ptrace(libc::PTRACE_SYSCALL, pid, 0, sig);
                libc::waitpid(pid, &mut status, 0);
            }
            if libc::WIFEXITED(status) || libc::WIFSIGNALED(status) {
                break;
            }
        }
    }
    let mut stdout = String::new();
    if let Some(mut o) = ch.stdout.take() {
        use std::io::Read;
        let _ = o.read_to_string(&mut stdout);
    }
    let _ = ch.wait();
    RunResult { stops, killed_at, exit_code, stdout }
}

/// Runs a helper process (survivor, observer, cleaner) with a watchdog; returns (stdout, timed_out, exit code)
pub fn run_helper(exe: &std::path::Path, args: &[String], timeout_ms: u64) -> (String, bool, i32) {
    let mut ch = Command::new(exe).args(args).env("IOX2_LOG_LEVEL", "FATAL").stderr(Stdio::null()).stdout(Stdio::piped()).spawn().expect("spawn helper");
    let t0 = std::time::Instant::now();
    loop {
        match ch.try_wait() {
            Ok(Some(st)) => {
                let mut out = String::new();
                if let Some(mut o) = ch.stdout.take() {
                    use std::io::Read;
                    let _ = o.read_to_string(&mut out);
                }
                return (out, false, st.code().unwrap_or(-1));
            }
            Ok(None) => {
                if t0.elapsed().as_millis() as u64 > timeout_ms {
                    let _ = ch.kill();
                    let _ = ch.wait();
                    let mut out = String::new();
                    if let Some(mut o) = ch.stdout.take() {
                        use std::io::Read;
                        let _ = o.read_to_string(&mut out);
                    }
                    return (out, true, -1);
                }
                std::thread::sleep(std::time::Duration::from_micros(300));
            }
            Err(_) => return (String::new(), false, -1),
        }
    }
}
