//! C07 — liveness verdicts are sound and stale cleanup is exclusive.
//!  (a) owner held: the monitored process is stopped (alive) before each of its system calls of node
//!      create + drop; an observer in another process must never see it Dead
//!  (b) observer held: the observer is stopped before each system call of its own `Node::list` while the
//!      live owner performs its complete orderly node drop; the verdict must not be Dead
//!  (c) cleaner races: several cleaner processes released at once on one dead node: exactly one performs
//!      the cleanup; a cleaner killed at each of its steps leaves the node collectable
use crate::c04::{dirs, parse_kv};
use crate::scen::{config, listing, marker, remove_all};
use crate::step::{self, Action, Stop};
use iceoryx2::node::NodeState;
use iceoryx2::prelude::*;
use vkit::{Args, Json, Report};

fn wait_for(path: &str, ms: u64) -> bool {
    let t0 = std::time::Instant::now();
    while !std::path::Path::new(path).exists() {
        if t0.elapsed().as_millis() as u64 > ms {
            return false;
        }
        std::thread::sleep(std::time::Duration::from_micros(200));
    }
    true
}

/// helper process: prints the verdict of Node::list for every node of the domain
pub fn observer(root: &str, prefix: &str) {
    let cfg = config(root, prefix);
    marker();
    let mut v = Vec::new();
    let r = Node::<ipc::Service>::list(&cfg, |st| {
        v.push(match st {
            NodeState::Alive(_) => "Alive",
            NodeState::Dead(_) => "DEAD",
            NodeState::Inaccessible(_) => "Inaccessible",
            NodeState::Undefined(_) => "Undefined",
        });
        CallbackProgression::Continue
    });
    marker();
    println!("verdict={}", if r.is_err() { format!("ListErr({:?})", r.err()) } else if v.is_empty() { "absent".to_string() } else { v.join(",") });
}

/// helper process: a live owner that drops its node on command and stays alive afterwards
pub fn owner(root: &str, prefix: &str, flag: &str) {
    let cfg = config(root, prefix);
    let node = NodeBuilder::new().config(&cfg).create::<ipc::Service>().unwrap();
    std::fs::write(format!("{flag}.ready"), b"x").unwrap();
    if !wait_for(&format!("{flag}.go"), 20_000) {
        return;
    }
    drop(node);
    std::fs::write(format!("{flag}.done"), b"x").unwrap();
    std::thread::sleep(std::time::Duration::from_millis(1500));
}

/// helper process: creates a node and waits to be killed
pub fn victim(root: &str, prefix: &str, flag: &str) {
    let cfg = config(root, prefix);
    let node = NodeBuilder::new().config(&cfg).create::<ipc::Service>().unwrap();
    let svc = node.service_builder(&"c07svc".try_into().unwrap()).publish_subscribe::<u64>().open_or_create().unwrap();
    let _p = svc.publisher_builder().create().unwrap();
    std::fs::write(format!("{flag}.ready"), b"x").unwrap();
    std::thread::sleep(std::time::Duration::from_secs(30));
}

/// helper process: waits for the barrier file, then cleans every dead node it sees
pub fn cleaner(root: &str, prefix: &str, flag: &str) {
    let cfg = config(root, prefix);
    if !flag.is_empty() {
        wait_for(&format!("{flag}.go"), 20_000);
    }
    marker();
    let mut out = Vec::new();
    let r = Node::<ipc::Service>::list(&cfg, |st| {
        match st {
            NodeState::Dead(v) => out.push(format!("{:?}", v.try_remove_stale_resources())),
            NodeState::Alive(_) => out.push("SawAlive".into()),
            _ => out.push("SawOther".into()),
        }
        CallbackProgression::Continue
    });
    marker();
    println!("result={}", if r.is_err() { format!("ListErr({:?})", r.err()) } else if out.is_empty() { "absent".to_string() } else { out.join(",") });
}

fn verdict_of(out: &str) -> String {
    parse_kv(out).get("verdict").map(|v| v.join(";")).unwrap_or_else(|| "no-output".into())
}

pub fn run(args: &Args) -> Report {
    let exe = std::env::current_exe().unwrap();
    let shard = args.usize("shard", 0);
    let nshards = args.usize("nshards", 1);
    let stride = args.usize("stride", 1);
    let seed = args.u64("seed", 1) as usize;
    let part = args.str("part", "all");
    let mut rep = Report::new();
    rep.max_samples = 4;
    let take = |k: usize| k % nshards == shard && (k / nshards) % stride == seed % stride;

    // ---------------- (a) owner held ----------------
    if part == "all" || part == "owner" {
        let (root, prefix) = dirs("c7a", shard);
        let mut rows: Vec<(usize, String, String)> = Vec::new();
        let (root2, prefix2) = (root.clone(), prefix.clone());
        let exe2 = exe.clone();
        let r = step::run_child(&exe, &["child".into(), "node".into(), root.clone(), prefix.clone()], &[], &prefix, &mut |s: &Stop| {
            if take(s.k) {
                let (out, timed_out, _) = step::run_helper(&exe2, &["observer".into(), root2.clone(), prefix2.clone()], 5000);
                rows.push((s.k, format!("{} phase {}", s.descriptor(), crate::scen::phase_name("node", s.phase)), if timed_out { "observer-timeout".into() } else { verdict_of(&out) }));
            }
            Action::Continue
        });
        remove_all(&root, &prefix);
        rep.count("owner_held_stops_total", r.stops.len() as u64);
        let mut transitions = Vec::new();
        let mut last = String::new();
        for (k, desc, verdict) in &rows {
            rep.execs += 1;
            rep.count("owner_held_queries", 1);
            rep.count(&format!("owner_held_verdict_{}", verdict.split('(').next().unwrap()), 1);
            if *verdict != "absent" {
                rep.nontrivial += 1;
                rep.distinct(vkit::fnv_str(&format!("a{}{}", k, desc)));
            } else {
                rep.distinct(vkit::fnv_str(&format!("a{}{}", k, desc)));
            }
            if *verdict != last {
                transitions.push(format!("k{} before {} -> {}", k, desc, verdict));
                last = verdict.clone();
            }
            if verdict.contains("DEAD") {
                rep.violation("dead_verdict_on_live_node", "C07:owner_held:node_list:dead_verdict_on_live_node", format!("Node::list reported DEAD while the process was alive (held before its stop k={} {})", k, desc), Json::obj().set("k", *k));
            } else if verdict.contains("timeout") || verdict.contains("ListErr") || verdict.contains("no-output") {
                rep.violation("observer_failed", format!("C07:owner_held:node_list:{}", verdict.split('(').next().unwrap()), format!("observer failed ({}) while the owner was held before k={} {}", verdict, k, desc), Json::obj().set("k", *k));
            }
        }
        rep.sample(Json::obj().set("sweep", "owner held at each stop of node create+drop, verdict transitions").set("transitions", transitions.join("; ")));
    }

    // ---------------- (b) observer held ----------------
    if part == "all" || part == "observer" {
        // how many stops does the observer's Node::list make when one node exists?
        let trial_b = |k: usize| -> (String, String, usize) {
            let (root, prefix) = dirs("c7b", (k % 100_000) * 100 + shard);
            let flag = format!("{root}/flag");
            let mut own = std::process::Command::new(&exe).args(["owner", &root, &prefix, &flag]).env("IOX2_LOG_LEVEL", "FATAL").stderr(std::process::Stdio::null()).stdout(std::process::Stdio::null()).spawn().unwrap();
            if !wait_for(&format!("{flag}.ready"), 10_000) {
                let _ = own.kill();
                let _ = own.wait();
                remove_all(&root, &prefix);
                return ("owner-not-ready".into(), String::new(), 0);
            }
            let mut held_at = String::new();
            let mut opened = 0usize;
            let r = step::run_child(&exe, &["observer".into(), root.clone(), prefix.clone()], &[], &prefix, &mut |s: &Stop| {
                if s.k < k && s.name.starts_with("open") && s.obj.contains("node_monitor") {
                    opened += 1;
                }
                if s.k == k {
                    // how many of the node's monitoring files the observer had asked to open before it was held
                    held_at = format!("{} [monitor files opened before: {}]", s.descriptor(), opened);
                    std::fs::write(format!("{flag}.go"), b"x").unwrap();
                    wait_for(&format!("{flag}.done"), 10_000);
                }
                Action::Continue
            });
            let owner_alive = own.try_wait().ok().flatten().is_none();
            let _ = own.kill();
            let _ = own.wait();
            remove_all(&root, &prefix);
            (format!("{}{}", verdict_of(&r.stdout), if owner_alive { "" } else { " (owner exited early)" }), held_at, r.stops.len())
        };
        let (_, _, total) = trial_b(usize::MAX);
        rep.count("observer_stops_total", total as u64);
        let mut dead_points = Vec::new();
        let mut early_dead: Vec<String> = Vec::new();
        let mut table = Vec::new();
        for k in 1..=total {
            if !take(k) {
                continue;
            }
            let (verdict, at, _) = trial_b(k);
            rep.execs += 1;
            rep.nontrivial += 1;
            rep.distinct(vkit::fnv_str(&format!("b{}{}", k, at)));
            rep.count("observer_held_trials", 1);
            rep.count(&format!("observer_held_verdict_{}", verdict.split(|c| c == '(' || c == ' ').next().unwrap()), 1);
            table.push(format!("k{} {} -> {}", k, at, verdict));
            if verdict.contains("DEAD") {
                if at.contains("opened before: 0]") {
                    // the observer had not touched any monitoring file of the node when the owner's complete drop ran:
                    // the known root cause (lock state read from files opened before the drop) cannot explain this
                    early_dead.push(format!("k{} before {}", k, at));
                } else {
                    dead_points.push(format!("k{} before {}", k, at));
                }
            } else if verdict.contains("early") || verdict.contains("no-output") || verdict.contains("not-ready") {
                rep.inconclusive += 1;
            }
        }
        if !dead_points.is_empty() {
            rep.violation(
                "dead_verdict_on_live_node",
                "C07:observer_held:node_list:dead_verdict_on_live_node",
                format!("Node::list reported DEAD for a node whose process is alive and merely dropping its node; observer held at: {}", dead_points.join(", ")),
                Json::obj().set("hold_points", dead_points.clone()),
            );
        }
        if !early_dead.is_empty() {
            rep.violation(
                "dead_verdict_on_live_node",
                "C07:observer_held:node_list:dead_verdict_before_any_monitor_file_was_opened",
                format!("Node::list reported DEAD for a live process whose orderly node drop completed before the observer had opened any of its monitoring files; observer held at: {}", early_dead.join(", ")),
                Json::obj().set("hold_points", early_dead.clone()),
            );
        }
        rep.count("observer_held_dead_after_monitor_open", dead_points.len() as u64);
        rep.count("observer_held_dead_before_monitor_open", early_dead.len() as u64);
        rep.sample(Json::obj().set("sweep", "observer held before each of its stops while the live owner drops its node").set("table", table.join("; ")));
    }

    // ---------------- (c) cleaner races ----------------
    if part == "all" || part == "cleaners" {
        let make_dead = |tag: usize| -> Option<(String, String)> {
            let (root, prefix) = dirs("c7c", tag * 100 + shard);
            let flag = format!("{root}/flag");
            let mut v = std::process::Command::new(&exe).args(["victim", &root, &prefix, &flag]).env("IOX2_LOG_LEVEL", "FATAL").stderr(std::process::Stdio::null()).stdout(std::process::Stdio::null()).spawn().unwrap();
            let ok = wait_for(&format!("{flag}.ready"), 10_000);
            let _ = v.kill();
            let _ = v.wait();
            if !ok {
                remove_all(&root, &prefix);
                return None;
            }
            Some((root, prefix))
        };
        let rounds = args.usize("cleaner-rounds", 6);
        for round in 0..rounds {
            if round % nshards != shard % nshards.max(1) && nshards > 1 && round >= nshards {
                // spread rounds over shards
            }
            let n = 2 + (round + seed) % 3;
            let Some((root, prefix)) = make_dead(round) else {
                rep.inconclusive += 1;
                continue;
            };
            let flag = format!("{root}/flag");
            let kids: Vec<_> = (0..n).map(|_| std::process::Command::new(&exe).args(["cleaner", &root, &prefix, &flag]).env("IOX2_LOG_LEVEL", "FATAL").stderr(std::process::Stdio::null()).stdout(std::process::Stdio::piped()).spawn().unwrap()).collect();
            std::thread::sleep(std::time::Duration::from_millis(30));
            std::fs::write(format!("{flag}.go"), b"x").unwrap();
            let mut results = Vec::new();
            for k in kids {
                let o = k.wait_with_output().unwrap();
                let out = String::from_utf8_lossy(&o.stdout).to_string();
                results.push(parse_kv(&out).get("result").map(|v| v.join(";")).unwrap_or_else(|| "no-output".into()));
            }
            rep.execs += 1;
            rep.nontrivial += 1;
            rep.distinct(vkit::fnv_str(&format!("c{}{:?}", round, results)));
            rep.count("cleaner_race_rounds", 1);
            let oks = results.iter().filter(|r| r.contains("Ok(())")).count();
            for r in &results {
                rep.count(&format!("cleaner_result_{}", r.split('(').next().unwrap()), 1);
            }
            let _ = std::fs::remove_file(format!("{flag}.go"));
            let _ = std::fs::remove_file(format!("{flag}.ready"));
            let rest = listing(&root, &prefix);
            if oks != 1 {
                rep.violation("cleanup_not_exclusive", format!("C07:cleaners:race:{}_successes", if oks == 0 { "zero" } else { "several" }), format!("{} concurrent cleaners on one dead node reported {:?}", n, results), Json::obj().set("results", results.clone()));
            } else if results.iter().any(|r| !(r.contains("Ok(())") || r.contains("AnotherInstanceIsCleaningUpTheNode") || r.contains("ResourcesAlreadyCleanedUp") || r == "absent")) {
                rep.violation("cleanup_wrong_error", "C07:cleaners:race:undocumented_result", format!("cleaners reported {:?}", results), Json::obj().set("results", results.clone()));
            } else if !rest.is_empty() {
                rep.violation("residue_after_exclusive_cleanup", "C07:cleaners:race:residue", format!("after one cleaner succeeded these files remain: {:?}", &rest[..rest.len().min(6)]), Json::obj());
            }
            if round == 0 {
                rep.sample(Json::obj().set("sweep", "cleaner race").set("cleaners", n).set("results", results));
            }
            remove_all(&root, &prefix);
        }
        // a cleaner that dies at each of its stops must leave the node collectable by the next cleaner
        let Some((root0, prefix0)) = make_dead(9000) else { return rep };
        let dry = step::run_child(&exe, &["cleaner".into(), root0.clone(), prefix0.clone(), String::new()], &[], &prefix0, &mut |_| Action::Continue);
        remove_all(&root0, &prefix0);
        let total = dry.stops.len();
        rep.count("cleaner_stops_total", total as u64);
        for k in 1..=total {
            if !take(k) {
                continue;
            }
            let Some((root, prefix)) = make_dead(10_000 + k) else {
                rep.inconclusive += 1;
                continue;
            };
            let _ = std::fs::remove_file(format!("{root}/flag.ready"));
            let r = step::run_child(&exe, &["cleaner".into(), root.clone(), prefix.clone(), String::new()], &[], &prefix, &mut |s: &Stop| if s.k == k { Action::Kill } else { Action::Continue });
            let Some(stop) = r.killed_at else {
                remove_all(&root, &prefix);
                continue;
            };
            let (out, timed_out, _) = step::run_helper(&exe, &["cleaner".into(), root.clone(), prefix.clone(), String::new()], 6000);
            let res = parse_kv(&out).get("result").map(|v| v.join(";")).unwrap_or_else(|| "no-output".into());
            let (out2, _, _) = step::run_helper(&exe, &["observer".into(), root.clone(), prefix.clone()], 5000);
            let rest = listing(&root, &prefix);
            rep.execs += 1;
            rep.nontrivial += 1;
            rep.distinct(vkit::fnv_str(&format!("d{}{}", k, stop.descriptor())));
            rep.count("cleaner_killed_trials", 1);
            let class = if timed_out {
                Some("second_cleaner_hangs".to_string())
            } else if verdict_of(&out2).contains("DEAD") {
                Some(format!("node_stays_dead_and_uncollectable_{}", res.split('(').nth(1).map(|x| x.trim_end_matches(')')).unwrap_or(&res)))
            } else if !rest.is_empty() {
                Some("residue_after_second_cleaner".to_string())
            } else {
                None
            };
            if let Some(c) = class {
                rep.count(&format!("cleaner_killed_outcome_{}", c.split('_').take(3).collect::<Vec<_>>().join("_")), 1);
                rep.violation(&c, format!("C07:cleaners:killed_cleaner:{}", c), format!("first cleaner killed before its stop k={} {}; second cleaner: {}; verdict afterwards {}; files left {}", k, stop.descriptor(), res, verdict_of(&out2), rest.len()), Json::obj().set("k", k).set("stop", stop.descriptor()));
            } else {
                rep.count("cleaner_killed_outcome_clean", 1);
            }
            remove_all(&root, &prefix);
        }
    }
    rep
}
