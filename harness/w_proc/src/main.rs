//! Process-level workers: ptrace stepper, crash-point enumeration (C04), liveness verdicts (C07).
mod c04;
mod c07;
mod c19;
mod scen;
mod step;
mod surv;

fn main() {
    let raw: Vec<String> = std::env::args().collect();
    iceoryx2_log::set_log_level(iceoryx2_log::LogLevel::Fatal);
    match raw.get(1).map(|s| s.as_str()) {
        Some("child") => return scen::child(&raw[2], &raw[3], &raw[4]),
        Some("survivor") => return surv::solo(&raw[2], &raw[3], &raw[4]),
        Some("holder") => return surv::holder(&raw[2], &raw[3], &raw[4]),
        Some("cleaner1") => return surv::cleaner1(&raw[2], &raw[3]),
        Some("lister") => return c19::lister(&raw[2], &raw[3]),
        Some("observer") => return c07::observer(&raw[2], &raw[3]),
        Some("owner") => return c07::owner(&raw[2], &raw[3], &raw[4]),
        Some("victim") => return c07::victim(&raw[2], &raw[3], &raw[4]),
        Some("cleaner") => return c07::cleaner(&raw[2], &raw[3], raw.get(4).map(|s| s.as_str()).unwrap_or("")),
        _ => {}
    }
    let args = vkit::Args::parse();
    let rep = match args.sub.as_str() {
        "c04" => c04::run(&args),
        "c07" => c07::run(&args),
        "c19iso" => c19::run(&args),
        "warmup" => return,
        other => {
            eprintln!("unknown sub command {:?}", other);
            std::process::exit(2);
        }
    };
    rep.emit();
}
