//! Scenario children (the processes that get killed or held) and shared helpers.
use iceoryx2::prelude::*;
use iceoryx2_bb_container::semantic_string::SemanticString;
use iceoryx2_bb_system_types::file_name::FileName;
use iceoryx2_bb_system_types::path::Path;

pub fn config(root: &str, prefix: &str) -> Config {
    let mut c = Config::default();
    c.global.set_root_path(&Path::new(root.as_bytes()).unwrap());
    c.global.prefix = FileName::new(prefix.as_bytes()).unwrap();
    // cleanup is driven explicitly by the survivor script
    c.global.node.cleanup_dead_nodes_on_creation = false;
    c.global.node.cleanup_dead_nodes_on_destruction = false;
    c.global.creation_timeout = core::time::Duration::from_millis(200);
    c
}

pub fn marker() {
    unsafe { libc::getppid() };
}
pub fn phase(p: u32) {
    unsafe { libc::kill((0x7f00_0000u32 | p) as i32, 0) };
}

pub const SCENARIOS: [&str; 10] = ["node", "pubsub", "pubsub_dyn", "event", "reqres", "blackboard", "pubsub_shared", "reqres_shared", "event_shared", "blackboard_shared"];

pub fn phase_name(scenario: &str, p: u32) -> &'static str {
    let names: &[&'static str] = match scenario {
        "node" => &["-", "node_create", "node_drop"],
        "pubsub" | "pubsub_shared" => &["-", "node_create", "service_open_or_create", "publisher_create", "subscriber_create", "send", "receive", "subscriber_drop", "publisher_drop", "service_drop", "node_drop"],
        "pubsub_dyn" => &["-", "node_create", "service_open_or_create", "publisher_create", "subscriber_create", "send", "receive", "grow_send", "grow_receive", "subscriber_drop", "publisher_drop", "service_drop", "node_drop"],
        "blackboard_shared" => &["-", "node_create", "service_open", "writer_create", "reader_create", "update", "read", "ports_drop", "service_drop", "node_drop"],
        "event" | "event_shared" => &["-", "node_create", "service_open_or_create", "notifier_create", "listener_create", "notify", "wait", "listener_drop", "notifier_drop", "service_drop", "node_drop"],
        "reqres" | "reqres_shared" => &["-", "node_create", "service_open_or_create", "server_create", "client_create", "request_send", "request_receive", "response_send", "response_receive", "ports_drop", "service_drop", "node_drop"],
        "blackboard" => &["-", "node_create", "service_create", "writer_create", "reader_create", "update", "read", "ports_drop", "service_drop", "node_drop"],
        _ => &["-"],
    };
    names.get(p as usize).copied().unwrap_or("?")
}

pub const SVC: &str = "crash_svc";

/// the child scenario; `shared` scenarios open the service a survivor process created before
pub fn child(scenario: &str, root: &str, prefix: &str) {
    if std::env::var("IOX2_VERIF_MARK").is_ok() {
        vkit::sched::install_marker_hook();
    }
    let cfg = config(root, prefix);
    let name: ServiceName = SVC.try_into().unwrap();
    marker();
    phase(1);
    let node = NodeBuilder::new().config(&cfg).create::<ipc::Service>().unwrap();
    match scenario {
        "node" => {
            phase(2);
            drop(node);
        }
        "pubsub" | "pubsub_shared" => {
            phase(2);
            let svc = node.service_builder(&name).publish_subscribe::<u64>().history_size(1).subscriber_max_buffer_size(2).max_publishers(2).max_subscribers(2).max_nodes(4).open_or_create().unwrap();
            phase(3);
            let p = svc.publisher_builder().create().unwrap();
            phase(4);
            let s = svc.subscriber_builder().create().unwrap();
            phase(5);
            p.send_copy(7).unwrap();
            p.send_copy(8).unwrap();
            phase(6);
            let x = s.receive().unwrap();
            phase(7);
            drop(x);
            drop(s);
            phase(8);
            drop(p);
            phase(9);
            drop(svc);
            phase(10);
            drop(node);
        }
        "pubsub_dyn" => {
            use iceoryx2::prelude::AllocationStrategy;
            phase(2);
            let svc = node.service_builder(&name).publish_subscribe::<[u8]>().history_size(1).subscriber_max_buffer_size(3).subscriber_max_borrowed_samples(3).max_publishers(2).max_subscribers(2).max_nodes(4).open_or_create().unwrap();
            phase(3);
            let p = svc.publisher_builder().initial_max_slice_len(8).allocation_strategy(AllocationStrategy::PowerOfTwo).create().unwrap();
            phase(4);
            let s = svc.subscriber_builder().create().unwrap();
            phase(5);
            let send = |len: usize, v: u8| {
                let l = p.loan_slice_uninit(len).unwrap();
                let l = l.write_from_fn(|_| v);
                l.send().unwrap();
            };
            send(8, 1);
            phase(6);
            let x1 = s.receive().unwrap().unwrap();
            phase(7);
            // two growth steps while the subscriber still holds a sample of the first segment
            send(100, 2);
            send(3000, 3);
            phase(8);
            let x2 = s.receive().unwrap().unwrap();
            let x3 = s.receive().unwrap().unwrap();
            assert!(x1.iter().all(|b| *b == 1) && x2.iter().all(|b| *b == 2) && x3.iter().all(|b| *b == 3) && x3.len() == 3000);
            phase(9);
            drop(x1);
            drop(x2);
            drop(x3);
            drop(s);
            phase(10);
            drop(p);
            phase(11);
            drop(svc);
            phase(12);
            drop(node);
        }
        "blackboard_shared" => {
            phase(2);
            let svc = node.service_builder(&name).blackboard_opener::<u64>().open().unwrap();
            phase(3);
            let w = svc.writer_builder().create().unwrap();
            phase(4);
            let r = svc.reader_builder().create().unwrap();
            phase(5);
            let h = w.entry::<u64>(&1).unwrap();
            h.update_with_copy(101);
            phase(6);
            let rh = r.entry::<u64>(&1).unwrap();
            let _ = rh.get();
            phase(7);
            drop(rh);
            drop(h);
            drop(r);
            drop(w);
            phase(8);
            drop(svc);
            phase(9);
            drop(node);
        }
        "event" | "event_shared" => {
            phase(2);
            let svc = node.service_builder(&name).event().max_nodes(4).max_notifiers(2).max_listeners(2).open_or_create().unwrap();
            phase(3);
            let n = svc.notifier_builder().create().unwrap();
            phase(4);
            let l = svc.listener_builder().create().unwrap();
            phase(5);
            n.notify_with_custom_event_id(EventId::new(3)).unwrap();
            phase(6);
            let _ = l.try_wait(|_| {}).unwrap();
            phase(7);
            drop(l);
            phase(8);
            drop(n);
            phase(9);
            drop(svc);
            phase(10);
            drop(node);
        }
        "reqres" | "reqres_shared" => {
            phase(2);
            let svc = node.service_builder(&name).request_response::<u64, u64>().max_clients(2).max_servers(2).max_nodes(4).open_or_create().unwrap();
            phase(3);
            let server = svc.server_builder().create().unwrap();
            phase(4);
            let client = svc.client_builder().create().unwrap();
            phase(5);
            let pending = client.send_copy(11).unwrap();
            phase(6);
            let active = server.receive().unwrap().unwrap();
            phase(7);
            active.send_copy(12).unwrap();
            phase(8);
            let r = pending.receive().unwrap();
            phase(9);
            drop(r);
            drop(active);
            drop(pending);
            drop(client);
            drop(server);
            phase(10);
            drop(svc);
            phase(11);
            drop(node);
        }
        "blackboard" => {
            phase(2);
            let svc = node.service_builder(&name).blackboard_creator::<u64>().add::<u64>(1, 100).add::<[u8; 40]>(2, [7; 40]).max_nodes(4).max_readers(2).create().unwrap();
            phase(3);
            let w = svc.writer_builder().create().unwrap();
            phase(4);
            let r = svc.reader_builder().create().unwrap();
            phase(5);
            let h = w.entry::<u64>(&1).unwrap();
            h.update_with_copy(101);
            phase(6);
            let rh = r.entry::<u64>(&1).unwrap();
            let _ = rh.get();
            phase(7);
            drop(rh);
            drop(h);
            drop(r);
            drop(w);
            phase(8);
            drop(svc);
            phase(9);
            drop(node);
        }
        _ => panic!("unknown scenario"),
    }
    marker();
}

pub fn listing(root: &str, prefix: &str) -> Vec<String> {
    let mut v = Vec::new();
    fn walk(d: &std::path::Path, v: &mut Vec<String>, depth: usize) {
        if let Ok(rd) = std::fs::read_dir(d) {
            for e in rd.flatten() {
                let p = e.path();
                if p.is_dir() {
                    // directories below the domain-wide ones (root/nodes, root/services) belong to one node
                    if depth >= 1 {
                        v.push(format!("{}/", p.display()));
                    }
                    walk(&p, v, depth + 1);
                } else {
                    v.push(p.display().to_string());
                }
            }
        }
    }
    walk(std::path::Path::new(root), &mut v, 0);
    if let Ok(rd) = std::fs::read_dir("/dev/shm") {
        for e in rd.flatten() {
            let n = e.file_name().to_string_lossy().to_string();
            if n.starts_with(prefix) {
                v.push(format!("/dev/shm/{}", n));
            }
        }
    }
    v.retain(|f| !f.contains("global_mgmt") && !f.contains("/flag"));
    v.sort();
    v
}

pub fn remove_all(root: &str, prefix: &str) {
    let _ = std::fs::remove_dir_all(root);
    if let Ok(rd) = std::fs::read_dir("/dev/shm") {
        for e in rd.flatten() {
            if e.file_name().to_string_lossy().starts_with(prefix) {
                let _ = std::fs::remove_file(e.path());
            }
        }
    }
}
