//! Survivor processes: the post-mortem script that runs after a child was killed.
//! Every step prints one `key=value` line so the driver sees how far the survivor got even when
//! it hangs or dies.
use crate::scen::{config, listing, SVC};
use iceoryx2::node::NodeState;
use iceoryx2::prelude::*;
use std::io::Write;

fn say(k: &str, v: impl std::fmt::Display) {
    println!("{}={}", k, v);
    let _ = std::io::stdout().flush();
}

pub fn list_states(cfg: &Config) -> (String, Vec<String>) {
    let mut states = Vec::new();
    let mut cleanup = Vec::new();
    let r = Node::<ipc::Service>::list(cfg, |st| {
        match st {
            NodeState::Alive(_) => states.push("Alive"),
            NodeState::Dead(v) => {
                states.push("Dead");
                cleanup.push(format!("{:?}", v.try_remove_stale_resources()));
            }
            NodeState::Inaccessible(_) => states.push("Inaccessible"),
            NodeState::Undefined(_) => states.push("Undefined"),
        }
        CallbackProgression::Continue
    });
    (format!("{}:{}", if r.is_ok() { "ok" } else { "err" }, states.join(",")), cleanup)
}

/// usability probe: the name must be creatable again with *different* settings and work end to end
fn usability(cfg: &Config, scenario: &str) -> String {
    let node = match NodeBuilder::new().config(cfg).create::<ipc::Service>() {
        Ok(n) => n,
        Err(e) => return format!("node_create_failed:{:?}", e),
    };
    let name: ServiceName = SVC.try_into().unwrap();
    let r = match scenario {
        "node" => "ok".to_string(),
        "pubsub" => match node.service_builder(&name).publish_subscribe::<u64>().history_size(0).subscriber_max_buffer_size(5).max_publishers(3).create() {
            Ok(svc) => {
                let p = svc.publisher_builder().create();
                let s = svc.subscriber_builder().create();
                match (p, s) {
                    (Ok(p), Ok(s)) => {
                        let mut ok = true;
                        for i in 0..3u64 {
                            ok &= p.send_copy(1000 + i) == Ok(1);
                        }
                        for i in 0..3u64 {
                            ok &= s.receive().ok().flatten().map(|x| *x) == Some(1000 + i);
                        }
                        if ok { "ok".into() } else { "traffic_failed".into() }
                    }
                    (p, s) => format!("port_create_failed:{:?}/{:?}", p.err(), s.err()),
                }
            }
            Err(e) => format!("service_create_failed:{:?}", e),
        },
        "event" => match node.service_builder(&name).event().max_listeners(3).create() {
            Ok(svc) => {
                let n = svc.notifier_builder().create();
                let l = svc.listener_builder().create();
                match (n, l) {
                    (Ok(n), Ok(l)) => {
                        let a = n.notify_with_custom_event_id(EventId::new(2)).is_ok();
                        let mut got = Vec::new();
                        let _ = l.try_wait(|a| got.push(a.id));
                        let b = got == vec![EventId::new(2)];
                        if a && b { "ok".into() } else { "traffic_failed".into() }
                    }
                    (n, l) => format!("port_create_failed:{:?}/{:?}", n.err(), l.err()),
                }
            }
            Err(e) => format!("service_create_failed:{:?}", e),
        },
        "reqres" => match node.service_builder(&name).request_response::<u64, u64>().max_clients(3).create() {
            Ok(svc) => {
                let server = svc.server_builder().create();
                let client = svc.client_builder().create();
                match (server, client) {
                    (Ok(server), Ok(client)) => {
                        let p = client.send_copy(5);
                        let a = server.receive().ok().flatten();
                        let ok = match (p, a) {
                            (Ok(p), Some(a)) => a.send_copy(6).is_ok() && p.receive().ok().flatten().map(|x| *x) == Some(6),
                            _ => false,
                        };
                        if ok { "ok".into() } else { "traffic_failed".into() }
                    }
                    (s, c) => format!("port_create_failed:{:?}/{:?}", s.err(), c.err()),
                }
            }
            Err(e) => format!("service_create_failed:{:?}", e),
        },
        "blackboard" => match node.service_builder(&name).blackboard_creator::<u64>().add::<u32>(9, 1).create() {
            Ok(svc) => {
                let w = svc.writer_builder().create();
                let r = svc.reader_builder().create();
                match (w, r) {
                    (Ok(w), Ok(r)) => {
                        let ok = match (w.entry::<u32>(&9), r.entry::<u32>(&9)) {
                            (Ok(h), Ok(rh)) => {
                                h.update_with_copy(77);
                                *rh.get() == 77
                            }
                            _ => false,
                        };
                        if ok { "ok".into() } else { "traffic_failed".into() }
                    }
                    (w, r) => format!("port_create_failed:{:?}/{:?}", w.err(), r.err()),
                }
            }
            Err(e) => format!("service_create_failed:{:?}", e),
        },
        _ => "ok".into(),
    };
    r
}

/// solo survivor: started after the kill; list -> cleanup -> list -> residue -> usability -> residue
pub fn solo(scenario: &str, root: &str, prefix: &str) {
    let cfg = config(root, prefix);
    say("step", "start");
    let (states, cleanup) = list_states(&cfg);
    say("list1", &states);
    say("cleanup", cleanup.join(";"));
    let (states2, cleanup2) = list_states(&cfg);
    say("list2", &states2);
    say("cleanup2", cleanup2.join(";"));
    let rest = listing(root, prefix);
    say("residue_after_cleanup", rest.len());
    for f in rest.iter().take(8) {
        say("residue_file", f);
    }
    let exists = match scenario {
        "pubsub" => format!("{:?}", ipc::Service::does_exist(&SVC.try_into().unwrap(), &cfg, MessagingPattern::PublishSubscribe)),
        "event" => format!("{:?}", ipc::Service::does_exist(&SVC.try_into().unwrap(), &cfg, MessagingPattern::Event)),
        "reqres" => format!("{:?}", ipc::Service::does_exist(&SVC.try_into().unwrap(), &cfg, MessagingPattern::RequestResponse)),
        "blackboard" => format!("{:?}", ipc::Service::does_exist(&SVC.try_into().unwrap(), &cfg, MessagingPattern::Blackboard)),
        _ => "Ok(false)".into(),
    };
    say("service_exists_after_cleanup", exists);
    say("usability", usability(&cfg, scenario));
    let rest = listing(root, prefix);
    say("residue_final", rest.len());
    for f in rest.iter().take(8) {
        say("residue_final_file", f);
    }
    say("step", "done");
}
