//! Survivor processes: the post-mortem script that runs after a child was killed.
//! Every step prints one `key=value` line so the driver sees how far the survivor got even when
//! it hangs or dies.
use crate::scen::{config, listing, SVC};
use iceoryx2::node::NodeState;
use iceoryx2::port::update_connections::UpdateConnections;
use iceoryx2::prelude::*;
use std::io::Write;

fn say(k: &str, v: impl std::fmt::Display) {
    println!("{}={}", k, v);
    let _ = std::io::stdout().flush();
}

pub fn list_states(cfg: &Config) -> (String, Vec<String>) {
    let mut states = Vec::new();
    let mut cleanup = Vec::new();
    let r = Node::<ipc::Service>::list(cfg, |st| {
        match st {
            NodeState::Alive(_) => states.push("Alive"),
            NodeState::Dead(v) => {
                states.push("Dead");
                cleanup.push(format!("{:?}", v.try_remove_stale_resources()));
            }
            NodeState::Inaccessible(_) => states.push("Inaccessible"),
            NodeState::Undefined(_) => states.push("Undefined"),
        }
        CallbackProgression::Continue
    });
    (format!("{}:{}", if r.is_ok() { "ok" } else { "err" }, states.join(",")), cleanup)
}

/// usability probe: the name must be creatable again with *different* settings and work end to end
fn usability(cfg: &Config, scenario: &str) -> String {
    let node = match NodeBuilder::new().config(cfg).create::<ipc::Service>() {
        Ok(n) => n,
        Err(e) => return format!("node_create_failed:{:?}", e),
    };
    let name: ServiceName = SVC.try_into().unwrap();
    let r = match scenario {
        "node" => "ok".to_string(),
        "pubsub" => match node.service_builder(&name).publish_subscribe::<u64>().history_size(0).subscriber_max_buffer_size(5).max_publishers(3).create() {
            Ok(svc) => {
                let p = svc.publisher_builder().create();
                let s = svc.subscriber_builder().create();
                match (p, s) {
                    (Ok(p), Ok(s)) => {
                        let mut ok = true;
                        for i in 0..3u64 {
                            ok &= p.send_copy(1000 + i) == Ok(1);
                        }
                        for i in 0..3u64 {
                            ok &= s.receive().ok().flatten().map(|x| *x) == Some(1000 + i);
                        }
                        if ok { "ok".into() } else { "traffic_failed".into() }
                    }
                    (p, s) => format!("port_create_failed:{:?}/{:?}", p.err(), s.err()),
                }
            }
            Err(e) => format!("service_create_failed:{:?}", e),
        },
        "pubsub_dyn" => match node.service_builder(&name).publish_subscribe::<[u8]>().history_size(0).subscriber_max_buffer_size(5).create() {
            Ok(svc) => {
                let p = svc.publisher_builder().initial_max_slice_len(4).allocation_strategy(AllocationStrategy::BestFit).create();
                let s = svc.subscriber_builder().create();
                match (p, s) {
                    (Ok(p), Ok(s)) => {
                        let mut ok = true;
                        for (len, v) in [(4usize, 9u8), (700, 8)] {
                            ok &= p.loan_slice_uninit(len).map(|l| l.write_from_fn(|_| v).send() == Ok(1)).unwrap_or(false);
                            ok &= s.receive().ok().flatten().map(|x| x.len() == len && x.iter().all(|b| *b == v)) == Some(true);
                        }
                        if ok { "ok".into() } else { "traffic_failed".into() }
                    }
                    (p, s) => format!("port_create_failed:{:?}/{:?}", p.err(), s.err()),
                }
            }
            Err(e) => format!("service_create_failed:{:?}", e),
        },
        "event" => match node.service_builder(&name).event().max_listeners(3).create() {
            Ok(svc) => {
                let n = svc.notifier_builder().create();
                let l = svc.listener_builder().create();
                match (n, l) {
                    (Ok(n), Ok(l)) => {
                        let a = n.notify_with_custom_event_id(EventId::new(2)).is_ok();
                        let mut got = Vec::new();
                        let _ = l.try_wait(|a| got.push(a.id));
                        let b = got == vec![EventId::new(2)];
                        if a && b { "ok".into() } else { "traffic_failed".into() }
                    }
                    (n, l) => format!("port_create_failed:{:?}/{:?}", n.err(), l.err()),
                }
            }
            Err(e) => format!("service_create_failed:{:?}", e),
        },
        "reqres" => match node.service_builder(&name).request_response::<u64, u64>().max_clients(3).create() {
            Ok(svc) => {
                let server = svc.server_builder().create();
                let client = svc.client_builder().create();
                match (server, client) {
                    (Ok(server), Ok(client)) => {
                        let p = client.send_copy(5);
                        let a = server.receive().ok().flatten();
                        let ok = match (p, a) {
                            (Ok(p), Some(a)) => a.send_copy(6).is_ok() && p.receive().ok().flatten().map(|x| *x) == Some(6),
                            _ => false,
                        };
                        if ok { "ok".into() } else { "traffic_failed".into() }
                    }
                    (s, c) => format!("port_create_failed:{:?}/{:?}", s.err(), c.err()),
                }
            }
            Err(e) => format!("service_create_failed:{:?}", e),
        },
        "blackboard" => match node.service_builder(&name).blackboard_creator::<u64>().add::<u32>(9, 1).create() {
            Ok(svc) => {
                let w = svc.writer_builder().create();
                let r = svc.reader_builder().create();
                match (w, r) {
                    (Ok(w), Ok(r)) => {
                        let ok = match (w.entry::<u32>(&9), r.entry::<u32>(&9)) {
                            (Ok(h), Ok(rh)) => {
                                h.update_with_copy(77);
                                *rh.get() == 77
                            }
                            _ => false,
                        };
                        if ok { "ok".into() } else { "traffic_failed".into() }
                    }
                    (w, r) => format!("port_create_failed:{:?}/{:?}", w.err(), r.err()),
                }
            }
            Err(e) => format!("service_create_failed:{:?}", e),
        },
        _ => "ok".into(),
    };
    r
}

/// solo survivor: started after the kill; list -> cleanup -> list -> residue -> usability -> residue
pub fn solo(scenario: &str, root: &str, prefix: &str) {
    let cfg = config(root, prefix);
    say("step", "start");
    let (states, cleanup) = list_states(&cfg);
    say("list1", &states);
    say("cleanup", cleanup.join(";"));
    let (states2, cleanup2) = list_states(&cfg);
    say("list2", &states2);
    say("cleanup2", cleanup2.join(";"));
    let rest = listing(root, prefix);
    say("residue_after_cleanup", rest.len());
    for f in rest.iter().take(8) {
        say("residue_file", f);
    }
    let exists = match scenario {
        "pubsub" | "pubsub_dyn" => format!("{:?}", ipc::Service::does_exist(&SVC.try_into().unwrap(), &cfg, MessagingPattern::PublishSubscribe)),
        "event" => format!("{:?}", ipc::Service::does_exist(&SVC.try_into().unwrap(), &cfg, MessagingPattern::Event)),
        "reqres" => format!("{:?}", ipc::Service::does_exist(&SVC.try_into().unwrap(), &cfg, MessagingPattern::RequestResponse)),
        "blackboard" => format!("{:?}", ipc::Service::does_exist(&SVC.try_into().unwrap(), &cfg, MessagingPattern::Blackboard)),
        _ => "Ok(false)".into(),
    };
    say("service_exists_after_cleanup", exists);
    say("usability", usability(&cfg, scenario));
    let rest = listing(root, prefix);
    say("residue_final", rest.len());
    for f in rest.iter().take(8) {
        say("residue_final_file", f);
    }
    say("step", "done");
}

/// first cleaner of the second-crash trials: runs under the stepper, the cleanup itself is the scenario
pub fn cleaner1(root: &str, prefix: &str) {
    let cfg = config(root, prefix);
    crate::scen::marker();
    let (states, cleanup) = list_states(&cfg);
    crate::scen::marker();
    say("list1", &states);
    say("cleanup", cleanup.join(";"));
}

/// Holder: a second participant of the service that survives the victim. It creates the service (with the
/// settings the victim's open_or_create asks for) and its own ports, reports `ready`, and on `check`
/// performs the post-mortem: cleanup, then its own ports must still work with each other and with new peers.
pub fn holder(scenario: &str, root: &str, prefix: &str) {
    let cfg = config(root, prefix);
    let name: ServiceName = SVC.try_into().unwrap();
    let node = NodeBuilder::new().config(&cfg).create::<ipc::Service>().unwrap();
    let stdin = std::io::stdin();
    let wait_cmd = || {
        let mut l = String::new();
        let _ = stdin.read_line(&mut l);
        l.trim().to_string()
    };
    let post_mortem = |cfg: &Config| {
        let (states, cleanup) = list_states(cfg);
        say("list1", &states);
        say("cleanup", cleanup.join(";"));
        let (states2, cleanup2) = list_states(cfg);
        say("list2", &states2);
        say("cleanup2", cleanup2.join(";"));
    };
    match scenario {
        "pubsub_shared" => {
            let svc = node.service_builder(&name).publish_subscribe::<u64>().history_size(1).subscriber_max_buffer_size(2).max_publishers(2).max_subscribers(2).max_nodes(4).open_or_create().unwrap();
            let hp = svc.publisher_builder().create().unwrap();
            let hs = svc.subscriber_builder().create().unwrap();
            // establish the holder's own (lazily created) connection before the reference listing is taken
            let _ = hp.send_copy(8);
            while let Ok(Some(_)) = hs.receive() {}
            say("step", "ready");
            if wait_cmd() == "check" {
                post_mortem(&cfg);
                // whatever the victim delivered before it died must be intact
                let mut foreign = Vec::new();
                while let Ok(Some(x)) = hs.receive() {
                    foreign.push(*x);
                }
                say("foreign_data", if foreign.iter().all(|v| *v == 7 || *v == 8) { "ok".to_string() } else { format!("corrupted:{:?}", foreign) });
                let mut u = Vec::new();
                if hp.send_copy(500).is_err() || hs.receive().ok().flatten().map(|x| *x) != Some(500) {
                    u.push("own_ports_broken");
                }
                // new peers from a second node: only possible if the dead ports' slots were released
                {
                let node2 = NodeBuilder::new().config(&cfg).create::<ipc::Service>().unwrap();
                match node2.service_builder(&name).publish_subscribe::<u64>().open() {
                    Ok(svc2) => match (svc2.publisher_builder().create(), svc2.subscriber_builder().create()) {
                        (Ok(p2), Ok(s2)) => {
                            // the late joiner gets the history of both publishers with their next connection update
                            let _ = hp.update_connections();
                            let _ = p2.update_connections();
                            while let Ok(Some(_)) = s2.receive() {}
                            while let Ok(Some(_)) = hs.receive() {}
                            if p2.send_copy(600) != Ok(2) || hs.receive().ok().flatten().map(|x| *x) != Some(600) || s2.receive().ok().flatten().map(|x| *x) != Some(600) {
                                u.push("new_publisher_not_received");
                            }
                            if hp.send_copy(700) != Ok(2) || s2.receive().ok().flatten().map(|x| *x) != Some(700) || hs.receive().ok().flatten().map(|x| *x) != Some(700) {
                                u.push("new_subscriber_not_served");
                            }
                        }
                        (p, s) => {
                            say("new_peer_error", format!("{:?}/{:?}", p.err(), s.err()));
                            u.push("new_peer_ports_refused")
                        }
                    },
                    Err(e) => {
                        say("new_peer_error", format!("{:?}", e));
                        u.push("new_peer_open_failed")
                    }
                }
                }
                // connections to the departed new peers are released by the next connection update
                let _ = hs.update_connections();
                let _ = hp.update_connections();
                say("usability", if u.is_empty() { "ok".to_string() } else { u.join("+") });
                say("step", "checked");
                wait_cmd();
            }
            drop(hs);
            drop(hp);
            drop(svc);
        }
        "reqres_shared" => {
            let svc = node.service_builder(&name).request_response::<u64, u64>().max_clients(2).max_servers(2).max_nodes(4).open_or_create().unwrap();
            let hsrv = svc.server_builder().create().unwrap();
            let hcl = svc.client_builder().create().unwrap();
            let round = |cl: &iceoryx2::port::client::Client<ipc::Service, u64, (), u64, ()>, servers: &[&iceoryx2::port::server::Server<ipc::Service, u64, (), u64, ()>], v: u64| -> bool {
                let p = match cl.send_copy(v) {
                    Ok(p) => p,
                    Err(_) => return false,
                };
                let mut ok = true;
                for (i, s) in servers.iter().enumerate() {
                    match s.receive() {
                        Ok(Some(a)) if *a == v => ok &= a.send_copy(v + 1 + i as u64).is_ok(),
                        _ => ok = false,
                    }
                }
                let mut got = Vec::new();
                while let Ok(Some(r)) = p.receive() {
                    got.push(*r);
                }
                got.sort();
                ok && got == (0..servers.len()).map(|i| v + 1 + i as u64).collect::<Vec<_>>()
            };
            let _ = round(&hcl, &[&hsrv], 2);
            say("step", "ready");
            if wait_cmd() == "check" {
                post_mortem(&cfg);
                let mut foreign = Vec::new();
                while let Ok(Some(a)) = hsrv.receive() {
                    foreign.push(*a);
                    let _ = a.send_copy(12); // the requester is dead: any result, but no crash
                }
                say("foreign_data", if foreign.iter().all(|v| *v == 11) { "ok".to_string() } else { format!("corrupted:{:?}", foreign) });
                let mut u = Vec::new();
                if !round(&hcl, &[&hsrv], 20) {
                    u.push("own_ports_broken");
                }
                {
                let node2 = NodeBuilder::new().config(&cfg).create::<ipc::Service>().unwrap();
                match node2.service_builder(&name).request_response::<u64, u64>().open() {
                    Ok(svc2) => match (svc2.server_builder().create(), svc2.client_builder().create()) {
                        (Ok(s2), Ok(c2)) => {
                            if !round(&c2, &[&hsrv, &s2], 30) {
                                u.push("new_client_not_served");
                            }
                            if !round(&hcl, &[&hsrv, &s2], 40) {
                                u.push("new_server_not_reached");
                            }
                        }
                        (s, c) => {
                            say("new_peer_error", format!("{:?}/{:?}", s.err(), c.err()));
                            u.push("new_peer_ports_refused")
                        }
                    },
                    Err(e) => {
                        say("new_peer_error", format!("{:?}", e));
                        u.push("new_peer_open_failed")
                    }
                }
                }
                // connections to the departed new peers are released by the next connection update
                let _ = hsrv.update_connections();
                let _ = hcl.update_connections();
                say("usability", if u.is_empty() { "ok".to_string() } else { u.join("+") });
                say("step", "checked");
                wait_cmd();
            }
            drop(hcl);
            drop(hsrv);
            drop(svc);
        }
        "event_shared" => {
            let svc = node.service_builder(&name).event().max_nodes(4).max_notifiers(2).max_listeners(2).open_or_create().unwrap();
            let hn = svc.notifier_builder().create().unwrap();
            let hl = svc.listener_builder().create().unwrap();
            say("step", "ready");
            if wait_cmd() == "check" {
                post_mortem(&cfg);
                let mut foreign = Vec::new();
                let _ = hl.try_wait(|a| foreign.push(a.id.as_value()));
                say("foreign_data", if foreign.iter().all(|v| *v == 3) { "ok".to_string() } else { format!("corrupted:{:?}", foreign) });
                let mut u = Vec::new();
                let ids = |l: &iceoryx2::port::listener::Listener<ipc::Service>| {
                    let mut g = Vec::new();
                    let _ = l.try_wait(|a| g.push(a.id.as_value()));
                    g
                };
                if hn.notify_with_custom_event_id(EventId::new(5)).is_err() || ids(&hl) != vec![5] {
                    u.push("own_ports_broken");
                }
                {
                let node2 = NodeBuilder::new().config(&cfg).create::<ipc::Service>().unwrap();
                match node2.service_builder(&name).event().open() {
                    Ok(svc2) => match (svc2.notifier_builder().create(), svc2.listener_builder().create()) {
                        (Ok(n2), Ok(l2)) => {
                            let _ = ids(&l2);
                            let _ = ids(&hl);
                            if n2.notify_with_custom_event_id(EventId::new(6)).is_err() || ids(&hl) != vec![6] || ids(&l2) != vec![6] {
                                u.push("new_notifier_not_received");
                            }
                            if hn.notify_with_custom_event_id(EventId::new(7)).is_err() || ids(&l2) != vec![7] || ids(&hl) != vec![7] {
                                u.push("new_listener_not_served");
                            }
                        }
                        (n, l) => {
                            say("new_peer_error", format!("{:?}/{:?}", n.err(), l.err()));
                            u.push("new_peer_ports_refused")
                        }
                    },
                    Err(e) => {
                        say("new_peer_error", format!("{:?}", e));
                        u.push("new_peer_open_failed")
                    }
                }
                }
                // connections to the departed new peers are released by the next connection update
                let _ = hn.update_connections();
                say("usability", if u.is_empty() { "ok".to_string() } else { u.join("+") });
                say("step", "checked");
                wait_cmd();
            }
            drop(hl);
            drop(hn);
            drop(svc);
        }
        "blackboard_shared" => {
            let svc = node.service_builder(&name).blackboard_creator::<u64>().add::<u64>(1, 100).add::<[u8; 40]>(2, [7; 40]).max_nodes(4).max_readers(2).create().unwrap();
            let hr = svc.reader_builder().create().unwrap();
            let rh = hr.entry::<u64>(&1).unwrap();
            say("step", "ready");
            if wait_cmd() == "check" {
                post_mortem(&cfg);
                let v = *rh.get();
                say("foreign_data", if v == 100 || v == 101 { "ok".to_string() } else { format!("corrupted:{}", v) });
                let mut u = Vec::new();
                {
                let node2 = NodeBuilder::new().config(&cfg).create::<ipc::Service>().unwrap();
                match node2.service_builder(&name).blackboard_opener::<u64>().open() {
                    Ok(svc2) => match (svc2.writer_builder().create(), svc2.reader_builder().create()) {
                        (Ok(w2), Ok(r2)) => match (w2.entry::<u64>(&1), r2.entry::<u64>(&1)) {
                            (Ok(wh), Ok(rh2)) => {
                                wh.update_with_copy(333);
                                if *rh.get() != 333 || *rh2.get() != 333 {
                                    u.push("new_writer_not_seen");
                                }
                            }
                            (a, b) => {
                                say("new_peer_error", format!("{:?}/{:?}", a.err(), b.err()));
                                u.push("new_entry_handles_refused")
                            }
                        },
                        (w, r) => {
                            say("new_peer_error", format!("{:?}/{:?}", w.err(), r.err()));
                            u.push("new_peer_ports_refused")
                        }
                    },
                    Err(e) => {
                        say("new_peer_error", format!("{:?}", e));
                        u.push("new_peer_open_failed")
                    }
                }
                }
                // connections to the departed new peers are released by the next connection update
                say("usability", if u.is_empty() { "ok".to_string() } else { u.join("+") });
                say("step", "checked");
                wait_cmd();
            }
            drop(rh);
            drop(hr);
            drop(svc);
        }
        _ => panic!("unknown holder scenario"),
    }
    drop(node);
    say("step", "exited");
}
