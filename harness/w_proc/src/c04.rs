//! C04 — crash at any instant: survivor cleanup restores a clean, usable system.
//! For every scenario the child is killed at every system-call stop (and, with markers, after every
//! shared-memory atomic write); a survivor process then runs the post-mortem script.
use crate::scen::{self, listing, phase_name, remove_all};
use crate::step::{self, Action, Stop};
use std::collections::BTreeMap;
use vkit::{Args, Json, Report};

pub fn parse_kv(out: &str) -> BTreeMap<String, Vec<String>> {
    let mut m: BTreeMap<String, Vec<String>> = BTreeMap::new();
    for l in out.lines() {
        if let Some((k, v)) = l.split_once('=') {
            m.entry(k.to_string()).or_default().push(v.to_string());
        }
    }
    m
}

/// owner class of a set of residue files: node_files | service_files | event_files | port_files | mixed
fn owner_class(files: &[String], prefix: &str) -> String {
    let mut classes: Vec<&str> = files
        .iter()
        .map(|f| {
            let k = step::classify(f, prefix);
            if k.contains("node_monitor") || k.contains("node.details") || k.contains("nodes/") {
                "node_files"
            } else if k.contains(".event") || k.contains("event_mgmt") {
                "event_files"
            } else if k.contains(".service") || k.contains(".dynamic") || k.contains("blackboard") {
                "service_files"
            } else if k.contains(".data") || k.contains(".connection") || k.contains(".rx") || k.contains("tag") {
                "port_files"
            } else {
                "other_files"
            }
        })
        .collect();
    classes.sort();
    classes.dedup();
    if classes.len() == 1 { classes[0].to_string() } else { format!("mixed[{}]", classes.join("+")) }
}

fn kinds(files: &[String], prefix: &str) -> String {
    let mut k: Vec<String> = files.iter().map(|f| step::classify(f, prefix)).collect();
    k.sort();
    k.dedup();
    k.join("+")
}

pub struct Trial {
    pub stop: Option<Stop>,
    pub class: Option<String>,
    pub detail: String,
    pub child_files_at_kill: usize,
}

pub fn dirs(tag: &str, k: usize) -> (String, String) {
    let base = std::env::var("VERIF_RUN_DIR").unwrap_or_else(|_| "/verif/.run/proc".to_string());
    let root = format!("{}/{}_{}_{}", base, tag, std::process::id(), k);
    let _ = std::fs::create_dir_all(&root);
    (root, format!("p{}{}k{}_", tag, std::process::id(), k))
}

/// kill the child of `scenario` at stop `k`, run the solo survivor, classify the outcome
pub fn trial(exe: &std::path::Path, scenario: &str, k: usize, markers: bool) -> Trial {
    let (root, prefix) = dirs(&format!("c4{}", &scenario[..2]), k);
    let envs: Vec<(&str, String)> = if markers { vec![("IOX2_VERIF_MARK", "1".to_string())] } else { vec![] };
    let r = step::run_child(exe, &["child".into(), scenario.into(), root.clone(), prefix.clone()], &envs, &prefix, &mut |s: &Stop| if s.k == k { Action::Kill } else { Action::Continue });
    let mut t = Trial { stop: r.killed_at.clone(), class: None, detail: String::new(), child_files_at_kill: 0 };
    if r.killed_at.is_none() {
        remove_all(&root, &prefix);
        return t;
    }
    t.child_files_at_kill = listing(&root, &prefix).len();
    let mut attempt = 0;
    loop {
        let (out, timed_out, code) = step::run_helper(exe, &["survivor".into(), scenario.into(), root.clone(), prefix.clone()], 6000);
        let kv = parse_kv(&out);
        let get = |k: &str| kv.get(k).map(|v| v.join(";")).unwrap_or_default();
        if timed_out {
            attempt += 1;
            if attempt < 2 {
                continue; // a hang has to reproduce to count
            }
            t.class = Some("survivor_hangs".into());
            t.detail = format!("the survivor did not finish within 6 s (twice); last step reported: {:?}", out.lines().last().unwrap_or(""));
            break;
        }
        if code != 0 || get("step") != "start;done" {
            t.class = Some("survivor_crashed".into());
            t.detail = format!("survivor exit code {} output {:?}", code, out.chars().take(300).collect::<String>());
            break;
        }
        let list1 = get("list1");
        if list1.contains("Alive") {
            t.class = Some("dead_node_reported_alive".into());
        } else if list1.starts_with("err") || list1.contains("Undefined") || list1.contains("Inaccessible") {
            t.class = Some(format!("node_list_{}", list1.replace(':', "_")));
        } else if get("cleanup").contains("Err") {
            let e = get("cleanup");
            let e = e.split("Err(").nth(1).unwrap_or("").trim_end_matches(')').to_string();
            t.class = Some(format!("cleanup_failed_{}", e));
        } else if get("list2").contains("Dead") {
            t.class = Some("cleanup_incomplete_node_still_dead".into());
        } else if get("residue_after_cleanup") != "0" {
            let files = kv.get("residue_file").cloned().unwrap_or_default();
            t.class = Some(format!("residue_{}{}", owner_class(&files, &prefix), if list1 == "ok:" { ":node_not_listed" } else { "" }));
            t.detail = format!("left behind: {} | ", kinds(&files, &prefix));
        } else if get("service_exists_after_cleanup") != "Ok(false)" {
            t.class = Some("service_of_last_user_still_exists".into());
        } else if get("usability") != "ok" {
            t.class = Some(format!("unusable_{}", get("usability").split(':').next().unwrap_or("")));
        } else if get("residue_final") != "0" {
            t.class = Some("residue_after_reuse".into());
        }
        t.detail.push_str(&out.lines().filter(|l| !l.starts_with("step=")).collect::<Vec<_>>().join(" | ").chars().take(700).collect::<String>());
        break;
    }
    remove_all(&root, &prefix);
    t
}

pub fn run(args: &Args) -> Report {
    let exe = std::env::current_exe().unwrap();
    let seed = args.u64("seed", 1) as usize;
    let shard = args.usize("shard", 0);
    let nshards = args.usize("nshards", 1);
    let stride = args.usize("stride", 1);
    let markers = args.flag("markers");
    let secs = args.u64("secs", 60);
    let only_k = args.kv.get("only-k").map(|s| s.parse::<usize>().unwrap());
    let deadline = std::time::Instant::now() + std::time::Duration::from_secs(secs);
    let scen_arg = args.str("scenario", "all");
    let scenarios: Vec<&str> = if scen_arg == "all" { scen::SCENARIOS.iter().copied().filter(|s| !s.ends_with("_shared")).collect() } else { vec![Box::leak(scen_arg.clone().into_boxed_str())] };
    let mut rep = Report::new();
    rep.max_samples = 4;
    for sc in scenarios {
        // dry run: count the stops and check the orderly run leaves nothing behind
        let (root, prefix) = dirs("c4dry", 0);
        let envs: Vec<(&str, String)> = if markers { vec![("IOX2_VERIF_MARK", "1".to_string())] } else { vec![] };
        let dry = step::run_child(&exe, &["child".into(), sc.into(), root.clone(), prefix.clone()], &envs, &prefix, &mut |_| Action::Continue);
        let rest = listing(&root, &prefix);
        remove_all(&root, &prefix);
        if dry.exit_code != Some(0) {
            rep.inconclusive += 1;
            rep.notes.push(format!("scenario {} dry run exited with {:?}", sc, dry.exit_code));
            continue;
        }
        if !rest.is_empty() {
            rep.violation("residue_after_orderly_run", format!("C04:{}:orderly:residue", sc), format!("orderly run left {:?}", rest), Json::obj());
        }
        let total = dry.stops.len();
        rep.count(&format!("stops_{}", sc), total as u64);
        rep.count("scenarios", 1);
        rep.sample(Json::obj().set("scenario", sc).set("stops", total).set("atomic_write_markers", markers).set(
            "first_stops",
            dry.stops.iter().take(12).map(|s| format!("k{} {} phase {}", s.k, s.descriptor(), phase_name(sc, s.phase))).collect::<Vec<_>>().join("; "),
        ));
        for k in 1..=total {
            if let Some(o) = only_k {
                if o != k {
                    continue;
                }
            } else if k % nshards != shard || (k / nshards) % stride != seed % stride {
                continue;
            }
            if std::time::Instant::now() > deadline {
                rep.count("crash_points_cut_by_deadline", 1);
                continue;
            }
            let t = trial(&exe, sc, k, markers);
            let Some(stop) = t.stop else {
                rep.inconclusive += 1;
                continue;
            };
            rep.execs += 1;
            rep.count("crash_points", 1);
            if t.child_files_at_kill > 0 {
                rep.nontrivial += 1;
                rep.distinct(vkit::fnv_str(&format!("{}:{}:{}", sc, k, stop.descriptor())));
            }
            match t.class {
                None => rep.count("outcome_clean", 1),
                Some(class) => {
                    rep.count(&format!("outcome_{}", class.split('[').next().unwrap().split(':').next().unwrap()), 1);
                    let ph = phase_name(sc, stop.phase);
                    rep.violation(
                        &class,
                        format!("C04:{}:{}:{}", sc, ph, class),
                        format!("scenario {} killed before its stop k={} {} (phase {}): {} | {}", sc, k, stop.descriptor(), ph, class, t.detail),
                        Json::obj().set("scenario", sc).set("k", k).set("stop", stop.descriptor()).set("phase", ph).set("replay_args", format!("c04 --scenario {} --only-k {}{}", sc, k, if markers { " --markers" } else { "" })),
                    );
                }
            }
        }
    }
    rep
}
