//! C04 — crash at any instant: survivor cleanup restores a clean, usable system.
//! For every scenario the child is killed at every system-call stop (and, with markers, after every
//! shared-memory atomic write); a survivor process then runs the post-mortem script.
use crate::scen::{self, listing, phase_name, remove_all};
use crate::step::{self, Action, Stop};
use std::collections::BTreeMap;
use vkit::{Args, Json, Report};

pub fn parse_kv(out: &str) -> BTreeMap<String, Vec<String>> {
    let mut m: BTreeMap<String, Vec<String>> = BTreeMap::new();
    for l in out.lines() {
        if let Some((k, v)) = l.split_once('=') {
            m.entry(k.to_string()).or_default().push(v.to_string());
        }
    }
    m
}

/// owner class of a set of residue files: node_files | service_files | event_files | port_files | mixed
fn owner_class(files: &[String], prefix: &str) -> String {
    let mut classes: Vec<&str> = files
        .iter()
        .map(|f| {
            let k = step::classify(f, prefix);
            if k.contains("node_monitor") || k.contains("node.details") || k.contains("nodes/") {
                "node_files"
            } else if k.contains(".event") || k.contains("event_mgmt") {
                "event_files"
            } else if k.contains(".service") || k.contains(".dynamic") || k.contains("blackboard") {
                "service_files"
            } else if k.contains(".data") || k.contains(".connection") || k.contains(".rx") || k.contains("tag") {
                "port_files"
            } else {
                "other_files"
            }
        })
        .collect();
    classes.sort();
    classes.dedup();
    if classes.len() == 1 { classes[0].to_string() } else { format!("mixed[{}]", classes.join("+")) }
}

fn kinds(files: &[String], prefix: &str) -> String {
    let mut k: Vec<String> = files.iter().map(|f| step::classify(f, prefix)).collect();
    k.sort();
    k.dedup();
    k.join("+")
}

/// verdict over the key=value lines of a survivor (solo) or holder (shared) post-mortem
pub fn classify_survivor(kv: &BTreeMap<String, Vec<String>>, prefix: &str, shared: bool) -> (Option<String>, String) {
    let get = |k: &str| kv.get(k).map(|v| v.join(";")).unwrap_or_default();
    let mut class: Option<String> = None;
    let mut detail = String::new();
    let list1 = get("list1");
    let dead_in = |l: &str| l.contains("Dead");
    // the holder itself is alive and listed; a solo survivor has no node while listing
    let alive_expected = if shared { 1 } else { 0 };
    if list1.matches("Alive").count() > alive_expected {
        class = Some("dead_node_reported_alive".into());
    } else if list1.starts_with("err") || list1.contains("Undefined") || list1.contains("Inaccessible") {
        class = Some(format!("node_list_{}", list1.replace(':', "_")));
    } else if get("cleanup").contains("Err") {
        let e = get("cleanup");
        let e = e.split("Err(").nth(1).unwrap_or("").trim_end_matches(')').to_string();
        class = Some(format!("cleanup_failed_{}", e));
    } else if dead_in(&get("list2")) {
        class = Some("cleanup_incomplete_node_still_dead".into());
    } else if shared {
        if get("foreign_data") != "ok" {
            class = Some("survivor_saw_corrupted_data".into());
        } else if get("usability") != "ok" {
            class = Some(format!("survivor_ports_unusable_{}", get("usability")));
        }
    } else if get("residue_after_cleanup") != "0" {
        let files = kv.get("residue_file").cloned().unwrap_or_default();
        class = Some(format!("residue_{}{}", owner_class(&files, prefix), if list1 == "ok:" { ":node_not_listed" } else { "" }));
        detail = format!("left behind: {} | ", kinds(&files, prefix));
    } else if get("service_exists_after_cleanup") != "Ok(false)" {
        class = Some("service_of_last_user_still_exists".into());
    } else if get("usability") != "ok" {
        class = Some(format!("unusable_{}", get("usability").split(':').next().unwrap_or("")));
    } else if get("residue_final") != "0" {
        class = Some("residue_after_reuse".into());
    }
    (class, detail)
}

pub struct Trial {
    pub stop: Option<Stop>,
    pub class: Option<String>,
    pub detail: String,
    pub child_files_at_kill: usize,
}

pub fn dirs(tag: &str, k: usize) -> (String, String) {
    let base = std::env::var("VERIF_RUN_DIR").unwrap_or_else(|_| "/verif/.run/proc".to_string());
    let root = format!("{}/{}_{}_{}", base, tag, vkit::proc_token(), k);
    let _ = std::fs::create_dir_all(&root);
    (root, format!("p{}{}k{}_", tag, vkit::proc_token(), k))
}

/// kill the child of `scenario` at stop `k`, run the solo survivor, classify the outcome
pub fn trial(exe: &std::path::Path, scenario: &str, k: usize, markers: bool) -> Trial {
    let (root, prefix) = dirs(&format!("c4{}", &scenario[..2]), k);
    let envs: Vec<(&str, String)> = if markers { vec![("IOX2_VERIF_MARK", "1".to_string())] } else { vec![] };
    let r = step::run_child(exe, &["child".into(), scenario.into(), root.clone(), prefix.clone()], &envs, &prefix, &mut |s: &Stop| if s.k == k { Action::Kill } else { Action::Continue });
    let mut t = Trial { stop: r.killed_at.clone(), class: None, detail: String::new(), child_files_at_kill: 0 };
    if r.killed_at.is_none() {
        remove_all(&root, &prefix);
        return t;
    }
    t.child_files_at_kill = listing(&root, &prefix).len();
    let mut attempt = 0;
    loop {
        let (out, timed_out, code) = step::run_helper(exe, &["survivor".into(), scenario.into(), root.clone(), prefix.clone()], if attempt == 0 { 6000 } else { 30_000 });
        let kv = parse_kv(&out);
        let get = |k: &str| kv.get(k).map(|v| v.join(";")).unwrap_or_default();
        if timed_out {
            attempt += 1;
            if attempt < 2 {
                continue; // a hang has to reproduce (second time with a 30 s watchdog: load is not a hang)
            }
            t.class = Some("survivor_hangs".into());
            t.detail = format!("the survivor did not finish within 6 s and, repeated, within 30 s; last step reported: {:?}", out.lines().last().unwrap_or(""));
            break;
        }
        if code != 0 || get("step") != "start;done" {
            t.class = Some("survivor_crashed".into());
            t.detail = format!("survivor exit code {} output {:?}", code, out.chars().take(300).collect::<String>());
            break;
        }
        let (class, detail) = classify_survivor(&kv, &prefix, false);
        t.class = class;
        t.detail = detail;
        t.detail.push_str(&out.lines().filter(|l| !l.starts_with("step=")).collect::<Vec<_>>().join(" | ").chars().take(700).collect::<String>());
        break;
    }
    remove_all(&root, &prefix);
    t
}

pub fn run(args: &Args) -> Report {
    let part = args.str("part", "solo");
    if part == "second" {
        return run_second(args);
    }
    let shared = part == "shared";
    let exe = std::env::current_exe().unwrap();
    let seed = args.u64("seed", 1) as usize;
    let shard = args.usize("shard", 0);
    let nshards = args.usize("nshards", 1);
    let stride = args.usize("stride", 1);
    let markers = args.flag("markers");
    let secs = args.u64("secs", 60);
    let only_k = args.kv.get("only-k").map(|s| s.parse::<usize>().unwrap());
    let deadline = std::time::Instant::now() + std::time::Duration::from_secs(secs);
    let scen_arg = args.str("scenario", "all");
    let scenarios: Vec<&str> = if scen_arg == "all" { scen::SCENARIOS.iter().copied().filter(|s| s.ends_with("_shared") == shared).collect() } else { vec![Box::leak(scen_arg.clone().into_boxed_str())] };
    let mut rep = Report::new();
    rep.max_samples = 4;
    for sc in scenarios {
        // dry run: count the stops and check the orderly run leaves nothing behind
        let (root, prefix) = dirs("c4dry", 0);
        let envs: Vec<(&str, String)> = if markers { vec![("IOX2_VERIF_MARK", "1".to_string())] } else { vec![] };
        let mut holder = if shared { Some(Holder::spawn(&exe, sc, &root, &prefix)) } else { None };
        if let Some(h) = holder.as_mut() {
            let _ = h.until("ready", 5000);
        }
        let dry = step::run_child(&exe, &["child".into(), sc.into(), root.clone(), prefix.clone()], &envs, &prefix, &mut |_| Action::Continue);
        if let Some(mut h) = holder.take() {
            h.cmd("exit");
            let _ = h.until("exited", 5000);
            let _ = h.ch.wait();
            h.finish();
        }
        let rest = listing(&root, &prefix);
        remove_all(&root, &prefix);
        if dry.exit_code != Some(0) {
            rep.inconclusive += 1;
            rep.notes.push(format!("scenario {} dry run exited with {:?}", sc, dry.exit_code));
            continue;
        }
        if !rest.is_empty() {
            rep.violation("residue_after_orderly_run", format!("C04:{}:orderly:residue", sc), format!("orderly run left {:?}", rest), Json::obj());
        }
        let total = dry.stops.len();
        rep.count(&format!("stops_{}", sc), total as u64);
        rep.count("scenarios", 1);
        rep.sample(Json::obj().set("scenario", sc).set("stops", total).set("atomic_write_markers", markers).set(
            "first_stops",
            dry.stops.iter().take(12).map(|s| format!("k{} {} phase {}", s.k, s.descriptor(), phase_name(sc, s.phase))).collect::<Vec<_>>().join("; "),
        ));
        for k in 1..=total {
            if let Some(o) = only_k {
                if o != k {
                    continue;
                }
            } else if k % nshards != shard || (k / nshards) % stride != seed % stride {
                continue;
            }
            if std::time::Instant::now() > deadline {
                rep.count("crash_points_cut_by_deadline", 1);
                continue;
            }
            let mut t = if shared { shared_trial(&exe, sc, k, markers) } else { trial(&exe, sc, k, markers) };
            if t.class.is_some() {
                // crash points are deterministic: an outcome that does not repeat on the same point is load noise, not a verdict
                let again = if shared { shared_trial(&exe, sc, k, markers) } else { trial(&exe, sc, k, markers) };
                if again.class != t.class {
                    rep.count("outcomes_not_reproduced", 1);
                    rep.notes.push(format!("{} k={}: {:?} then {:?} on the same crash point", sc, k, t.class, again.class));
                    rep.inconclusive += 1;
                    t = again;
                    t.class = None;
                }
            }
            let Some(stop) = t.stop else {
                rep.inconclusive += 1;
                continue;
            };
            rep.execs += 1;
            rep.count("crash_points", 1);
            if t.child_files_at_kill > 0 {
                rep.nontrivial += 1;
                rep.distinct(vkit::fnv_str(&format!("{}:{}:{}", sc, k, stop.descriptor())));
            }
            match t.class {
                None => rep.count("outcome_clean", 1),
                Some(class) => {
                    rep.count(&format!("outcome_{}", class.split('[').next().unwrap().split(':').next().unwrap()), 1);
                    let ph = phase_name(sc, stop.phase);
                    rep.violation(
                        &class,
                        format!("C04:{}:{}:{}", sc, ph, class),
                        format!("scenario {} killed before its stop k={} {} (phase {}): {} | {}", sc, k, stop.descriptor(), ph, class, t.detail),
                        Json::obj().set("scenario", sc).set("k", k).set("stop", stop.descriptor()).set("phase", ph).set("replay_args", format!("c04 --part {} --scenario {} --only-k {}{}", part, sc, k, if markers { " --markers" } else { "" })),
                    );
                }
            }
        }
    }
    rep
}

// ---------------------------------------------------------------------------------------------
// shared scenarios: a holder process keeps using the service while the victim is killed

struct Holder {
    ch: std::process::Child,
    rx: std::sync::mpsc::Receiver<String>,
}

impl Holder {
    fn spawn(exe: &std::path::Path, scenario: &str, root: &str, prefix: &str) -> Holder {
        use std::io::BufRead;
        use std::process::{Command, Stdio};
        let mut ch = Command::new(exe).args(["holder", scenario, root, prefix]).env("IOX2_LOG_LEVEL", "FATAL").stdin(Stdio::piped()).stdout(Stdio::piped()).stderr(Stdio::null()).spawn().expect("spawn holder");
        let out = ch.stdout.take().unwrap();
        let (tx, rx) = std::sync::mpsc::channel();
        std::thread::spawn(move || {
            for l in std::io::BufReader::new(out).lines().map_while(Result::ok) {
                if tx.send(l).is_err() {
                    break;
                }
            }
        });
        Holder { ch, rx }
    }
    /// collects lines until `step=<what>`; None on timeout / holder death
    fn until(&mut self, what: &str, ms: u64) -> (String, bool) {
        let t0 = std::time::Instant::now();
        let mut acc = String::new();
        loop {
            let left = ms.saturating_sub(t0.elapsed().as_millis() as u64);
            match self.rx.recv_timeout(std::time::Duration::from_millis(left.max(1))) {
                Ok(l) => {
                    let hit = l == format!("step={}", what);
                    acc.push_str(&l);
                    acc.push('\n');
                    if hit {
                        return (acc, true);
                    }
                }
                Err(_) => return (acc, false),
            }
            if t0.elapsed().as_millis() as u64 > ms {
                return (acc, false);
            }
        }
    }
    fn cmd(&mut self, c: &str) {
        use std::io::Write;
        if let Some(i) = self.ch.stdin.as_mut() {
            let _ = writeln!(i, "{}", c);
            let _ = i.flush();
        }
    }
    fn finish(mut self) {
        let _ = self.ch.kill();
        let _ = self.ch.wait();
    }
}

/// holder up -> victim killed at stop k -> holder post-mortem -> holder leaves -> nothing may remain
pub fn shared_trial(exe: &std::path::Path, scenario: &str, k: usize, markers: bool) -> Trial {
    let (root, prefix) = dirs(&format!("c4s{}", &scenario[..2]), k);
    let mut t = Trial { stop: None, class: None, detail: String::new(), child_files_at_kill: 0 };
    let mut h = Holder::spawn(exe, scenario, &root, &prefix);
    let (_, ok) = h.until("ready", 5000);
    if !ok {
        h.finish();
        remove_all(&root, &prefix);
        return t; // inconclusive: the holder did not come up
    }
    let before = listing(&root, &prefix);
    let envs: Vec<(&str, String)> = if markers { vec![("IOX2_VERIF_MARK", "1".to_string())] } else { vec![] };
    let r = step::run_child(exe, &["child".into(), scenario.into(), root.clone(), prefix.clone()], &envs, &prefix, &mut |s: &Stop| if s.k == k { Action::Kill } else { Action::Continue });
    t.stop = r.killed_at.clone();
    if r.killed_at.is_none() {
        h.finish();
        remove_all(&root, &prefix);
        return t;
    }
    t.child_files_at_kill = listing(&root, &prefix).len().saturating_sub(before.len());
    h.cmd("check");
    let (out, ok) = h.until("checked", 8000);
    let kv = parse_kv(&out);
    if !ok {
        let alive = matches!(h.ch.try_wait(), Ok(None));
        t.class = Some(if alive { "survivor_hangs".into() } else { "survivor_crashed".into() });
        t.detail = format!("the holder did not finish its post-mortem; output so far: {:?}", out.chars().take(400).collect::<String>());
        h.finish();
        remove_all(&root, &prefix);
        return t;
    }
    let (class, detail) = classify_survivor(&kv, &prefix, true);
    t.class = class;
    t.detail = detail;
    if t.class.is_none() {
        // nothing owned solely by the dead node may remain next to what the holder had before
        let after = listing(&root, &prefix);
        let extra: Vec<String> = after.iter().filter(|f| !before.contains(f)).cloned().collect();
        if !extra.is_empty() {
            t.class = Some(format!("residue_{}", owner_class(&extra, &prefix)));
            t.detail = format!("left behind next to the survivor's own files: {} | ", kinds(&extra, &prefix));
        }
    }
    t.detail.push_str(&out.lines().filter(|l| !l.starts_with("step=")).collect::<Vec<_>>().join(" | ").chars().take(700).collect::<String>());
    h.cmd("exit");
    let (_, ok) = h.until("exited", 5000);
    if t.class.is_none() {
        if !ok {
            t.class = Some("survivor_hangs_in_shutdown".into());
        } else {
            let _ = h.ch.wait();
            let rest = listing(&root, &prefix);
            if !rest.is_empty() {
                t.class = Some(format!("residue_after_last_user_{}", owner_class(&rest, &prefix)));
                t.detail = format!("after the surviving last user left: {} | {}", kinds(&rest, &prefix), t.detail);
            }
        }
    }
    h.finish();
    remove_all(&root, &prefix);
    t
}

// ---------------------------------------------------------------------------------------------
// second crash: the first cleaner is killed at stop j of its cleanup, a second survivor finishes

/// victim killed at its stop k, first cleaner killed at its stop j (j = 0: dry run, returns the number of stops)
pub fn second_trial(exe: &std::path::Path, scenario: &str, k: usize, j: usize) -> (Trial, usize, Option<Stop>) {
    let (root, prefix) = dirs(&format!("c4c{}", &scenario[..2]), k * 10_000 + j);
    let r = step::run_child(exe, &["child".into(), scenario.into(), root.clone(), prefix.clone()], &[], &prefix, &mut |s: &Stop| if s.k == k { Action::Kill } else { Action::Continue });
    let mut t = Trial { stop: r.killed_at.clone(), class: None, detail: String::new(), child_files_at_kill: 0 };
    if r.killed_at.is_none() {
        remove_all(&root, &prefix);
        return (t, 0, None);
    }
    t.child_files_at_kill = listing(&root, &prefix).len();
    let c = step::run_child(exe, &["cleaner1".into(), root.clone(), prefix.clone()], &[], &prefix, &mut |s: &Stop| if j != 0 && s.k == j { Action::Kill } else { Action::Continue });
    let nstops = c.stops.len();
    if j == 0 {
        remove_all(&root, &prefix);
        return (t, nstops, None);
    }
    let Some(cstop) = c.killed_at.clone() else {
        remove_all(&root, &prefix);
        t.stop = None;
        return (t, nstops, None);
    };
    let mut attempt = 0;
    loop {
        let (out, timed_out, code) = step::run_helper(exe, &["survivor".into(), scenario.into(), root.clone(), prefix.clone()], if attempt == 0 { 6000 } else { 30_000 });
        let kv = parse_kv(&out);
        let get = |k: &str| kv.get(k).map(|v| v.join(";")).unwrap_or_default();
        if timed_out {
            attempt += 1;
            if attempt < 2 {
                continue;
            }
            t.class = Some("survivor_hangs".into());
            t.detail = format!("the second survivor did not finish within 6 s and, repeated, within 30 s; last step reported: {:?}", out.lines().last().unwrap_or(""));
            break;
        }
        if code != 0 || get("step") != "start;done" {
            t.class = Some("survivor_crashed".into());
            t.detail = format!("survivor exit code {} output {:?}", code, out.chars().take(300).collect::<String>());
            break;
        }
        let (class, detail) = classify_survivor(&kv, &prefix, false);
        t.class = class;
        t.detail = detail;
        t.detail.push_str(&out.lines().filter(|l| !l.starts_with("step=")).collect::<Vec<_>>().join(" | ").chars().take(700).collect::<String>());
        break;
    }
    remove_all(&root, &prefix);
    (t, nstops, Some(cstop))
}

pub fn run_second(args: &Args) -> Report {
    let exe = std::env::current_exe().unwrap();
    let seed = args.u64("seed", 1) as usize;
    let shard = args.usize("shard", 0);
    let nshards = args.usize("nshards", 1);
    let stride = args.usize("stride", 1);
    let secs = args.u64("secs", 60);
    let only = args.kv.get("only-kj").map(|s| {
        let (a, b) = s.split_once(',').unwrap();
        (a.parse::<usize>().unwrap(), b.parse::<usize>().unwrap())
    });
    let deadline = std::time::Instant::now() + std::time::Duration::from_secs(secs);
    let scen_arg = args.str("scenario", "all");
    let scenarios: Vec<&str> = if scen_arg == "all" { vec!["pubsub", "pubsub_dyn", "event", "reqres", "blackboard"] } else { vec![Box::leak(scen_arg.clone().into_boxed_str())] };
    let mut rep = Report::new();
    rep.max_samples = 4;
    for sc in scenarios {
        // victim crash points: the first stop of every phase in which all ports exist and data is in flight
        let (root, prefix) = dirs("c4cdry", 0);
        let dry = step::run_child(&exe, &["child".into(), sc.into(), root.clone(), prefix.clone()], &[], &prefix, &mut |_| Action::Continue);
        remove_all(&root, &prefix);
        if dry.exit_code != Some(0) {
            rep.inconclusive += 1;
            rep.notes.push(format!("scenario {} dry run exited with {:?}", sc, dry.exit_code));
            continue;
        }
        let mut ks: Vec<usize> = Vec::new();
        let mut seen_phase = std::collections::BTreeSet::new();
        for s in &dry.stops {
            let pn = phase_name(sc, s.phase);
            let wanted = !matches!(pn, "node_create" | "service_open_or_create" | "service_create" | "node_drop" | "service_drop" | "-" | "?");
            if wanted && seen_phase.insert(s.phase) {
                ks.push(s.k);
            }
        }
        rep.count(&format!("victim_crash_points_{}", sc), ks.len() as u64);
        for k in ks {
            if let Some((ok, _)) = only {
                if ok != k {
                    continue;
                }
            }
            let (t0, n, _) = second_trial(&exe, sc, k, 0);
            let Some(vstop) = t0.stop.clone() else {
                rep.inconclusive += 1;
                continue;
            };
            rep.count("cleaner_stops_total", n as u64);
            if rep.samples.len() < 4 {
                rep.sample(Json::obj().set("scenario", sc).set("victim_killed_before", format!("k{} {} phase {}", k, vstop.descriptor(), phase_name(sc, vstop.phase))).set("cleaner_stops", n));
            }
            for j in 1..=n {
                if let Some((_, oj)) = only {
                    if oj != j {
                        continue;
                    }
                } else if j % nshards != shard || (j / nshards) % stride != seed % stride {
                    continue;
                }
                if std::time::Instant::now() > deadline {
                    rep.count("crash_points_cut_by_deadline", 1);
                    continue;
                }
                let (mut t, _, cstop) = second_trial(&exe, sc, k, j);
                if t.class.is_some() {
                    let (again, _, _) = second_trial(&exe, sc, k, j);
                    if again.class != t.class {
                        rep.count("outcomes_not_reproduced", 1);
                        rep.notes.push(format!("{} k={} j={}: {:?} then {:?} on the same crash points", sc, k, j, t.class, again.class));
                        rep.inconclusive += 1;
                        t.class = None;
                        t.stop = None;
                    }
                }
                let (Some(_), Some(cstop)) = (t.stop.clone(), cstop) else {
                    rep.inconclusive += 1;
                    continue;
                };
                rep.execs += 1;
                rep.nontrivial += 1;
                rep.count("second_crash_points", 1);
                rep.distinct(vkit::fnv_str(&format!("{}:{}:{}:{}", sc, k, j, cstop.descriptor())));
                match t.class {
                    None => rep.count("outcome_clean", 1),
                    Some(class) => {
                        rep.count(&format!("outcome_{}", class.split('[').next().unwrap().split(':').next().unwrap()), 1);
                        let ph = phase_name(sc, vstop.phase);
                        rep.violation(
                            &class,
                            format!("C04:{}+cleaner_killed:{}:{}", sc, ph, class),
                            format!("scenario {} killed before its stop k={} {} (phase {}), first cleaner killed before its stop j={} {}: {} | {}", sc, k, vstop.descriptor(), ph, j, cstop.descriptor(), class, t.detail),
                            Json::obj().set("scenario", sc).set("k", k).set("j", j).set("cleaner_stop", cstop.descriptor()).set("phase", ph).set("replay_args", format!("c04 --part second --scenario {} --only-kj {},{}", sc, k, j)),
                        );
                    }
                }
            }
        }
    }
    rep
}
