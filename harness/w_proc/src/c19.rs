//! C19 (isolation) — two applications configured with different prefixes or roots never see, open, list
//! or clean up each other's nodes and services, and everything an application creates lives under its
//! root path (or is a /dev/shm object carrying its prefix).
use crate::c04::parse_kv;
use crate::scen::config;
use crate::step;
use iceoryx2::node::NodeState;
use iceoryx2::prelude::*;
use vkit::{Args, Json, Report};

/// helper process: counts what one domain can see
pub fn lister(root: &str, prefix: &str) {
    let cfg = config(root, prefix);
    let (mut alive, mut dead, mut other) = (0, 0, 0);
    let r = Node::<ipc::Service>::list(&cfg, |st| {
        match st {
            NodeState::Alive(_) => alive += 1,
            NodeState::Dead(_) => dead += 1,
            _ => other += 1,
        }
        CallbackProgression::Continue
    });
    println!("nodes={},{},{},{}", alive, dead, other, r.is_ok());
    let mut names = Vec::new();
    let r = ipc::Service::list(&cfg, |s| {
        names.push(s.static_details.name().to_string());
        CallbackProgression::Continue
    });
    names.sort();
    println!("services={};{}", names.join(","), r.is_ok());
    let ex = ipc::Service::does_exist(&"c07svc".try_into().unwrap(), &cfg, MessagingPattern::PublishSubscribe);
    println!("exists={:?}", ex);
}

fn snapshot(base: &str) -> Vec<String> {
    let mut v = Vec::new();
    fn walk(d: &std::path::Path, v: &mut Vec<String>) {
        if let Ok(rd) = std::fs::read_dir(d) {
            for e in rd.flatten() {
                let p = e.path();
                if p.is_dir() {
                    walk(&p, v);
                } else {
                    v.push(p.display().to_string());
                }
            }
        }
    }
    walk(std::path::Path::new(base), &mut v);
    if let Ok(rd) = std::fs::read_dir("/dev/shm") {
        for e in rd.flatten() {
            v.push(format!("/dev/shm/{}", e.file_name().to_string_lossy()));
        }
    }
    v.sort();
    v
}

/// service and node names: accepted exactly per the documented rule, accepted names round-trip
fn user_names(rep: &mut Report, seed: u64) {
    use iceoryx2::node::node_name::NodeName;
    use iceoryx2::prelude::ServiceName;
    let alphabet: Vec<char> = vec!['a', 'Z', '0', '/', '.', ' ', ':', '\\', '\0', '\n', '\u{7f}', '\u{e9}', '\u{20ac}', '_', '-'];
    let mut cases: Vec<String> = vec![String::new(), "iox2://".into(), "iox2://x".into(), "iox2:/x".into(), "xiox2://".into(), "IOX2://x".into()];
    for a in &alphabet {
        cases.push(a.to_string());
        for b in &alphabet {
            cases.push(format!("{}{}", a, b));
        }
    }
    let mut rng = vkit::Rng::derive(&[seed, 1919]);
    for len in [127usize, 128, 129, 254, 255, 256, 300] {
        for _ in 0..6 {
            let non_ascii_at = if rng.chance(1, 3) { Some(rng.below(len as u64) as usize) } else { None };
            let s: String = (0..len).map(|i| if Some(i) == non_ascii_at { '\u{e9}' } else { alphabet[rng.below(10) as usize] }).collect();
            cases.push(s);
        }
    }
    for c in &cases {
        rep.execs += 1;
        // the fixed string underneath is zero terminated: code points 1..=127 only
        let ascii = c.is_ascii() && !c.contains('\0');
        let exp_service = !c.is_empty() && !c.starts_with("iox2://") && c.len() <= 255 && ascii;
        let got = ServiceName::new(c);
        if got.is_ok() != exp_service {
            rep.violation("service_name_validation", "C19:names:service_name_validation", format!("ServiceName::new({:?}) -> {:?}, the documented rule says {}", &c[..c.len().min(40)], got.as_ref().map(|_| "Ok").map_err(|e| format!("{:?}", e)), if exp_service { "accept" } else { "refuse" }), Json::obj());
        }
        if let Ok(n) = &got {
            if n.as_str() != c.as_str() {
                rep.violation("name_round_trip", "C19:names:name_round_trip", format!("ServiceName {:?} reads back as {:?}", c, n.as_str()), Json::obj());
            }
        }
        let exp_node = c.len() <= 128 && ascii;
        let gotn = NodeName::new(c);
        if gotn.is_ok() != exp_node {
            rep.violation("node_name_validation", "C19:names:node_name_validation", format!("NodeName::new({:?}) -> {:?}, the documented rule says {}", &c[..c.len().min(40)], gotn.as_ref().map(|_| "Ok").map_err(|e| format!("{:?}", e)), if exp_node { "accept" } else { "refuse" }), Json::obj());
        }
        if let Ok(n) = &gotn {
            if n.as_str() != c.as_str() {
                rep.violation("name_round_trip", "C19:names:name_round_trip", format!("NodeName {:?} reads back as {:?}", c, n.as_str()), Json::obj());
            }
        }
        rep.nontrivial += 1;
        rep.distinct(vkit::fnv_str(c));
    }
    rep.count("user_name_cases", cases.len() as u64);
}

pub fn run(args: &Args) -> Report {
    let exe = std::env::current_exe().unwrap();
    let rounds = args.usize("rounds", 2);
    let shard = args.usize("shard", 0);
    let mut rep = Report::new();
    if shard == 0 {
        user_names(&mut rep, args.u64("seed", 1));
    }
    let base0 = std::env::var("VERIF_RUN_DIR").unwrap_or_else(|_| "/verif/.run/proc".to_string());
    for round in 0..rounds {
        let tag = format!("q{}x{}y{}", vkit::proc_token(), shard, round);
        let base = format!("{}/iso_{}", base0, tag);
        let _ = std::fs::create_dir_all(format!("{base}/r/x"));
        // three domains: prefix "…a" vs "…ab" in one root, and the first prefix again in a nested root
        let doms: Vec<(String, String)> = vec![(format!("{base}/r"), format!("{tag}a")), (format!("{base}/r"), format!("{tag}ab")), (format!("{base}/r/x"), format!("{tag}a"))];
        let mut victims = Vec::new();
        let mut created: Vec<Vec<String>> = Vec::new();
        let mut ok = true;
        for (i, (root, prefix)) in doms.iter().enumerate() {
            let before = snapshot(&base);
            let flag = format!("{base}/flag{i}");
            let v = std::process::Command::new(&exe).args(["victim", root, prefix, &flag]).env("IOX2_LOG_LEVEL", "FATAL").stderr(std::process::Stdio::null()).stdout(std::process::Stdio::null()).spawn().unwrap();
            let t0 = std::time::Instant::now();
            while !std::path::Path::new(&format!("{flag}.ready")).exists() && t0.elapsed().as_secs() < 10 {
                std::thread::sleep(std::time::Duration::from_millis(2));
            }
            if !std::path::Path::new(&format!("{flag}.ready")).exists() {
                ok = false;
            }
            victims.push(v);
            let after = snapshot(&base);
            let new: Vec<String> = after.into_iter().filter(|f| !before.contains(f) && !f.contains("/flag") && (!f.starts_with("/dev/shm/") || f.contains(&tag))).collect();
            // every created object lies under the domain's root or is a shm object with the domain's prefix
            for f in &new {
                let inside = if let Some(n) = f.strip_prefix("/dev/shm/") { n.starts_with(prefix.as_str()) } else { f.starts_with(&format!("{}/", root)) && (i == 2 || !f.starts_with(&format!("{base}/r/x/"))) };
                if f.starts_with("/dev/shm/") && !f.contains(&tag) {
                    continue; // objects of unrelated processes on this machine
                }
                if !inside {
                    rep.violation("file_outside_domain", "C19:isolation:file_outside_domain", format!("domain (root {}, prefix {}) created {}", root, prefix, f), Json::obj());
                }
                let bn = f.rsplit('/').next().unwrap_or("");
                if !f.starts_with("/dev/shm/") && !bn.starts_with(prefix.as_str()) {
                    rep.violation("file_without_prefix", "C19:isolation:file_without_prefix", format!("domain with prefix {} created the file {} without its prefix", prefix, f), Json::obj());
                }
            }
            rep.count("files_created", new.len() as u64);
            created.push(new);
        }
        if !ok {
            rep.inconclusive += 1;
        }
        let look = |root: &str, prefix: &str| -> std::collections::BTreeMap<String, Vec<String>> {
            let (out, _, _) = step::run_helper(&exe, &["lister".into(), root.into(), prefix.into()], 8000);
            parse_kv(&out)
        };
        // every domain sees exactly its own node and service
        for (i, (root, prefix)) in doms.iter().enumerate() {
            let kv = look(root, prefix);
            rep.execs += 1;
            rep.nontrivial += 1;
            rep.distinct(vkit::fnv_str(&format!("see{}{}", round, i)));
            let nodes = kv.get("nodes").map(|v| v.join("")).unwrap_or_default();
            let services = kv.get("services").map(|v| v.join("")).unwrap_or_default();
            if nodes != "1,0,0,true" {
                rep.violation("foreign_node_visible", "C19:isolation:node_list", format!("domain {} (root {}, prefix {}) lists nodes alive,dead,other = {} while exactly its own node exists; the other domains are {:?}", i, root, prefix, nodes, doms), Json::obj());
            }
            if services != "c07svc;true" {
                rep.violation("foreign_service_visible", "C19:isolation:service_list", format!("domain {} lists services {:?}", i, services), Json::obj());
            }
        }
        // kill the owner of domain 0; the other domains must not see or clean its dead node
        let _ = victims[0].kill();
        let _ = victims[0].wait();
        for j in [1usize, 2] {
            let (out, _, _) = step::run_helper(&exe, &["cleaner".into(), doms[j].0.clone(), doms[j].1.clone(), String::new()], 8000);
            let res = parse_kv(&out).get("result").map(|v| v.join(";")).unwrap_or_default();
            rep.execs += 1;
            rep.nontrivial += 1;
            rep.distinct(vkit::fnv_str(&format!("clean{}{}", round, j)));
            if res != "SawAlive" {
                rep.violation("foreign_cleanup", "C19:isolation:foreign_cleanup", format!("a cleanup run in domain {} reported {:?}; it must only see its own live node (a dead node exists in domain 0)", j, res), Json::obj());
            }
        }
        let kv = look(&doms[0].0, &doms[0].1);
        let nodes0 = kv.get("nodes").map(|v| v.join("")).unwrap_or_default();
        if nodes0 != "0,1,0,true" {
            rep.violation("foreign_cleanup", "C19:isolation:dead_node_gone", format!("after cleanup runs in the other domains, domain 0 lists nodes {} (its dead node must still be there)", nodes0), Json::obj());
        }
        // files of the other domains are untouched by all of this and by domain 0's own cleanup
        let (out, _, _) = step::run_helper(&exe, &["cleaner".into(), doms[0].0.clone(), doms[0].1.clone(), String::new()], 8000);
        let res0 = parse_kv(&out).get("result").map(|v| v.join(";")).unwrap_or_default();
        if !res0.contains("Ok(())") {
            rep.violation("own_cleanup_failed", "C19:isolation:own_cleanup_failed", format!("cleanup of domain 0's dead node from its own domain reported {:?}", res0), Json::obj());
        }
        let now = snapshot(&base);
        for j in [1usize, 2] {
            for f in &created[j] {
                if !now.contains(f) {
                    rep.violation("foreign_file_removed", "C19:isolation:foreign_file_removed", format!("file {} of domain {} disappeared during cleanup of domain 0", f, j), Json::obj());
                }
            }
            let kv = look(&doms[j].0, &doms[j].1);
            if kv.get("nodes").map(|v| v.join("")).unwrap_or_default() != "1,0,0,true" {
                rep.violation("foreign_cleanup", "C19:isolation:node_list_after_cleanup", format!("domain {} no longer lists exactly its own live node after domain 0 was cleaned", j), Json::obj());
            }
        }
        if round == 0 {
            rep.sample(Json::obj().set("domains", doms.iter().map(|d| format!("root {} prefix {}", d.0.replace(&base, "<base>"), d.1.replace(&tag, "<tag>"))).collect::<Vec<_>>()).set("files_created_by_domain_1", created[1].iter().map(|f| f.replace(&base, "<base>")).collect::<Vec<_>>()));
        }
        for v in victims.iter_mut() {
            let _ = v.kill();
            let _ = v.wait();
        }
        let _ = std::fs::remove_dir_all(&base);
        if let Ok(rd) = std::fs::read_dir("/dev/shm") {
            for e in rd.flatten() {
                if e.file_name().to_string_lossy().starts_with(&tag) {
                    let _ = std::fs::remove_file(e.path());
                }
            }
        }
    }
    rep
}
