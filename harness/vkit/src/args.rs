use std::collections::BTreeMap;

/// `prog <sub> --key value --flag` argument parsing (also accepts key=value words, which is what
/// the Miri runs use since they get their parameters through argv).
#[derive(Clone, Debug, Default)]
pub struct Args {
    pub sub: String,
    pub kv: BTreeMap<String, String>,
}

impl Args {
    pub fn parse() -> Args {
        Self::from_vec(std::env::args().skip(1).collect())
    }
    pub fn from_vec(v: Vec<String>) -> Args {
        let mut a = Args::default();
        let mut i = 0;
        while i < v.len() {
            let w = &v[i];
            if let Some(k) = w.strip_prefix("--") {
                if let Some((k, val)) = k.split_once('=') {
                    a.kv.insert(k.to_string(), val.to_string());
                } else if i + 1 < v.len() && !v[i + 1].starts_with("--") {
                    a.kv.insert(k.to_string(), v[i + 1].clone());
                    i += 1;
                } else {
                    a.kv.insert(k.to_string(), "1".to_string());
                }
            } else if a.sub.is_empty() {
                a.sub = w.clone();
            }
            i += 1;
        }
        a
    }
    pub fn u64(&self, k: &str, default: u64) -> u64 {
        self.kv.get(k).map(|s| s.parse().unwrap_or_else(|_| panic!("bad --{}", k))).unwrap_or(default)
    }
    pub fn usize(&self, k: &str, default: usize) -> usize {
        self.u64(k, default as u64) as usize
    }
    pub fn str(&self, k: &str, default: &str) -> String {
        self.kv.get(k).cloned().unwrap_or_else(|| default.to_string())
    }
    pub fn flag(&self, k: &str) -> bool {
        self.kv.contains_key(k)
    }
}
