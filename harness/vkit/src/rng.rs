/// SplitMix64: small, deterministic, good enough for workload generation.
#[derive(Clone, Debug)]
pub struct Rng(pub u64);

impl Rng {
    pub fn new(seed: u64) -> Self {
        Rng(seed ^ 0x5DEECE66D)
    }
    /// Derive an independent stream from several integers (seed, shard, iteration ...).
    pub fn derive(parts: &[u64]) -> Self {
        let mut h = 0x1234_5678_9abc_def0u64;
        for p in parts {
            h = crate::mix(h, *p);
        }
        Rng(h)
    }
    pub fn next(&mut self) -> u64 {
        self.0 = self.0.wrapping_add(0x9E3779B97F4A7C15);
        let mut z = self.0;
        z = (z ^ (z >> 30)).wrapping_mul(0xBF58476D1CE4E5B9);
        z = (z ^ (z >> 27)).wrapping_mul(0x94D049BB133111EB);
        z ^ (z >> 31)
    }
    /// uniform in 0..n (n > 0)
    pub fn below(&mut self, n: u64) -> u64 {
        self.next() % n
    }
    /// uniform in lo..=hi
    pub fn range(&mut self, lo: u64, hi: u64) -> u64 {
        lo + self.below(hi - lo + 1)
    }
    pub fn chance(&mut self, num: u64, den: u64) -> bool {
        self.below(den) < num
    }
    pub fn pick<'a, T>(&mut self, xs: &'a [T]) -> &'a T {
        &xs[self.below(xs.len() as u64) as usize]
    }
    pub fn shuffle<T>(&mut self, xs: &mut [T]) {
        for i in (1..xs.len()).rev() {
            let j = self.below(i as u64 + 1) as usize;
            xs.swap(i, j);
        }
    }
}
