use crate::json::Json;
use std::collections::{BTreeMap, BTreeSet};

/// One refuted execution. `sig` is the stable signature known findings are keyed on
/// (oracle rule + normalised input key; no line numbers, no addresses, no seeds).
#[derive(Clone, Debug)]
pub struct Violation {
    pub rule: String,
    pub sig: String,
    pub msg: String,
    pub witness: Json,
}

/// What a worker process observed; printed as one `RESULT {json}` line that `bin/check` aggregates.
#[derive(Debug, Default)]
pub struct Report {
    pub execs: u64,
    pub nontrivial: u64,
    pub inconclusive: u64,
    pub counters: BTreeMap<String, u64>,
    pub distinct: BTreeSet<u64>,
    /// distinct interleaving signatures observed (coverage evidence for concurrent workloads)
    pub interleavings: BTreeSet<u64>,
    pub samples: Vec<Json>,
    pub violations: Vec<Violation>,
    pub notes: Vec<String>,
    pub max_samples: usize,
    pub max_distinct: usize,
}

impl Report {
    pub fn new() -> Self {
        Report { max_samples: 3, max_distinct: 20_000, ..Default::default() }
    }
    pub fn count(&mut self, k: &str, n: u64) {
        *self.counters.entry(k.to_string()).or_insert(0) += n;
    }
    pub fn max(&mut self, k: &str, n: u64) {
        let e = self.counters.entry(k.to_string()).or_insert(0);
        if n > *e {
            *e = n;
        }
    }
    /// record a distinct non-trivial case by its signature hash
    pub fn distinct(&mut self, h: u64) {
        if self.distinct.len() < self.max_distinct {
            self.distinct.insert(h);
        }
    }
    pub fn interleaving(&mut self, h: u64) {
        if h != 0 && self.interleavings.len() < self.max_distinct {
            self.interleavings.insert(h);
        }
    }
    pub fn sample(&mut self, j: Json) {
        if self.samples.len() < self.max_samples {
            self.samples.push(j);
        }
    }
    pub fn violation(&mut self, rule: &str, sig: impl Into<String>, msg: impl Into<String>, witness: Json) {
        // keep at most a handful of witnesses per signature
        let sig = sig.into();
        let same = self.violations.iter().filter(|v| v.sig == sig).count();
        *self.counters.entry("violations_total".into()).or_insert(0) += 1;
        if same < 2 && self.violations.len() < 50 {
            self.violations.push(Violation { rule: rule.to_string(), sig, msg: msg.into(), witness });
        }
    }
    pub fn merge(&mut self, o: Report) {
        self.execs += o.execs;
        self.nontrivial += o.nontrivial;
        self.inconclusive += o.inconclusive;
        for (k, v) in o.counters {
            if k.starts_with("max_") {
                let e = self.counters.entry(k).or_insert(0);
                if v > *e { *e = v; }
            } else {
                *self.counters.entry(k).or_insert(0) += v;
            }
        }
        for h in o.distinct { self.distinct(h); }
        for h in o.interleavings { self.interleaving(h); }
        for s in o.samples { self.sample(s); }
        for v in o.violations {
            let same = self.violations.iter().filter(|x| x.sig == v.sig).count();
            if same < 2 && self.violations.len() < 50 { self.violations.push(v); }
        }
        self.notes.extend(o.notes);
    }
    pub fn to_json(&self) -> Json {
        let mut counters = Json::obj();
        for (k, v) in &self.counters {
            counters.put(k, *v);
        }
        let viol: Vec<Json> = self
            .violations
            .iter()
            .map(|v| {
                Json::obj()
                    .set("rule", v.rule.as_str())
                    .set("sig", v.sig.as_str())
                    .set("msg", v.msg.as_str())
                    .set("witness", v.witness.clone())
            })
            .collect();
        Json::obj()
            .set("execs", self.execs)
            .set("nontrivial", self.nontrivial)
            .set("inconclusive", self.inconclusive)
            .set("counters", counters)
            .set("distinct", Json::Arr(self.distinct.iter().map(|h| Json::Str(format!("{:x}", h))).collect()))
            .set("interleavings", Json::Arr(self.interleavings.iter().map(|h| Json::Str(format!("{:x}", h))).collect()))
            .set("samples", Json::Arr(self.samples.clone()))
            .set("violations", Json::Arr(viol))
            .set("notes", Json::Arr(self.notes.iter().map(|s| Json::Str(s.clone())).collect()))
    }
    /// print the result line (stdout) — the last thing a worker does
    pub fn emit(&self) {
        println!("RESULT {}", self.to_json().render());
    }
}
