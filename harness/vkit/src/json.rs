use std::collections::BTreeMap;
use std::fmt::Write;

/// Minimal JSON value (writer only).
#[derive(Clone, Debug, PartialEq)]
pub enum Json {
    Null,
    Bool(bool),
    Int(i64),
    UInt(u64),
    Float(f64),
    Str(String),
    Arr(Vec<Json>),
    Obj(BTreeMap<String, Json>),
}

impl Json {
    pub fn obj() -> Json {
        Json::Obj(BTreeMap::new())
    }
    pub fn set(mut self, k: &str, v: impl Into<Json>) -> Json {
        if let Json::Obj(m) = &mut self {
            m.insert(k.to_string(), v.into());
        }
        self
    }
    pub fn put(&mut self, k: &str, v: impl Into<Json>) {
        if let Json::Obj(m) = self {
            m.insert(k.to_string(), v.into());
        }
    }
    pub fn render(&self) -> String {
        let mut s = String::new();
        self.write(&mut s);
        s
    }
    fn write(&self, out: &mut String) {
        match self {
            Json::Null => out.push_str("null"),
            Json::Bool(b) => out.push_str(if *b { "true" } else { "false" }),
            Json::Int(i) => {
                let _ = write!(out, "{}", i);
            }
            Json::UInt(i) => {
                let _ = write!(out, "{}", i);
            }
            Json::Float(f) => {
                if f.is_finite() {
                    let _ = write!(out, "{}", f);
                } else {
                    out.push_str("null");
                }
            }
            Json::Str(s) => {
                out.push('"');
                for c in s.chars() {
                    match c {
                        '"' => out.push_str("\\\""),
                        '\\' => out.push_str("\\\\"),
                        '\n' => out.push_str("\\n"),
                        '\r' => out.push_str("\\r"),
                        '\t' => out.push_str("\\t"),
                        c if (c as u32) < 0x20 => {
                            let _ = write!(out, "\\u{:04x}", c as u32);
                        }
                        c => out.push(c),
                    }
                }
                out.push('"');
            }
            Json::Arr(a) => {
                out.push('[');
                for (i, v) in a.iter().enumerate() {
                    if i > 0 {
                        out.push(',');
                    }
                    v.write(out);
                }
                out.push(']');
            }
            Json::Obj(m) => {
                out.push('{');
                for (i, (k, v)) in m.iter().enumerate() {
                    if i > 0 {
                        out.push(',');
                    }
                    Json::Str(k.clone()).write(out);
                    out.push(':');
                    v.write(out);
                }
                out.push('}');
            }
        }
    }
}

impl From<bool> for Json { fn from(v: bool) -> Self { Json::Bool(v) } }
impl From<u64> for Json { fn from(v: u64) -> Self { Json::UInt(v) } }
impl From<u32> for Json { fn from(v: u32) -> Self { Json::UInt(v as u64) } }
impl From<usize> for Json { fn from(v: usize) -> Self { Json::UInt(v as u64) } }
impl From<i64> for Json { fn from(v: i64) -> Self { Json::Int(v) } }
impl From<i32> for Json { fn from(v: i32) -> Self { Json::Int(v as i64) } }
impl From<f64> for Json { fn from(v: f64) -> Self { Json::Float(v) } }
impl From<&str> for Json { fn from(v: &str) -> Self { Json::Str(v.to_string()) } }
impl From<String> for Json { fn from(v: String) -> Self { Json::Str(v) } }
impl From<&String> for Json { fn from(v: &String) -> Self { Json::Str(v.clone()) } }
impl<T: Into<Json>> From<Vec<T>> for Json {
    fn from(v: Vec<T>) -> Self { Json::Arr(v.into_iter().map(|x| x.into()).collect()) }
}
impl<T: Into<Json>> From<Option<T>> for Json {
    fn from(v: Option<T>) -> Self { match v { Some(x) => x.into(), None => Json::Null } }
}
