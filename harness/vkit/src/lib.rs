//! Shared kit for all verification workers: PRNG, JSON, report protocol, argument parsing,
//! stall scheduler on top of the atomics hook, timestamps.
pub mod args;
pub mod campaign;
pub mod json;
pub mod report;
pub mod rng;
pub mod sched;
pub mod ts;

pub use args::Args;
pub use json::Json;
pub use report::{Report, Violation};
pub use rng::Rng;

/// FNV-1a, used for distinct-case signatures.
pub fn fnv(bytes: &[u8]) -> u64 {
    let mut h: u64 = 0xcbf29ce484222325;
    for b in bytes {
        h ^= *b as u64;
        h = h.wrapping_mul(0x100000001b3);
    }
    h
}

pub fn fnv_str(s: &str) -> u64 {
    fnv(s.as_bytes())
}

pub fn mix(a: u64, b: u64) -> u64 {
    let mut z = a ^ b.wrapping_mul(0x9E3779B97F4A7C15);
    z = (z ^ (z >> 30)).wrapping_mul(0xBF58476D1CE4E5B9);
    z = (z ^ (z >> 27)).wrapping_mul(0x94D049BB133111EB);
    z ^ (z >> 31)
}

/// process-unique token: pid plus a start-time nonce (pids are reused within hours here: pid_max = 32768,
/// and objects of killed workers would otherwise be mistaken for one's own)
pub fn proc_token() -> String {
    use std::sync::OnceLock;
    static T: OnceLock<String> = OnceLock::new();
    T.get_or_init(|| {
        let n = std::time::SystemTime::now().duration_since(std::time::UNIX_EPOCH).map(|d| d.as_nanos()).unwrap_or(0) as u64;
        let mut x = n ^ ((std::process::id() as u64) << 40);
        let mut s = String::new();
        for _ in 0..5 {
            s.push(char::from_digit((x % 36) as u32, 36).unwrap());
            x /= 36;
        }
        format!("{}{}", std::process::id(), s)
    })
    .clone()
}
