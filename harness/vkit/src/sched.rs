//! Schedule perturbation on top of the atomics hook (`--cfg iceoryx2_verif`).
//!
//! * `Mode::Off`     – hook not installed: true hardware interleavings
//! * `Mode::Dry`     – hook counts hooked operations per thread (used to size a sweep)
//! * `Mode::Plan`    – up to two stall points `(thread, k, m)`: when `thread` reaches its k-th hook
//!                     call (every atomic operation makes two: Before and After) it waits until the
//!                     other threads have together made `m` more hook calls (or are done, or 2 ms)
//! * `Mode::Random`  – at every hook call with probability permille/1000: yield / spin / sleep
//!
//! The hook never executes a locked instruction or a release/acquire operation: progress cells are
//! written with plain relaxed stores, everything else is thread local.  Without the cfg (Miri) the
//! module degrades to "spawn the threads", Miri's own scheduler does the perturbation there.
use std::cell::Cell;
use std::sync::atomic::{AtomicBool, AtomicU64, AtomicU8, AtomicUsize, Ordering::Relaxed};
use std::sync::Barrier;

pub const MAXT: usize = 8;

#[repr(align(128))]
struct Pad(AtomicU64);
#[allow(clippy::declare_interior_mutable_const)]
const PAD0: Pad = Pad(AtomicU64::new(0));
#[allow(clippy::declare_interior_mutable_const)]
const B0: AtomicBool = AtomicBool::new(false);
static PROGRESS: [Pad; MAXT] = [PAD0; MAXT];
static DONE: [AtomicBool; MAXT] = [B0; MAXT];
static NTHREADS: AtomicUsize = AtomicUsize::new(0);
static MODE: AtomicU8 = AtomicU8::new(0); // 0 count, 1 plan, 2 random
static PLAN_T: [AtomicUsize; 2] = [AtomicUsize::new(usize::MAX), AtomicUsize::new(usize::MAX)];
static PLAN_K: [AtomicU64; 2] = [AtomicU64::new(0), AtomicU64::new(0)];
static PLAN_M: [AtomicU64; 2] = [AtomicU64::new(0), AtomicU64::new(0)];
static RAND_PERMILLE: AtomicU64 = AtomicU64::new(0);
static RAND_SEED: AtomicU64 = AtomicU64::new(0);
static REACHED: AtomicU64 = AtomicU64::new(0);
static EFFECTIVE: AtomicU64 = AtomicU64::new(0);
static STALL_CAP_US: AtomicU64 = AtomicU64::new(2000);

thread_local! {
    static TID: Cell<usize> = const { Cell::new(usize::MAX) };
    static CNT: Cell<u64> = const { Cell::new(0) };
    static RNG: Cell<u64> = const { Cell::new(0) };
    static SIG: Cell<u64> = const { Cell::new(0) };
    static LAST_OTHERS: Cell<u64> = const { Cell::new(0) };
}

#[derive(Clone, Copy, Debug, PartialEq, Eq)]
pub struct Stall {
    pub thread: usize,
    pub k: u64,
    pub m: u64,
}

#[derive(Clone, Debug)]
pub enum Mode {
    Off,
    Dry,
    Plan(Vec<Stall>),
    Random { seed: u64, permille: u64 },
}

impl Mode {
    pub fn describe(&self) -> String {
        match self {
            Mode::Off => "off".into(),
            Mode::Dry => "dry".into(),
            Mode::Plan(p) => format!(
                "plan[{}]",
                p.iter().map(|s| format!("t{}@{}+{}", s.thread, s.k, if s.m == u64::MAX { "all".to_string() } else { s.m.to_string() })).collect::<Vec<_>>().join(",")
            ),
            Mode::Random { seed, permille } => format!("random(seed={},p={}/1000)", seed, permille),
        }
    }
}

#[derive(Clone, Debug, Default)]
pub struct Stats {
    /// hook calls made by each thread
    pub counts: Vec<u64>,
    pub reached: u64,
    pub effective: u64,
    /// approximate interleaving signature (see module doc); 0 when the hook is off
    pub sig: u64,
}

#[inline]
fn others_progress(tid: usize, n: usize) -> u64 {
    let mut s = 0u64;
    for i in 0..n {
        if i != tid {
            s = s.wrapping_add(PROGRESS[i].0.load(Relaxed));
        }
    }
    s
}

fn spin_us(us: u64) {
    let t0 = std::time::Instant::now();
    while (t0.elapsed().as_nanos() as u64) < us * 1000 {
        std::hint::spin_loop();
    }
}

#[cfg(iceoryx2_verif)]
fn hook(_p: iceoryx2_bb_concurrency::verif::Phase, _k: iceoryx2_bb_concurrency::verif::OpKind, _addr: usize, _wrote: bool) {
    hook_body();
}

#[allow(dead_code)]
fn hook_body() {
    let tid = TID.with(|t| t.get());
    if tid == usize::MAX {
        return;
    }
    let c = CNT.with(|c| {
        let v = c.get() + 1;
        c.set(v);
        v
    });
    PROGRESS[tid].0.store(c, Relaxed);
    let n = NTHREADS.load(Relaxed);
    // interleaving signature: fold (my position, others' position) whenever the others moved
    let o = others_progress(tid, n);
    if LAST_OTHERS.with(|l| l.replace(o)) != o {
        SIG.with(|s| s.set(crate::mix(s.get(), c.wrapping_mul(1_000_003).wrapping_add(o))));
    }
    match MODE.load(Relaxed) {
        1 => {
            for slot in 0..2 {
                if PLAN_T[slot].load(Relaxed) == tid && PLAN_K[slot].load(Relaxed) == c {
                    REACHED.fetch_add(1, Relaxed);
                    let m = PLAN_M[slot].load(Relaxed);
                    let s0 = o;
                    let cap = STALL_CAP_US.load(Relaxed) as u128;
                    let start = std::time::Instant::now();
                    loop {
                        if m != u64::MAX && others_progress(tid, n) >= s0.saturating_add(m) {
                            EFFECTIVE.fetch_add(1, Relaxed);
                            break;
                        }
                        let all_done = (0..n).filter(|i| *i != tid).all(|i| DONE[i].load(Relaxed));
                        if all_done {
                            if m == u64::MAX || others_progress(tid, n) > s0 {
                                EFFECTIVE.fetch_add(1, Relaxed);
                            }
                            break;
                        }
                        if start.elapsed().as_micros() > cap {
                            if others_progress(tid, n) > s0 {
                                EFFECTIVE.fetch_add(1, Relaxed);
                            }
                            break;
                        }
                        std::thread::yield_now();
                    }
                }
            }
        }
        2 => {
            let p = RAND_PERMILLE.load(Relaxed);
            let r = RNG.with(|r| {
                let mut z = r.get().wrapping_add(0x9E3779B97F4A7C15);
                r.set(z);
                z = (z ^ (z >> 30)).wrapping_mul(0xBF58476D1CE4E5B9);
                z = (z ^ (z >> 27)).wrapping_mul(0x94D049BB133111EB);
                z ^ (z >> 31)
            });
            if r % 1000 < p {
                let a = (r >> 20) % 100;
                if a < 60 {
                    std::thread::yield_now();
                } else if a < 96 {
                    spin_us(1 + (r >> 32) % 50);
                } else {
                    std::thread::sleep(std::time::Duration::from_micros(200 + (r >> 32) % 800));
                }
            }
        }
        _ => {}
    }
}

pub fn set_stall_cap_us(us: u64) {
    STALL_CAP_US.store(us, Relaxed);
}

fn install(mode: &Mode, n: usize) {
    assert!(n <= MAXT);
    NTHREADS.store(n, Relaxed);
    for i in 0..MAXT {
        PROGRESS[i].0.store(0, Relaxed);
        DONE[i].store(false, Relaxed);
    }
    REACHED.store(0, Relaxed);
    EFFECTIVE.store(0, Relaxed);
    for s in 0..2 {
        PLAN_T[s].store(usize::MAX, Relaxed);
    }
    match mode {
        Mode::Off | Mode::Dry => MODE.store(0, Relaxed),
        Mode::Plan(p) => {
            for (s, st) in p.iter().take(2).enumerate() {
                PLAN_K[s].store(st.k, Relaxed);
                PLAN_M[s].store(st.m, Relaxed);
                PLAN_T[s].store(st.thread, Relaxed);
            }
            MODE.store(1, Relaxed);
        }
        Mode::Random { seed, permille } => {
            RAND_SEED.store(*seed, Relaxed);
            RAND_PERMILLE.store(*permille, Relaxed);
            MODE.store(2, Relaxed);
        }
    }
    #[cfg(iceoryx2_verif)]
    {
        match mode {
            Mode::Off => iceoryx2_bb_concurrency::verif::set_hook(None),
            _ => iceoryx2_bb_concurrency::verif::set_hook(Some(hook)),
        }
    }
}

/// true when the binary was compiled with the hook (otherwise all modes behave like `Off`)
pub fn hook_available() -> bool {
    cfg!(iceoryx2_verif)
}

/// Register the calling thread as participant `tid` (for threads not spawned by `run_threads`,
/// e.g. the main thread driving a sequential workload with random delays).
pub fn enter(tid: usize) {
    CNT.with(|c| c.set(0));
    SIG.with(|s| s.set(0));
    LAST_OTHERS.with(|s| s.set(0));
    RNG.with(|r| r.set(crate::mix(RAND_SEED.load(Relaxed), tid as u64 + 1)));
    TID.with(|t| t.set(tid));
}

/// Runs `f` with the calling thread's hook switched off: set-up code (node creation, service creation) then
/// contributes no stall positions, the sweep concentrates on the region that actually races.
pub fn unhooked<R>(f: impl FnOnce() -> R) -> R {
    let tid = TID.with(|t| t.replace(usize::MAX));
    let r = f();
    TID.with(|t| t.set(tid));
    r
}

pub fn leave() -> (u64, u64) {
    let tid = TID.with(|t| t.replace(usize::MAX));
    if tid != usize::MAX {
        DONE[tid].store(true, Relaxed);
    }
    (CNT.with(|c| c.get()), SIG.with(|s| s.get()))
}

/// Run the bodies as concurrently started threads under the given perturbation mode.
pub fn run_threads<'a>(mode: &Mode, bodies: Vec<Box<dyn FnOnce() + Send + 'a>>) -> Stats {
    let n = bodies.len();
    install(mode, n);
    let bar = Barrier::new(n);
    let mut out: Vec<(u64, u64)> = Vec::new();
    std::thread::scope(|sc| {
        let mut hs = Vec::new();
        for (tid, body) in bodies.into_iter().enumerate() {
            let bar = &bar;
            hs.push(sc.spawn(move || {
                bar.wait();
                enter(tid);
                body();
                leave()
            }));
        }
        for h in hs {
            out.push(h.join().expect("workload thread panicked"));
        }
    });
    #[cfg(iceoryx2_verif)]
    iceoryx2_bb_concurrency::verif::set_hook(None);
    let mut sig = 0u64;
    for (_, s) in &out {
        sig = crate::mix(sig, *s);
    }
    Stats { counts: out.iter().map(|x| x.0).collect(), reached: REACHED.load(Relaxed), effective: EFFECTIVE.load(Relaxed), sig }
}

/// Install the mode for workloads that manage their own threads (they call `enter`/`leave`).
pub fn begin(mode: &Mode, nthreads: usize) {
    install(mode, nthreads);
}

pub fn end() -> (u64, u64) {
    #[cfg(iceoryx2_verif)]
    iceoryx2_bb_concurrency::verif::set_hook(None);
    (REACHED.load(Relaxed), EFFECTIVE.load(Relaxed))
}

/// All depth-1 plans for a dry-run count vector: every hook position of every thread with the
/// given set of `m` values.
pub fn depth1_plans(counts: &[u64], ms: &[u64]) -> Vec<Vec<Stall>> {
    let mut v = Vec::new();
    for (t, c) in counts.iter().enumerate() {
        for k in 1..=*c {
            for m in ms {
                v.push(vec![Stall { thread: t, k, m: *m }]);
            }
        }
    }
    v
}

/// Marker hook for the ptrace stepper: every atomic *write* is followed by a no-op `getppid`
/// system call so that shared-memory writes become stop points of the syscall enumeration.
#[cfg(iceoryx2_verif)]
pub fn install_marker_hook() {
    fn marker(p: iceoryx2_bb_concurrency::verif::Phase, _k: iceoryx2_bb_concurrency::verif::OpKind, _addr: usize, wrote: bool) {
        if p == iceoryx2_bb_concurrency::verif::Phase::After && wrote {
            unsafe {
                libc::syscall(libc::SYS_getppid);
            }
        }
    }
    iceoryx2_bb_concurrency::verif::set_hook(Some(marker));
}
#[cfg(not(iceoryx2_verif))]
pub fn install_marker_hook() {}
