//! Campaign driver shared by the concurrent workloads: for one generated program it runs the
//! execution under every perturbation mode (off, dry, depth-1 sweep, sampled depth-2, random).
use std::time::{Duration, Instant};
use crate::sched::{self, Mode, Stall, Stats};
use crate::{Args, Json, Report, Rng};

pub struct ExecResult {
    pub stats: Stats,
    /// (rule, signature key, message)
    pub violations: Vec<(String, String, String)>,
    /// the execution exercised the mechanism under test (rule stated per property)
    pub nontrivial: bool,
    /// extra hash of what was observed (e.g. result sequence) to tell executions apart
    pub observed: u64,
    pub inconclusive: bool,
}

pub struct Budget {
    pub deadline: Instant,
    pub max_progs: u64,
    pub max_d1: usize,
    pub n_d2: usize,
    pub n_rand: usize,
    pub n_off: usize,
    pub only_prog: Option<u64>,
    pub plan: Option<Mode>,
}

impl Budget {
    pub fn from_args(a: &Args) -> Budget {
        let secs = a.u64("secs", 5);
        let plan = a.kv.get("plan").map(|s| parse_mode(s));
        Budget {
            deadline: Instant::now() + Duration::from_millis(secs * 1000),
            max_progs: a.u64("progs", u64::MAX),
            max_d1: a.usize("d1", 400),
            n_d2: a.usize("d2", 40),
            n_rand: a.usize("rand", 20),
            n_off: a.usize("off", 5),
            only_prog: a.kv.get("only-prog").map(|s| s.parse().unwrap()),
            plan,
        }
    }
    pub fn expired(&self) -> bool {
        Instant::now() >= self.deadline
    }
}

/// "off" | "dry" | "random:<seed>:<permille>" | "plan:t,k,m[;t,k,m]" (m = "all" allowed)
pub fn parse_mode(s: &str) -> Mode {
    if s == "off" {
        return Mode::Off;
    }
    if s == "dry" {
        return Mode::Dry;
    }
    if let Some(r) = s.strip_prefix("random:") {
        let p: Vec<&str> = r.split(':').collect();
        return Mode::Random { seed: p[0].parse().unwrap(), permille: p[1].parse().unwrap() };
    }
    if let Some(r) = s.strip_prefix("plan:") {
        let v = r
            .split(';')
            .map(|q| {
                let p: Vec<&str> = q.split(',').collect();
                Stall { thread: p[0].parse().unwrap(), k: p[1].parse().unwrap(), m: if p[2] == "all" { u64::MAX } else { p[2].parse().unwrap() } }
            })
            .collect();
        return Mode::Plan(v);
    }
    panic!("bad mode {}", s);
}

pub fn mode_arg(m: &Mode) -> String {
    match m {
        Mode::Off => "off".into(),
        Mode::Dry => "dry".into(),
        Mode::Random { seed, permille } => format!("random:{}:{}", seed, permille),
        Mode::Plan(p) => format!(
            "plan:{}",
            p.iter().map(|s| format!("{},{},{}", s.thread, s.k, if s.m == u64::MAX { "all".to_string() } else { s.m.to_string() })).collect::<Vec<_>>().join(";")
        ),
    }
}

pub const MS: [u64; 5] = [1, 2, 4, 10, u64::MAX];

/// Run all modes for one program. `desc` describes the program for witnesses/samples, `replay`
/// are the worker arguments that regenerate this very program.
pub fn campaign(
    rep: &mut Report,
    rng: &mut Rng,
    b: &Budget,
    prop: &str,
    desc: &Json,
    replay: &str,
    shape: u64,
    exec: &mut dyn FnMut(&Mode) -> ExecResult,
) {
    let mut one = |rep: &mut Report, mode: &Mode| -> Stats {
        let r = exec(mode);
        rep.execs += 1;
        rep.count(
            match mode {
                Mode::Off => "execs_off",
                Mode::Dry => "execs_dry",
                Mode::Plan(p) if p.len() == 1 => "execs_depth1",
                Mode::Plan(_) => "execs_depth2",
                Mode::Random { .. } => "execs_random",
            },
            1,
        );
        rep.count("stall_points_requested", if let Mode::Plan(p) = mode { p.len() as u64 } else { 0 });
        rep.count("stall_points_reached", r.stats.reached);
        rep.count("stall_points_effective", r.stats.effective);
        if r.inconclusive {
            rep.inconclusive += 1;
        }
        if r.nontrivial {
            rep.nontrivial += 1;
            rep.distinct(crate::mix(crate::mix(shape, r.stats.sig), r.observed));
        }
        if r.stats.sig != 0 {
            rep.interleaving(crate::mix(shape, r.stats.sig));
        }
        for (rule, sig, msg) in r.violations {
            let w = Json::obj()
                .set("program", desc.clone())
                .set("mode", mode.describe())
                .set("replay_args", format!("{} --plan {}", replay, mode_arg(mode)));
            rep.violation(&rule, format!("{}:{}", prop, sig), msg, w);
        }
        r.stats
    };
    if let Some(m) = &b.plan {
        // replay of one given plan
        for _ in 0..b.n_off.max(1) {
            one(rep, m);
        }
        return;
    }
    for _ in 0..b.n_off {
        one(rep, &Mode::Off);
    }
    if !sched::hook_available() {
        return;
    }
    let st = one(rep, &Mode::Dry);
    let mut plans = sched::depth1_plans(&st.counts, &MS);
    if plans.len() > b.max_d1 {
        rng.shuffle(&mut plans);
        plans.truncate(b.max_d1);
        rep.count("depth1_sampled_programs", 1);
    } else {
        rep.count("depth1_exhaustive_programs", 1);
    }
    for p in plans {
        if b.expired() {
            rep.count("programs_cut_by_deadline", 1);
            return;
        }
        one(rep, &Mode::Plan(p));
    }
    // tiny programs: ALL plans that stall one thread twice at neighbouring hook positions (the shape of a
    // "claim, then publish" window raced by a "scan, then commit" sequence of the other thread)
    let total: u64 = st.counts.iter().sum();
    if total <= 48 && b.n_d2 > 0 {
        rep.count("depth2_same_thread_exhaustive_programs", 1);
        'outer: for (t, c) in st.counts.iter().enumerate() {
            for k in 1..=*c {
                for d in 1..=2u64 {
                    if k + d > *c {
                        continue;
                    }
                    for m1 in [1u64, 2, 3, 4, 5, 6, 8] {
                        for m2 in [1u64, 2, 3, u64::MAX] {
                            if b.expired() {
                                rep.count("programs_cut_by_deadline", 1);
                                break 'outer;
                            }
                            one(rep, &Mode::Plan(vec![Stall { thread: t, k, m: m1 }, Stall { thread: t, k: k + d, m: m2 }]));
                        }
                    }
                }
            }
        }
    }
    let n = st.counts.len();
    for _ in 0..b.n_d2 {
        if b.expired() {
            return;
        }
        let mut p = Vec::new();
        for _ in 0..2 {
            let t = rng.below(n as u64) as usize;
            if st.counts[t] == 0 {
                continue;
            }
            p.push(Stall { thread: t, k: rng.range(1, st.counts[t]), m: *rng.pick(&[1, 2, 3, 4, 6, 8, u64::MAX]) });
        }
        if p.len() == 2 && !(p[0].thread == p[1].thread && p[0].k == p[1].k) {
            one(rep, &Mode::Plan(p));
        }
    }
    for i in 0..b.n_rand {
        if b.expired() {
            return;
        }
        one(rep, &Mode::Random { seed: rng.next(), permille: [20, 100, 300][i % 3] });
    }
}

/// one logged operation: thread, kind, argument, result, call/return timestamps (ns, one clock)
#[derive(Clone, Copy, Debug)]
pub struct Ev {
    pub t: usize,
    pub kind: u8,
    pub a: i64,
    pub r: i64,
    pub call: u64,
    pub ret: u64,
}

/// Precedence between operations of different threads is inferred from one monotonic clock.  The
/// clock read is not a serialising instruction and a retired store may sit in the store buffer for
/// a moment, so "A returned before B was called" is only trusted when the gap exceeds `MARGIN`;
/// every rule uses the comparison in the direction that makes it more lenient.  Under Miri (virtual
/// clock, weak-memory emulation without harness-level happens-before) no precedence is trusted.
pub const MARGIN: u64 = if cfg!(miri) { u64::MAX / 4 } else { 5_000 };

/// A (returned at `a_ret`) certainly took full effect before B (called at `b_call`) began
pub fn surely_before(a_ret: u64, b_call: u64) -> bool {
    a_ret.saturating_add(MARGIN) < b_call
}

/// A (called at `a_call`) may have begun before B (returned at `b_ret`) was over
pub fn maybe_before(a_call: u64, b_ret: u64) -> bool {
    a_call < b_ret.saturating_add(MARGIN)
}
