use std::sync::OnceLock;
use std::time::Instant;

static T0: OnceLock<Instant> = OnceLock::new();

/// Monotonic nanoseconds since the first call in this process (one clock for all threads).
#[inline]
pub fn now() -> u64 {
    let t0 = *T0.get_or_init(Instant::now);
    t0.elapsed().as_nanos() as u64
}
