//! C09 — concurrent index allocation is exclusive, bounded and leak-free.
//!
//! Structures: `UniqueIndexSet` (plain), `RobustUniqueIndexSet` (crash robust, with recovery of a
//! dead owner), `bb-memory::PoolAllocator` (buckets = indices, memory pattern-filled while held).
//! Oracle: online owner tags (atomic swap must see EMPTY / me), plain-memory canaries where the
//! structure promises happens-before, and post-hoc interval rules over the call/return log.
use crate::common::*;
use core::alloc::Layout;
use core::ptr::NonNull;
use iceoryx2_bb_elementary_traits::allocator::{Allocate, Deallocate};
use iceoryx2_bb_lock_free::mpmc::robust_unique_index_set::*;
use iceoryx2_bb_lock_free::mpmc::unique_index_set::*;
use iceoryx2_bb_lock_free::mpmc::unique_index_set_enums::*;
use iceoryx2_bb_memory::pool_allocator::FixedSizePoolAllocator;
use std::cell::UnsafeCell;
use std::sync::atomic::{AtomicBool, AtomicU64, Ordering::Relaxed};
use std::sync::Mutex;
use vkit::sched::{self, Mode};
use vkit::{ts, Args, Json, Report, Rng};

const MAXCAP: usize = 8;

#[derive(Clone, Copy, Debug, PartialEq, Eq)]
enum Op {
    Acq,
    RelOld,
    RelNew,
    RelLockNew,
    /// robust set only: acquire under the "dead" owner id and never release
    Abandon,
    /// robust set only: recover the dead owner's indices (only after the abandoning phase is over)
    Recover,
    RecoverLock,
}

#[derive(Clone, Copy, Debug, PartialEq, Eq)]
enum Kind {
    Plain,
    Robust,
    Pool,
}

// event kinds
const K_ACQ: u8 = 1; // a = owner, r = index | -1 out of indices | -2 locked
const K_REL: u8 = 2; // a = index, r = 0 unlocked | 1 locked ; (a2 in `lockmode`)
const K_RELLOCK: u8 = 3;
const K_RECOVER: u8 = 4; // a = bitmask of recovered indices, r = 0 unlocked | 1 locked
const K_RECOVERLOCK: u8 = 5;

const DEAD: u64 = 1000;

struct Canary(UnsafeCell<u64>);
unsafe impl Sync for Canary {}

enum Set {
    Plain(FixedSizeUniqueIndexSet<MAXCAP>),
    Robust(StaticRobustUniqueIndexSet<MAXCAP>),
    Pool { alloc: FixedSizePoolAllocator<16>, _mem: Vec<u8>, start: usize, stride: usize, layout: Layout },
}
unsafe impl Sync for Set {}

impl Set {
    fn acquire(&self, owner: u64) -> i64 {
        match self {
            Set::Plain(s) => match unsafe { s.acquire_raw_index() } {
                Ok(i) => i as i64,
                Err(UniqueIndexSetAcquireFailure::OutOfIndices) => -1,
                Err(UniqueIndexSetAcquireFailure::IsLocked) => -2,
            },
            Set::Robust(s) => match s.acquire(OwnerId::new(owner).unwrap()) {
                Ok(i) => i as i64,
                Err(UniqueIndexSetAcquireFailure::OutOfIndices) => -1,
                Err(UniqueIndexSetAcquireFailure::IsLocked) => -2,
            },
            Set::Pool { alloc, start, stride, layout, .. } => match alloc.allocate(*layout) {
                Ok(p) => {
                    let a = p.as_ptr() as usize;
                    if a < *start || (a - *start) % *stride != 0 {
                        return -100; // not a bucket address
                    }
                    if a % layout.align() != 0 {
                        return -101;
                    }
                    ((a - *start) / *stride) as i64
                }
                Err(_) => -1,
            },
        }
    }
    /// returns 1 when the release reported `Locked`, -1 on an error result
    fn release(&self, idx: usize, owner: u64, lock: bool) -> i64 {
        let mode = if lock { ReleaseMode::LockIfLastIndex } else { ReleaseMode::Default };
        match self {
            Set::Plain(s) => (unsafe { s.release_raw_index(idx as u32, mode) } == ReleaseState::Locked) as i64,
            Set::Robust(s) => match s.release(idx, OwnerId::new(owner).unwrap(), mode) {
                Ok(st) => (st == ReleaseState::Locked) as i64,
                Err(_) => -1,
            },
            Set::Pool { alloc, start, stride, layout, .. } => {
                unsafe { alloc.deallocate(NonNull::new_unchecked((*start + idx * *stride) as *mut u8), *layout) };
                0
            }
        }
    }
    fn is_locked(&self) -> bool {
        match self {
            Set::Plain(s) => s.is_locked(),
            Set::Robust(s) => s.is_locked(),
            Set::Pool { .. } => false,
        }
    }
    fn borrowed(&self) -> Option<usize> {
        match self {
            Set::Plain(s) => Some(s.borrowed_indices()),
            Set::Robust(s) => Some(s.borrowed_indices()),
            Set::Pool { .. } => None,
        }
    }
}

struct Prog {
    kind: Kind,
    cap: usize,
    threads: Vec<Vec<Op>>,
    /// robust set: indices acquired under the dead owner id before the threads start
    pre_abandon: usize,
}

impl Prog {
    fn gen(rng: &mut Rng, kind: Kind) -> Prog {
        // one program in five (index sets only) is the tiny "last owner leaves with lock-if-last while a newcomer
        // acquires" race: small enough for the exhaustive same-thread double-stall stage of the campaign
        if kind != Kind::Pool && rng.chance(1, 5) {
            let cap = rng.range(1, 2) as usize;
            let mut threads = vec![vec![Op::Acq, Op::RelLockNew], vec![Op::Acq, Op::RelNew]];
            if rng.chance(1, 3) {
                threads.push(vec![Op::Acq, Op::RelLockNew]);
            }
            return Prog { kind, cap, threads, pre_abandon: 0 };
        }
        let cap = rng.range(1, 4) as usize;
        // 40 % of the robust programs are "several cleaners" programs: thread 0 abandons indices
        // under the dead owner id, two other threads recover the dead owner concurrently while all
        // keep acquiring (the stale-resource cleanup pattern of several surviving processes)
        let cleaners = kind == Kind::Robust && rng.chance(2, 5);
        let nt = if cleaners { 3 } else { rng.range(2, 3) as usize };
        let allow_lock = kind != Kind::Pool && !cleaners && rng.chance(1, 3);
        let mut threads = Vec::new();
        for t in 0..nt {
            let n = rng.range(3, 7) as usize;
            let mut v = Vec::new();
            if kind == Kind::Robust && t == 0 && !cleaners && rng.chance(1, 2) {
                for _ in 0..rng.range(1, 2) {
                    v.push(Op::Abandon);
                }
            }
            for _ in 0..n {
                let r = rng.below(20);
                v.push(match r {
                    0..=9 => Op::Acq,
                    10..=13 => Op::RelOld,
                    14..=16 => Op::RelNew,
                    17 => {
                        if allow_lock { Op::RelLockNew } else { Op::RelNew }
                    }
                    _ => {
                        if kind == Kind::Robust && t != 0 {
                            if allow_lock && rng.chance(1, 3) { Op::RecoverLock } else { Op::Recover }
                        } else {
                            Op::Acq
                        }
                    }
                });
            }
            if cleaners && t != 0 {
                let pos = rng.below(v.len() as u64 + 1) as usize;
                v.insert(pos, Op::Recover);
            }
            threads.push(v);
        }
        let pre_abandon = if cleaners { rng.range(1, cap.min(2) as u64) as usize } else { 0 };
        Prog { kind, cap, threads, pre_abandon }
    }
    fn desc(&self) -> Json {
        Json::obj()
            .set("structure", format!("{:?}", self.kind))
            .set("capacity", self.cap)
            .set("indices_abandoned_by_dead_owner_before_start", self.pre_abandon)
            .set("threads", Json::Arr(self.threads.iter().map(|t| Json::Str(t.iter().map(|o| format!("{:?}", o)).collect::<Vec<_>>().join(" "))).collect()))
    }
    fn shape(&self) -> u64 {
        vkit::fnv_str(&self.desc().render())
    }
}

fn make_set(kind: Kind, cap: usize) -> Set {
    match kind {
        Kind::Plain => Set::Plain(FixedSizeUniqueIndexSet::<MAXCAP>::new_with_reduced_capacity(cap).unwrap()),
        Kind::Robust => Set::Robust(StaticRobustUniqueIndexSet::<MAXCAP>::new_with_reduced_capacity(cap).unwrap()),
        Kind::Pool => {
            let layout = Layout::from_size_align(32, 16).unwrap();
            let mut mem = vec![0u8; 32 * cap + 48];
            // deliberately hand over a start that is off by 8 from the bucket alignment
            let base = mem.as_mut_ptr() as usize;
            let first = (base + 15) / 16 * 16 + 8;
            let size = 32 * cap + 8; // aligned start + cap buckets fit exactly
            let alloc = FixedSizePoolAllocator::<16>::new(layout, NonNull::new(first as *mut u8).unwrap(), size);
            let start = (first + 15) / 16 * 16;
            Set::Pool { alloc, _mem: mem, start, stride: 32, layout }
        }
    }
}

fn execute(p: &Prog, mode: &Mode) -> ExecResult {
    let set = make_set(p.kind, p.cap);
    let cap = match &set {
        Set::Pool { alloc, .. } => alloc.number_of_buckets() as usize,
        _ => p.cap,
    };
    let tags: Vec<AtomicU64> = (0..MAXCAP).map(|_| AtomicU64::new(0)).collect();
    let canary: Vec<Canary> = (0..MAXCAP).map(|_| Canary(UnsafeCell::new(0))).collect();
    let abandon_done = AtomicBool::new(!p.threads[0].contains(&Op::Abandon));
    let mut pre_log: Vec<Ev> = Vec::new();
    for _ in 0..p.pre_abandon {
        let call = ts::now();
        let r = set.acquire(DEAD);
        pre_log.push(Ev { t: 99, kind: K_ACQ, a: DEAD as i64, r, call, ret: ts::now() });
    }
    let logs: Mutex<Vec<Vec<Ev>>> = Mutex::new(vec![Vec::new(); p.threads.len()]);
    let online: Mutex<Vec<(String, String)>> = Mutex::new(Vec::new());
    let plain_canary = p.kind != Kind::Robust;

    let mut bodies: Vec<Box<dyn FnOnce() + Send>> = Vec::new();
    for (t, ops) in p.threads.iter().enumerate() {
        let (set, tags, canary, abandon_done, logs, online) = (&set, &tags, &canary, &abandon_done, &logs, &online);
        bodies.push(Box::new(move || {
            let me = t as u64 + 1;
            let mut log: Vec<Ev> = Vec::with_capacity(ops.len() + 8);
            let mut held: Vec<(usize, u64)> = Vec::new(); // (index, canary value)
            let mut bad: Vec<(String, String)> = Vec::new();
            let mut serial = 0u64;
            let mut remaining_abandon = ops.iter().filter(|o| **o == Op::Abandon).count();
            let do_release = |idx: usize, cv: u64, lock: bool, log: &mut Vec<Ev>, bad: &mut Vec<(String, String)>| {
                if plain_canary {
                    let seen = unsafe { *canary[idx].0.get() };
                    if seen != cv {
                        bad.push(("canary_changed_while_held".into(), format!("index {} canary {:#x} expected {:#x}", idx, seen, cv)));
                    }
                }
                if let Set::Pool { start, stride, .. } = set {
                    let b = unsafe { core::slice::from_raw_parts((*start + idx * *stride) as *const u8, 32) };
                    if b.iter().any(|x| *x != cv as u8) {
                        bad.push(("bucket_overwritten_while_held".into(), format!("bucket {} pattern {:#x}", idx, cv as u8)));
                    }
                }
                if tags[idx].swap(0, Relaxed) != me {
                    bad.push(("double_owner".into(), format!("index {} tag not mine at release", idx)));
                }
                let call = ts::now();
                let r = set.release(idx, me, lock);
                let ret = ts::now();
                log.push(Ev { t, kind: if lock { K_RELLOCK } else { K_REL }, a: idx as i64, r, call, ret });
                if r < 0 {
                    bad.push(("release_refused".into(), format!("release of own index {} failed", idx)));
                }
            };
            for op in ops {
                match op {
                    Op::Acq | Op::Abandon => {
                        let owner = if *op == Op::Abandon { DEAD } else { me };
                        let call = ts::now();
                        let r = set.acquire(owner);
                        let ret = ts::now();
                        log.push(Ev { t, kind: K_ACQ, a: owner as i64, r, call, ret });
                        if r <= -100 {
                            bad.push(("bad_bucket_address".into(), format!("allocate returned code {}", r)));
                        } else if r >= 0 {
                            let idx = r as usize;
                            if idx >= cap {
                                bad.push(("index_out_of_bounds".into(), format!("index {} capacity {}", idx, cap)));
                            } else if *op == Op::Acq {
                                if tags[idx].swap(me, Relaxed) != 0 {
                                    bad.push(("double_owner".into(), format!("index {} already tagged at acquire", idx)));
                                }
                                serial += 1;
                                let cv = (me << 32) | (serial << 8) | (0x11 * me + serial) & 0xff;
                                if plain_canary {
                                    unsafe { *canary[idx].0.get() = cv };
                                }
                                if let Set::Pool { start, stride, .. } = set {
                                    unsafe { core::ptr::write_bytes((*start + idx * *stride) as *mut u8, cv as u8, 32) };
                                }
                                held.push((idx, cv));
                            }
                            // abandoned indices carry no online tag: the tag could not be cleared atomically
                            // with `recover`; they are judged by the interval rule over the log instead
                        }
                        if *op == Op::Abandon {
                            remaining_abandon -= 1;
                            if remaining_abandon == 0 {
                                abandon_done.store(true, Relaxed);
                            }
                        }
                    }
                    Op::RelOld | Op::RelNew | Op::RelLockNew => {
                        if !held.is_empty() {
                            let (idx, cv) = if *op == Op::RelOld { held.remove(0) } else { held.pop().unwrap() };
                            do_release(idx, cv, *op == Op::RelLockNew, &mut log, &mut bad);
                        }
                    }
                    Op::Recover | Op::RecoverLock => {
                        if let Set::Robust(s) = set {
                            if abandon_done.load(Relaxed) {
                                let mut mask = 0i64;
                                let call = ts::now();
                                let st = s.recover(
                                    if *op == Op::RecoverLock { ReleaseMode::LockIfLastIndex } else { ReleaseMode::Default },
                                    |o, _| o == OwnerId::new(DEAD).unwrap(),
                                    |_, i| {
                                        mask |= 1 << i;
                                    },
                                );
                                let ret = ts::now();
                                log.push(Ev { t, kind: if *op == Op::RecoverLock { K_RECOVERLOCK } else { K_RECOVER }, a: mask, r: (st == ReleaseState::Locked) as i64, call, ret });
                            }
                        }
                    }
                }
            }
            while let Some((idx, cv)) = held.pop() {
                do_release(idx, cv, false, &mut log, &mut bad);
            }
            logs.lock().unwrap()[t] = log;
            online.lock().unwrap().extend(bad);
        }));
    }
    let stats = sched::run_threads(mode, bodies);
    let mut logs = logs.into_inner().unwrap();
    logs.push(pre_log);
    let mut viol: Vec<(String, String, String)> = online.into_inner().unwrap().into_iter().map(|(r, m)| (r.clone(), format!("{:?}:{}", p.kind, r), m)).collect();
    let mut v = |rule: &str, msg: String| viol.push((rule.to_string(), format!("{:?}:{}", p.kind, rule), msg));

    // ---- post-hoc rules over the merged log ----
    let all: Vec<Ev> = logs.iter().flatten().copied().collect();
    const INF: u64 = u64::MAX;
    // ownership records: (index, acq.call, acq.ret, rel.call, rel.ret)
    let mut own: Vec<(usize, u64, u64, u64, u64)> = Vec::new();
    for tl in &logs {
        let mut open: Vec<(usize, u64, u64)> = Vec::new();
        for e in tl {
            match e.kind {
                K_ACQ if e.r >= 0 && e.a as u64 != DEAD => open.push((e.r as usize, e.call, e.ret)),
                K_REL | K_RELLOCK => {
                    if let Some(pos) = open.iter().position(|o| o.0 == e.a as usize) {
                        let o = open.remove(pos);
                        own.push((o.0, o.1, o.2, e.call, e.ret));
                    }
                }
                _ => {}
            }
        }
        for o in open {
            own.push((o.0, o.1, o.2, INF, INF));
        }
    }
    // abandoned indices are held from their acquire until the recover call that returns them
    let mut abandoned: Vec<(usize, u64, u64)> = Vec::new();
    for e in &all {
        if e.kind == K_ACQ && e.r >= 0 && e.a as u64 == DEAD {
            abandoned.push((e.r as usize, e.call, e.ret));
        }
    }
    let mut recovered_mask = 0i64;
    for e in &all {
        if e.kind == K_RECOVER || e.kind == K_RECOVERLOCK {
            if recovered_mask & e.a != 0 {
                v("recover_duplicate", format!("index mask {:#x} recovered twice", recovered_mask & e.a));
            }
            recovered_mask |= e.a;
            for i in 0..MAXCAP {
                if e.a & (1 << i) != 0 {
                    match abandoned.iter().find(|a| a.0 == i) {
                        Some(a) => {
                            if surely_before(e.ret, a.1) {
                                v("recover_wrong_index", format!("index {} recovered before it was abandoned", i));
                            }
                            own.push((i, a.1, a.2, e.call, e.ret));
                        }
                        None => v("recover_wrong_index", format!("index {} recovered but never held by the dead owner", i)),
                    }
                }
            }
        }
    }
    for a in &abandoned {
        if recovered_mask & (1 << a.0) == 0 {
            own.push((a.0, a.1, a.2, INF, INF));
        }
    }
    // rule: exclusive ownership intervals [acq.ret, rel.call] per index
    let mut by_idx = own.clone();
    by_idx.sort_by_key(|o| (o.0, o.2));
    for w in by_idx.windows(2) {
        if w[0].0 == w[1].0 && surely_before(w[1].2, w[0].3) {
            v("double_owner", format!("index {} owned twice at once: [{},{}] and [{},..]", w[0].0, w[0].2, w[0].3, w[1].2));
        }
    }
    // first completed lock
    let lock_ret = all.iter().filter(|e| matches!(e.kind, K_RELLOCK | K_RECOVERLOCK) && e.r == 1).map(|e| e.ret).min();
    // Locked means "the last owner left": nobody may still hold an index afterwards, however the acquire raced
    // with the lock (an acquire that claimed its cell between the owner count and the lock must have failed)
    if let Some(lr) = lock_ret {
        for o in &own {
            if surely_before(lr, o.3) {
                v("index_held_after_lock", format!("index {} (acquire returned Ok) was still held after a lock-if-last release had returned Locked", o.0));
            }
        }
    }
    for e in &all {
        match e.kind {
            K_ACQ if e.r == -1 => {
                // legitimate only if `cap` indices can have been taken at some instant of the window
                let n = own.iter().filter(|o| maybe_before(o.1, e.ret) && !surely_before(o.4, e.call)).count();
                // an acquire that lost against the lock leaves its cell populated (robust set): count failed-locked acquires as possible holders
                let ghost = if p.kind == Kind::Robust { all.iter().filter(|x| x.kind == K_ACQ && x.r == -2 && maybe_before(x.call, e.ret)).count() } else { 0 };
                if n + ghost < cap {
                    v("spurious_out_of_indices", format!("acquire failed OutOfIndices although at most {} of {} indices could be taken in its window", n, cap));
                }
            }
            K_ACQ if e.r == -2 => {
                // IsLocked is only legitimate if some lock-returning call started before this returned
                let possible = all.iter().any(|x| matches!(x.kind, K_RELLOCK | K_RECOVERLOCK) && maybe_before(x.call, e.ret) && (x.r == 1 || p.kind == Kind::Robust));
                if !possible {
                    v("spurious_locked", "acquire failed IsLocked although no lock-if-last release was ever started before".into());
                }
            }
            K_ACQ if e.r >= 0 => {
                if let Some(lr) = lock_ret {
                    if surely_before(lr, e.call) {
                        v("acquire_after_lock", format!("acquire of index {} succeeded after a release had returned Locked", e.r));
                    }
                }
            }
            K_RELLOCK => {
                if e.r == 1 {
                    if let Some(o) = own.iter().find(|o| surely_before(o.2, e.call) && surely_before(e.ret, o.3)) {
                        v("locked_while_held", format!("release returned Locked while index {} was held during the whole call", o.0));
                    }
                } else if e.r == 0 {
                    let others = own.iter().filter(|o| !(o.0 == e.a as usize && o.3 == e.call) && maybe_before(o.1, e.ret) && !surely_before(o.4, e.call)).count();
                    let ghost = if p.kind == Kind::Robust { all.iter().filter(|x| x.kind == K_ACQ && x.r == -2 && maybe_before(x.call, e.ret)).count() } else { 0 };
                    if others + ghost == 0 && lock_ret.is_none() {
                        v("last_release_did_not_lock", format!("release(LockIfLastIndex) of index {} returned Unlocked although no other index could be held", e.a));
                    }
                }
            }
            _ => {}
        }
    }
    // ---- quiescent probes ----
    let locked_reported = lock_ret.is_some();
    // (the robust `recover(LockIfLastIndex)` may lock without telling through its first return value path; trust is_locked there)
    let is_locked = set.is_locked();
    if locked_reported && !is_locked {
        v("lock_lost", "a release returned Locked but the set is not locked at the end".into());
    }
    if !locked_reported && is_locked && !(p.kind == Kind::Robust && all.iter().any(|e| e.kind == K_RECOVERLOCK)) {
        v("locked_without_report", "the set is locked although no release reported Locked".into());
    }
    let still_abandoned: Vec<usize> = abandoned.iter().filter(|a| recovered_mask & (1 << a.0) == 0).map(|a| a.0).collect();
    if is_locked {
        if set.acquire(77) != -2 {
            v("acquire_after_lock", "acquire on the locked set did not fail with IsLocked at quiescence".into());
        }
    } else {
        if let Set::Robust(s) = &set {
            // final recovery must return exactly what is still abandoned
            let mut got = Vec::new();
            s.recover(ReleaseMode::Default, |o, _| o == OwnerId::new(DEAD).unwrap(), |_, i| got.push(i));
            got.sort();
            let mut exp = still_abandoned.clone();
            exp.sort();
            if got != exp {
                v("recover_wrong_index", format!("final recover returned {:?}, the dead owner held {:?}", got, exp));
            }
        }
        if let Some(b) = set.borrowed() {
            if b != 0 {
                v("borrowed_count_wrong", format!("borrowed_indices() = {} with nothing held", b));
            }
        }
        let mut got = Vec::new();
        for _ in 0..cap {
            got.push(set.acquire(77));
        }
        let extra = set.acquire(77);
        let mut s = got.clone();
        s.sort();
        s.dedup();
        if got.iter().any(|i| *i < 0) {
            v("index_leaked", format!("only {} of {} indices acquirable after everything was released: {:?}", got.iter().filter(|i| **i >= 0).count(), cap, got));
        } else if s.len() != cap || s.iter().any(|i| *i as usize >= cap) {
            v("double_owner", format!("leak probe returned duplicate or out-of-range indices {:?}", got));
        }
        if extra != -1 {
            v("capacity_exceeded", format!("acquire number capacity+1 returned {}", extra));
        }
    }
    // non-trivial: operations of different threads overlapped in time
    let mut overlapped = false;
    'o: for a in &all {
        for b in &all {
            if a.t < b.t && a.call < b.ret && b.call < a.ret {
                overlapped = true;
                break 'o;
            }
        }
    }
    let mut obs = 0u64;
    for e in &all {
        obs = vkit::mix(obs, (e.kind as u64) << 32 ^ (e.r as u64) ^ ((e.t as u64) << 48));
    }
    ExecResult { stats, violations: viol, nontrivial: overlapped, observed: obs, inconclusive: false }
}

pub fn run(args: &Args) -> Report {
    let seed = args.u64("seed", 1);
    let shard = args.u64("shard", 0);
    let b = Budget::from_args(args);
    let kinds: Vec<Kind> = match args.str("kind", "all").as_str() {
        "plain" => vec![Kind::Plain],
        "robust" => vec![Kind::Robust],
        "pool" => vec![Kind::Pool],
        _ => vec![Kind::Plain, Kind::Robust, Kind::Pool],
    };
    let mut rep = Report::new();
    let mut i = 0u64;
    while i < b.max_progs && !b.expired() {
        let pi = b.only_prog.unwrap_or(i);
        let mut rng = Rng::derive(&[seed, shard, pi, 9]);
        let kind = kinds[(pi % kinds.len() as u64) as usize];
        let prog = Prog::gen(&mut rng, kind);
        let desc = prog.desc();
        let replay = format!("c09 --seed {} --shard {} --only-prog {} --kind {}", seed, shard, pi, args.str("kind", "all"));
        rep.count(&format!("programs_{:?}", kind), 1);
        if i < 2 {
            rep.sample(desc.clone());
        }
        campaign(&mut rep, &mut rng, &b, "C09", &desc, &replay, prog.shape(), &mut |m| execute(&prog, m));
        i += 1;
        if b.only_prog.is_some() {
            break;
        }
    }
    rep.count("programs", i);
    rep
}

// ---------------------------------------------------------------------------------------------
// Owner dies INSIDE acquire / release of the robust index set (atomic-operation death points):
// recovery of the dead owner must give back exactly what it held, afterwards every index is
// acquirable again and nothing is counted as borrowed.
#[cfg(iceoryx2_verif)]
mod midop {
    use super::*;
    use iceoryx2_bb_concurrency::verif::{set_hook, OpKind, Phase};
    use std::sync::atomic::{AtomicU64, Ordering::Relaxed};

    static COUNT: AtomicU64 = AtomicU64::new(0);
    static DIE_AT: AtomicU64 = AtomicU64::new(0);
    struct Died;

    fn hook(_p: Phase, _k: OpKind, _a: usize, _w: bool) {
        let c = COUNT.fetch_add(1, Relaxed) + 1;
        if c == DIE_AT.load(Relaxed) {
            std::panic::resume_unwind(Box::new(Died));
        }
    }
    fn armed<R>(die_at: u64, f: impl FnOnce() -> R) -> Result<R, ()> {
        COUNT.store(0, Relaxed);
        DIE_AT.store(die_at, Relaxed);
        set_hook(Some(hook));
        let r = std::panic::catch_unwind(std::panic::AssertUnwindSafe(f));
        set_hook(None);
        match r {
            Ok(v) => Ok(v),
            Err(p) => {
                if p.downcast_ref::<Died>().is_some() { Err(()) } else { std::panic::resume_unwind(p) }
            }
        }
    }

    fn case<const CAP: usize>(rep: &mut Report, live_held: usize, victim_releases: bool, lock_mode: bool) {
        let live = OwnerId::new(7).unwrap();
        let dead = OwnerId::new(DEAD).unwrap();
        let mut k = 1u64;
        loop {
            let s = StaticRobustUniqueIndexSet::<CAP>::new();
            let mut live_idx = Vec::new();
            for _ in 0..live_held {
                if let Ok(i) = s.acquire(live) {
                    live_idx.push(i);
                }
            }
            let victim_idx = if victim_releases { s.acquire(dead).ok() } else { None };
            if victim_releases && victim_idx.is_none() {
                return;
            }
            let mode = if lock_mode { ReleaseMode::LockIfLastIndex } else { ReleaseMode::Default };
            let r = match victim_idx {
                Some(i) => armed(k, || s.release(i, dead, mode).is_ok()),
                None => armed(k, || s.acquire(dead).is_ok()),
            };
            let died = r.is_err();
            rep.execs += 1;
            let what = format!("{} interrupted before its atomic operation #{} (capacity {}, {} indices held by a live owner{})", if victim_releases { if lock_mode { "release(LockIfLastIndex)" } else { "release" } } else { "acquire" }, k, CAP, live_idx.len(), if died { "" } else { "; call completed" });
            let opn = if victim_releases { "release" } else { "acquire" };
            // the survivor recovers the dead owner
            let mut got = Vec::new();
            s.recover(ReleaseMode::Default, |o, _| o == dead, |_, i| got.push(i));
            if got.iter().any(|i| live_idx.contains(i)) {
                rep.violation("recover_wrong_index", format!("C09:midop:{}:recover_wrong_index", opn), format!("{}: recover of the dead owner returned {:?}, the live owner holds {:?}", what, got, live_idx), Json::obj());
            }
            let locked = s.is_locked();
            if locked && !(lock_mode && victim_releases && live_idx.is_empty()) {
                rep.violation("locked_without_report", format!("C09:midop:{}:locked_without_report", opn), format!("{}: the set is locked afterwards", what), Json::obj());
            }
            if !locked {
                // nothing of the dead owner may remain: the live owner can take every other index, and the count agrees
                let b = s.borrowed_indices();
                if b != live_idx.len() {
                    rep.violation("borrowed_count_wrong", format!("C09:midop:{}:borrowed_count_wrong", opn), format!("{}: after recover borrowed_indices() = {} but only the live owner's {} are held", what, b, live_idx.len()), Json::obj());
                }
                let mut extra = Vec::new();
                while let Ok(i) = s.acquire(live) {
                    extra.push(i);
                    if extra.len() > CAP {
                        break;
                    }
                }
                if extra.len() + live_idx.len() != CAP || extra.iter().any(|i| live_idx.contains(i)) {
                    rep.violation("index_leaked_by_dead_owner", format!("C09:midop:{}:index_leaked_by_dead_owner", opn), format!("{}: after recover the live owner could acquire {:?} in addition to {:?} of capacity {}", what, extra, live_idx, CAP), Json::obj());
                }
            }
            if died {
                rep.nontrivial += 1;
                rep.distinct(vkit::fnv_str(&format!("{}{}{}{}{}", CAP, live_held, victim_releases, lock_mode, k)));
                rep.count("owner_died_inside_operation", 1);
                k += 1;
            } else {
                break;
            }
        }
    }

    pub fn run(_args: &Args) -> Report {
        let mut rep = Report::new();
        macro_rules! grid {
            ($cap:literal) => {
                for held in 0..$cap {
                    case::<$cap>(&mut rep, held, false, false);
                    case::<$cap>(&mut rep, held, true, false);
                    case::<$cap>(&mut rep, held, true, true);
                }
            };
        }
        grid!(1);
        grid!(2);
        grid!(3);
        rep.sample(Json::obj().set("victim_operations", "acquire, release, release(LockIfLastIndex)").set("death_points", "before every atomic operation of the call").set("capacities", "1-3"));
        rep
    }
}
#[cfg(iceoryx2_verif)]
pub fn run_midop(args: &Args) -> Report {
    midop::run(args)
}
#[cfg(not(iceoryx2_verif))]
pub fn run_midop(_args: &Args) -> Report {
    Report::new()
}
