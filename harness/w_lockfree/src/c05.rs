//! C05 (lock-free core) — the two event-state implementations: `BitSet` and `CountingBitSet`.
//!
//! 1..3 setter threads activate ids while one drainer thread collects (`reset_all`, for the plain
//! set also `reset_next`). Rules on the logs (timestamps with margin):
//!   no phantom   : a drained id was set by a `set` that had begun before the drain ended
//!   no loss      : an id whose `set` completed is reported by a drain that started afterwards or by
//!                  the final quiescent drain (merging is allowed for the plain set, never loss)
//!   counting     : for the counting set the drained counts of an id add up EXACTLY to the number of
//!                  `set` calls (after the final drain), and on every prefix never exceed the started ones
//!   return value : plain `set` returns true iff it changed the bit: between two reports of an id at most
//!                  ... (checked as: number of `true` results of an id == number of times it was drained,
//!                  after quiescence)
use crate::common::*;
use iceoryx2_bb_lock_free::mpmc::bit_set::BitSet;
use iceoryx2_bb_lock_free::mpmc::counting_bit_set::CountingBitSet;
use std::sync::Mutex;
use vkit::sched::{self, Mode};
use vkit::{ts, Args, Json, Report, Rng};

const K_SET: u8 = 1;
const K_DRAIN: u8 = 2;

#[derive(Clone, Debug)]
struct Prog {
    counting: bool,
    capacity: usize,
    setters: Vec<Vec<usize>>, // ids per setter thread
    drains: Vec<bool>,        // true = reset_all, false = reset_next (plain only)
}

impl Prog {
    fn gen(rng: &mut Rng) -> Prog {
        let counting = rng.chance(1, 2);
        let capacity = *rng.pick(&[1usize, 2, 3, 64, 65, 130]);
        let ids: Vec<usize> = (0..rng.range(1, 3)).map(|_| rng.below(capacity as u64) as usize).collect();
        let nset = rng.range(1, 3) as usize;
        let setters = (0..nset).map(|_| (0..rng.range(1, 5)).map(|_| *rng.pick(&ids)).collect()).collect();
        let drains = (0..rng.range(1, 5)).map(|_| counting || rng.chance(2, 3)).collect();
        Prog { counting, capacity, setters, drains }
    }
    fn desc(&self) -> Json {
        Json::obj().set("event_state", if self.counting { "CountingBitSet" } else { "BitSet" }).set("capacity", self.capacity).set("setters", format!("{:?}", self.setters)).set("drains", format!("{:?}", self.drains))
    }
}

enum Set {
    P(BitSet),
    C(CountingBitSet),
}

fn execute(p: &Prog, mode: &Mode) -> ExecResult {
    let set = if p.counting { Set::C(CountingBitSet::new(p.capacity)) } else { Set::P(BitSet::new(p.capacity)) };
    let n = p.setters.len() + 1;
    let logs: Mutex<Vec<Vec<Ev>>> = Mutex::new(vec![Vec::new(); n]);
    // drained entries: (drain index in the drainer's log, id, count)
    let drained: Mutex<Vec<(usize, usize, u64)>> = Mutex::new(Vec::new());
    let mut bodies: Vec<Box<dyn FnOnce() + Send>> = Vec::new();
    for (t, ids) in p.setters.iter().enumerate() {
        let (set, logs) = (&set, &logs);
        bodies.push(Box::new(move || {
            let mut log = Vec::new();
            for id in ids {
                let call = ts::now();
                let r = match set {
                    Set::P(s) => s.set(*id) as i64,
                    Set::C(s) => s.set(*id) as i64,
                };
                log.push(Ev { t, kind: K_SET, a: *id as i64, r, call, ret: ts::now() });
            }
            logs.lock().unwrap()[t] = log;
        }));
    }
    {
        let (set, logs, drained, t) = (&set, &logs, &drained, n - 1);
        let drains = p.drains.clone();
        bodies.push(Box::new(move || {
            let mut log = Vec::new();
            for (di, all) in drains.iter().enumerate() {
                let call = ts::now();
                let mut got: Vec<(usize, u64)> = Vec::new();
                match set {
                    Set::P(s) => {
                        if *all {
                            s.reset_all(|id| got.push((id, 1)));
                        } else if let Some(id) = s.reset_next() {
                            got.push((id, 1));
                        }
                    }
                    Set::C(s) => s.reset_all(|b| got.push((b.bit(), b.count()))),
                }
                log.push(Ev { t, kind: K_DRAIN, a: di as i64, r: got.len() as i64, call, ret: ts::now() });
                let mut d = drained.lock().unwrap();
                for (id, c) in got {
                    d.push((di, id, c));
                }
            }
            logs.lock().unwrap()[t] = log;
        }));
    }
    let stats = sched::run_threads(mode, bodies);
    let logs = logs.into_inner().unwrap();
    let mut drained = drained.into_inner().unwrap();
    // final quiescent drain
    let mut fin: Vec<(usize, u64)> = Vec::new();
    match &set {
        Set::P(s) => s.reset_all(|id| fin.push((id, 1))),
        Set::C(s) => s.reset_all(|b| fin.push((b.bit(), b.count()))),
    }
    let mut again = 0;
    match &set {
        Set::P(s) => s.reset_all(|_| again += 1),
        Set::C(s) => s.reset_all(|_| again += 1),
    }
    let mut viol: Vec<(String, String, String)> = Vec::new();
    let mut v = |rule: &str, msg: String| viol.push((rule.to_string(), format!("bits:{}", rule), msg));
    if again != 0 {
        v("drained_twice", format!("{} ids were reported again by a second quiescent drain", again));
    }
    let sets: Vec<Ev> = logs.iter().flatten().filter(|e| e.kind == K_SET).copied().collect();
    let drains: Vec<Ev> = logs.iter().flatten().filter(|e| e.kind == K_DRAIN).copied().collect();
    let final_di = drains.len();
    for (id, c) in &fin {
        drained.push((final_di, *id, *c));
    }
    let drain_iv = |di: usize| -> (u64, u64) { if di == final_di { (u64::MAX - 1_000_000_000, u64::MAX - 1_000_000_000) } else { (drains[di].call, drains[di].ret) } };
    let mut overlap = false;
    let ids: std::collections::BTreeSet<usize> = sets.iter().map(|e| e.a as usize).chain(drained.iter().map(|d| d.1)).collect();
    for id in ids {
        let s_id: Vec<&Ev> = sets.iter().filter(|e| e.a as usize == id).collect();
        let d_id: Vec<&(usize, usize, u64)> = drained.iter().filter(|d| d.1 == id).collect();
        if id >= p.capacity {
            v("phantom_id", format!("id {} beyond the capacity {} was reported", id, p.capacity));
            continue;
        }
        // no phantom: every report needs a set that had begun before the drain ended
        for d in &d_id {
            let (_, dret) = drain_iv(d.0);
            if !s_id.iter().any(|s| maybe_before(s.call, dret)) {
                v("phantom_id", format!("id {} was reported by drain #{} although no set({}) had begun", id, d.0, id));
            }
        }
        // no loss: a completed set is followed by a report of its id
        for s in &s_id {
            let ok = d_id.iter().any(|d| {
                let (dcall, dret) = drain_iv(d.0);
                let _ = dcall;
                // the drain that reports it must not have ended before the set began
                maybe_before(s.call, dret)
            });
            if !ok {
                v("lost_activation", format!("set({}) completed but no drain that ended after it began (nor the final quiescent drain) reported the id", id));
            }
            if d_id.iter().any(|d| {
                let (dcall, dret) = drain_iv(d.0);
                d.0 != final_di && maybe_before(s.call, dret) && !surely_before(s.ret, dcall)
            }) {
                overlap = true;
            }
        }
        let total_sets = s_id.len() as u64;
        let total_reported: u64 = d_id.iter().map(|d| d.2).sum();
        if p.counting {
            if total_reported != total_sets {
                v("count_not_conserved", format!("id {}: {} set calls but the drains reported a total count of {}", id, total_sets, total_reported));
            }
            // prefix rule: counts reported by drains that ended before some time never exceed sets begun before
            for d in &d_id {
                let (_, dret) = drain_iv(d.0);
                let reported_until: u64 = d_id.iter().filter(|x| x.0 <= d.0).map(|x| x.2).sum();
                let begun = s_id.iter().filter(|s| maybe_before(s.call, dret)).count() as u64;
                if reported_until > begun {
                    v("more_occurrences_than_sent", format!("id {}: drains up to #{} reported {} occurrences, only {} set calls had begun", id, d.0, reported_until, begun));
                }
            }
        } else {
            if total_reported > total_sets {
                v("more_occurrences_than_sent", format!("id {}: reported {} times, set {} times", id, total_reported, total_sets));
            }
            // `set` returns true iff it switched the bit on: every report consumes exactly one such switch
            let switched = s_id.iter().filter(|s| s.r == 1).count() as u64;
            if switched != total_reported {
                v("set_result_inconsistent", format!("id {}: {} set calls returned true (bit newly set) but the id was reported {} times", id, switched, total_reported));
            }
        }
    }
    let mut obs = 0u64;
    for d in &drained {
        obs = vkit::mix(obs, ((d.0 as u64) << 32) ^ ((d.1 as u64) << 8) ^ d.2);
    }
    for s in &sets {
        obs = vkit::mix(obs, (s.t as u64) << 8 ^ s.r as u64);
    }
    ExecResult { stats, violations: viol, nontrivial: overlap, observed: obs, inconclusive: false }
}

pub fn run(args: &Args) -> Report {
    let seed = args.u64("seed", 1);
    let shard = args.u64("shard", 0);
    let b = Budget::from_args(args);
    let mut rep = Report::new();
    let mut i = 0u64;
    while i < b.max_progs && !b.expired() {
        let pi = b.only_prog.unwrap_or(i);
        let mut rng = Rng::derive(&[seed, shard, pi, 505]);
        let prog = Prog::gen(&mut rng);
        let desc = prog.desc();
        let replay = format!("c05 --seed {} --shard {} --only-prog {}", seed, shard, pi);
        if i < 2 {
            rep.sample(desc.clone());
        }
        rep.count(if prog.counting { "programs_counting_bit_set" } else { "programs_bit_set" }, 1);
        campaign(&mut rep, &mut rng, &b, "C05", &desc, &replay, vkit::fnv_str(&format!("{:?}", prog)), &mut |m| execute(&prog, m));
        i += 1;
        if b.only_prog.is_some() {
            break;
        }
    }
    rep.count("programs", i);
    rep
}
