//! C12 (lock-free core) — `UnrestrictedAtomic`: reads are atomic (never a mixture of two writes),
//! monotone per reader, and at most one producer exists at a time.
//!
//! Values are self-checking (`byte[i] = f(version, i)`), sizes 1..200 bytes, alignments 1/8/64.
//! Threads: a writer (copy-style and loan-style stores, sometimes giving the producer token back),
//! an optional contender that tries to get the producer token, 1..2 readers.
use crate::common::*;
use iceoryx2_bb_lock_free::spmc::unrestricted_atomic::UnrestrictedAtomic;
use std::sync::atomic::{AtomicU64, Ordering::Relaxed};
use std::sync::Mutex;
use vkit::sched::{self, Mode};
use vkit::{ts, Args, Json, Report, Rng};

pub trait Val: Copy + Send + Sync + 'static {
    fn make(v: u64) -> Self;
    /// Ok(version) or Err(first byte) when the bytes are not one consistent write
    fn decode(&self) -> Result<u64, u8>;
}

fn byte(v: u64, i: usize) -> u8 {
    if i == 0 {
        v as u8
    } else {
        (v.wrapping_mul(31).wrapping_add(i as u64 * 7).wrapping_add(v >> 3)) as u8
    }
}

macro_rules! val_impl {
    ($name:ident, $align:literal) => {
        #[derive(Clone, Copy)]
        #[repr(C, align($align))]
        pub struct $name<const N: usize>([u8; N]);
        impl<const N: usize> Val for $name<N> {
            fn make(v: u64) -> Self {
                let mut x = [0u8; N];
                for (i, b) in x.iter_mut().enumerate() {
                    *b = byte(v, i);
                }
                $name(x)
            }
            fn decode(&self) -> Result<u64, u8> {
                let v = self.0[0] as u64;
                for (i, b) in self.0.iter().enumerate() {
                    if *b != byte(v, i) {
                        return Err(self.0[0]);
                    }
                }
                Ok(v)
            }
        }
    };
}
val_impl!(A1, 1);
val_impl!(A8, 8);
val_impl!(A64, 64);

#[derive(Clone, Copy, Debug, PartialEq, Eq)]
enum WOp {
    Store,
    LoanStore,
    /// give the producer token back and take it again
    Reacquire,
}

struct Prog {
    size: usize,
    align: usize,
    writer: Vec<WOp>,
    contender_tries: usize,
    readers: Vec<usize>,
}

const SIZES: [usize; 10] = [1, 2, 3, 7, 8, 9, 63, 64, 65, 200];

impl Prog {
    fn gen(rng: &mut Rng, single_store: bool) -> Prog {
        let size = *rng.pick(&SIZES);
        let align = *rng.pick(&[1usize, 1, 8, 64]);
        let k = if single_store { 1 } else { *rng.pick(&[1usize, 2, 3, 3, 6, 12]) };
        let mut writer = Vec::new();
        for _ in 0..k {
            writer.push(if rng.chance(1, 3) { WOp::LoanStore } else { WOp::Store });
            if !single_store && rng.chance(1, 6) {
                writer.push(WOp::Reacquire);
            }
        }
        let contender_tries = if single_store || rng.chance(1, 2) { 0 } else { rng.range(1, 4) as usize };
        let readers = (0..rng.range(1, 2)).map(|_| rng.range(2, 8) as usize).collect();
        Prog { size, align, writer, contender_tries, readers }
    }
    fn desc(&self) -> Json {
        Json::obj()
            .set("value_bytes", self.size)
            .set("value_align", self.align)
            .set("writer", self.writer.iter().map(|o| format!("{:?}", o)).collect::<Vec<_>>().join(" "))
            .set("contender_acquire_attempts", self.contender_tries)
            .set("loads_per_reader", self.readers.clone())
    }
    fn shape(&self) -> u64 {
        vkit::fnv_str(&self.desc().render())
    }
}

// event kinds
const K_STORE: u8 = 1; // a = version
const K_LOAD: u8 = 2; // r = version | -1 torn (a = first byte)
const K_TOKEN: u8 = 3; // a = 0 refused, otherwise release *return* time; call/ret of acquire; r = release *call* time

fn execute<T: Val>(p: &Prog, mode: &Mode) -> ExecResult {
    let a = UnrestrictedAtomic::<T>::new(T::make(0));
    let next = AtomicU64::new(1);
    let nthreads = 1 + (p.contender_tries > 0) as usize + p.readers.len();
    let logs: Mutex<Vec<Vec<Ev>>> = Mutex::new(vec![Vec::new(); nthreads]);
    let mut bodies: Vec<Box<dyn FnOnce() + Send>> = Vec::new();
    {
        let (a, next, logs, ops) = (&a, &next, &logs, &p.writer);
        bodies.push(Box::new(move || {
            let mut log = Vec::new();
            let c0 = ts::now();
            let mut prod = a.acquire_producer();
            let mut tok = Ev { t: 0, kind: K_TOKEN, a: prod.is_some() as i64, r: 0, call: c0, ret: ts::now() };
            for op in ops {
                match op {
                    WOp::Store | WOp::LoanStore => {
                        if let Some(pr) = &prod {
                            let v = next.fetch_add(1, Relaxed);
                            let call = ts::now();
                            if *op == WOp::Store {
                                pr.store(T::make(v));
                            } else {
                                unsafe {
                                    pr.__internal_get_ptr_to_write_cell().write(T::make(v));
                                    pr.__internal_update_write_cell();
                                }
                            }
                            log.push(Ev { t: 0, kind: K_STORE, a: v as i64, r: 0, call, ret: ts::now() });
                        }
                    }
                    WOp::Reacquire => {
                        if prod.is_some() {
                            tok.r = ts::now() as i64;
                            drop(prod.take());
                            tok.a = ts::now() as i64; // a = release return time for acquired tokens
                            log.push(tok);
                        }
                        let c = ts::now();
                        prod = a.acquire_producer();
                        tok = Ev { t: 0, kind: K_TOKEN, a: prod.is_some() as i64, r: 0, call: c, ret: ts::now() };
                    }
                }
            }
            let had = prod.is_some();
            if had {
                tok.r = ts::now() as i64;
            }
            drop(prod);
            if had {
                tok.a = ts::now() as i64;
            }
            log.push(tok);
            logs.lock().unwrap()[0] = log;
        }));
    }
    let mut tid = 1;
    if p.contender_tries > 0 {
        let (a, next, logs, n, t) = (&a, &next, &logs, p.contender_tries, tid);
        bodies.push(Box::new(move || {
            let mut log = Vec::new();
            for _ in 0..n {
                let c = ts::now();
                let prod = a.acquire_producer();
                let mut tok = Ev { t, kind: K_TOKEN, a: prod.is_some() as i64, r: 0, call: c, ret: ts::now() };
                if let Some(pr) = &prod {
                    let v = next.fetch_add(1, Relaxed);
                    let call = ts::now();
                    pr.store(T::make(v));
                    log.push(Ev { t, kind: K_STORE, a: v as i64, r: 0, call, ret: ts::now() });
                    tok.r = ts::now() as i64;
                }
                let had = prod.is_some();
                drop(prod);
                if had {
                    tok.a = ts::now() as i64;
                }
                log.push(tok);
            }
            logs.lock().unwrap()[t] = log;
        }));
        tid += 1;
    }
    for n in &p.readers {
        let (a, logs, n, t) = (&a, &logs, *n, tid);
        bodies.push(Box::new(move || {
            let mut log = Vec::new();
            for _ in 0..n {
                let call = ts::now();
                let x = a.load();
                let ret = ts::now();
                match x.decode() {
                    Ok(v) => log.push(Ev { t, kind: K_LOAD, a: 0, r: v as i64, call, ret }),
                    Err(b) => log.push(Ev { t, kind: K_LOAD, a: b as i64, r: -1, call, ret }),
                }
            }
            logs.lock().unwrap()[t] = log;
        }));
        tid += 1;
    }
    let stats = sched::run_threads(mode, bodies);
    let logs = logs.into_inner().unwrap();
    let mut viol: Vec<(String, String, String)> = Vec::new();
    let mut v = |rule: &str, msg: String| viol.push((rule.to_string(), format!("atomic:{}", rule), msg));
    let all: Vec<Ev> = logs.iter().flatten().copied().collect();
    let stores: Vec<Ev> = all.iter().filter(|e| e.kind == K_STORE).copied().collect();
    let last_version = stores.iter().map(|e| e.a).max().unwrap_or(0);
    let mut concurrent = false;
    for tl in &logs {
        let mut last = -1i64;
        for e in tl.iter().filter(|e| e.kind == K_LOAD) {
            if e.r < 0 {
                v("torn_read", format!("load returned a mixture of two writes (first byte {}) for a {}-byte value", e.a, p.size));
                continue;
            }
            if e.r < last {
                v("version_went_backwards", format!("reader saw version {} after version {}", e.r, last));
            }
            last = e.r;
            if e.r > 0 && !stores.iter().any(|s| s.a == e.r && maybe_before(s.call, e.ret)) {
                v("invented_value", format!("load returned version {} whose store had not begun", e.r));
            }
            if let Some(s) = stores.iter().filter(|s| surely_before(s.ret, e.call)).map(|s| s.a).max() {
                if e.r < s {
                    v("stale_read", format!("load returned version {} although store({}) had completed before the load began", e.r, s));
                }
            }
            if stores.iter().any(|s| maybe_before(s.call, e.ret) && !surely_before(s.ret, e.call)) {
                concurrent = true;
            }
        }
    }
    // producer token exclusivity: holding intervals [acquire.ret, release.call] must not overlap
    let mut toks: Vec<Ev> = all.iter().filter(|e| e.kind == K_TOKEN && e.a != 0).copied().collect();
    toks.sort_by_key(|e| e.ret);
    for w in toks.windows(2) {
        let rel0 = if w[0].r == 0 { u64::MAX } else { w[0].r as u64 };
        if surely_before(w[1].ret, rel0) {
            v("two_producers", "two producer tokens were held at the same time".into());
        }
    }
    for e in all.iter().filter(|e| e.kind == K_TOKEN && e.a == 0) {
        // refusal is legitimate only if some token could be held during the call
        let possible = toks.iter().any(|t| maybe_before(t.call, e.ret) && !surely_before(t.a as u64, e.call));
        if !possible {
            v("spurious_producer_refusal", "acquire_producer failed although no producer could exist".into());
        }
    }
    // stores of overlapping producers are already a violation; also check the version order of stores
    let mut st = stores.clone();
    st.sort_by_key(|e| e.call);
    // quiescent: final value is the newest version, a new producer can be acquired, second one refused
    match a.load().decode() {
        Ok(x) if x as i64 == last_version => {}
        Ok(x) => {
            // with two producers handing over, "newest" is the store that was executed last
            let last_by_time = st.last().map(|e| e.a).unwrap_or(0);
            if x as i64 != last_by_time {
                v("final_value_wrong", format!("final value is version {}, last store wrote {}", x, last_by_time));
            }
        }
        Err(_) => v("torn_read", "final value at quiescence is torn".into()),
    }
    let p1 = a.acquire_producer();
    if p1.is_none() {
        v("producer_token_lost", "no producer can be acquired after all producers were dropped".into());
    } else if a.acquire_producer().is_some() {
        v("two_producers", "a second producer could be acquired while one exists (quiescent)".into());
    }
    let mut obs = 0u64;
    for e in &all {
        if e.kind != K_STORE {
            obs = vkit::mix(obs, ((e.t as u64) << 40) ^ ((e.kind as u64) << 32) ^ if e.kind == K_TOKEN { (e.a != 0) as u64 } else { (e.r as u64 & 0xffff) ^ ((e.a as u64) << 16) });
        }
    }
    ExecResult { stats, violations: viol, nontrivial: concurrent, observed: obs, inconclusive: false }
}

fn dispatch(p: &Prog, mode: &Mode) -> ExecResult {
    macro_rules! d {
        ($($n:literal),*) => {
            match (p.size, p.align) {
                $(($n, 1) => execute::<A1<$n>>(p, mode),
                  ($n, 8) => execute::<A8<$n>>(p, mode),
                  ($n, _) => execute::<A64<$n>>(p, mode),)*
                _ => unreachable!(),
            }
        };
    }
    d!(1, 2, 3, 7, 8, 9, 63, 64, 65, 200)
}

// ---------------------------------------------------------------------------------------------
// long real-thread runs ("hammer"): one writer mixing copy stores and slow two-phase loan fills, two
// readers loading in a tight loop; values carry their full version, so tearing AND going backwards are
// visible after millions of loads. Complements the tiny programs above, whose stall plans reach windows
// between atomic operations but not a window that needs a publish plus a half-finished next fill inside
// one reader's load.
pub trait HVal: Copy + Send + Sync + 'static {
    const NAME: &'static str;
    fn make(v: u64) -> Self;
    /// Err = mixture of two writes; Ok(Some(v)) = consistent with a comparable version
    fn decode(&self) -> Result<Option<u64>, ()>;
}
#[derive(Clone, Copy)]
#[repr(C)]
pub struct H2([u8; 2]);
impl HVal for H2 {
    const NAME: &'static str = "2B";
    fn make(v: u64) -> Self {
        H2([v as u8, !(v as u8)])
    }
    fn decode(&self) -> Result<Option<u64>, ()> {
        if self.0[1] == !self.0[0] { Ok(None) } else { Err(()) }
    }
}
#[derive(Clone, Copy)]
#[repr(C)]
pub struct H5([u8; 5]);
impl HVal for H5 {
    const NAME: &'static str = "5B";
    fn make(v: u64) -> Self {
        let v = v & 0xff; // decode recomputes the bytes from the first byte alone
        let mut x = [0u8; 5];
        for (i, b) in x.iter_mut().enumerate() {
            *b = byte(v, i);
        }
        H5(x)
    }
    fn decode(&self) -> Result<Option<u64>, ()> {
        let v = self.0[0] as u64;
        if self.0.iter().enumerate().all(|(i, b)| *b == byte(v, i)) { Ok(None) } else { Err(()) }
    }
}
#[derive(Clone, Copy)]
#[repr(C)]
pub struct H8 {
    a: u32,
    b: u32,
}
impl HVal for H8 {
    const NAME: &'static str = "8B(u32,u32)";
    fn make(v: u64) -> Self {
        H8 { a: v as u32, b: !(v as u32) }
    }
    fn decode(&self) -> Result<Option<u64>, ()> {
        if self.b == !self.a { Ok(Some(self.a as u64)) } else { Err(()) }
    }
}
#[derive(Clone, Copy)]
#[repr(C)]
pub struct H24([u64; 3]);
impl HVal for H24 {
    const NAME: &'static str = "24B";
    fn make(v: u64) -> Self {
        H24([v, !v, v.wrapping_mul(31)])
    }
    fn decode(&self) -> Result<Option<u64>, ()> {
        if self.0[1] == !self.0[0] && self.0[2] == self.0[0].wrapping_mul(31) { Ok(Some(self.0[0])) } else { Err(()) }
    }
}

fn hammer<T: HVal>(rep: &mut Report, millis: u64, seed: u64) {
    use std::sync::atomic::AtomicBool;
    let a = UnrestrictedAtomic::<T>::new(T::make(0));
    let stop = AtomicBool::new(false);
    let stores = AtomicU64::new(0);
    // per reader: loads, torn, backwards, distinct versions seen, first witness
    let res: Mutex<Vec<(u64, u64, u64, u64, String)>> = Mutex::new(Vec::new());
    std::thread::scope(|sc| {
        sc.spawn(|| {
            let pr = a.acquire_producer().expect("fresh atomic has no producer");
            let mut rng = Rng::derive(&[seed, 1212]);
            let t0 = std::time::Instant::now();
            let mut v = 1u64;
            while t0.elapsed().as_millis() < millis as u128 {
                for _ in 0..64 {
                    if rng.chance(1, 2) {
                        pr.store(T::make(v));
                    } else {
                        // loan style: the user fills the cell at leisure, byte by byte, then publishes
                        let val = T::make(v);
                        let n = core::mem::size_of::<T>();
                        unsafe {
                            let dst = pr.__internal_get_ptr_to_write_cell() as *mut u8;
                            let src = &val as *const T as *const u8;
                            for i in 0..n {
                                dst.add(i).write_volatile(*src.add(i));
                                if i + 1 == (n + 1) / 2 {
                                    for _ in 0..rng.below(40) {
                                        std::hint::spin_loop();
                                    }
                                }
                            }
                            pr.__internal_update_write_cell();
                        }
                    }
                    v += 1;
                }
            }
            stores.store(v - 1, Relaxed);
            stop.store(true, std::sync::atomic::Ordering::Release);
        });
        for _ in 0..2 {
            sc.spawn(|| {
                let (mut loads, mut torn, mut back, mut distinct) = (0u64, 0u64, 0u64, 0u64);
                let mut last: Option<u64> = None;
                let mut wit = String::new();
                while !stop.load(std::sync::atomic::Ordering::Acquire) {
                    for _ in 0..256 {
                        let x = a.load();
                        loads += 1;
                        match x.decode() {
                            Err(()) => {
                                torn += 1;
                                if wit.is_empty() {
                                    wit = format!("load #{} returned a mixture of two writes", loads);
                                }
                            }
                            Ok(Some(v)) => {
                                if let Some(l) = last {
                                    if v < l {
                                        back += 1;
                                        if wit.is_empty() {
                                            wit = format!("load #{} returned version {} after version {}", loads, v, l);
                                        }
                                    } else if v > l {
                                        distinct += 1;
                                    }
                                }
                                last = Some(v);
                            }
                            Ok(None) => {}
                        }
                    }
                }
                res.lock().unwrap().push((loads, torn, back, distinct, wit));
            });
        }
    });
    let res = res.into_inner().unwrap();
    let loads: u64 = res.iter().map(|r| r.0).sum();
    let torn: u64 = res.iter().map(|r| r.1).sum();
    let back: u64 = res.iter().map(|r| r.2).sum();
    let distinct: u64 = res.iter().map(|r| r.3).sum();
    let nstores = stores.load(Relaxed);
    rep.execs += 1;
    rep.count("hammer_runs", 1);
    rep.count(&format!("hammer_loads_{}", T::NAME), loads);
    rep.count(&format!("hammer_stores_{}", T::NAME), nstores);
    rep.count("hammer_version_changes_seen_by_readers", distinct);
    if loads > 1000 && nstores > 1000 {
        rep.nontrivial += 1;
        rep.distinct(vkit::fnv_str(&format!("hammer{}{}{}", T::NAME, seed, loads)));
    } else {
        rep.inconclusive += 1;
    }
    let wit = res.iter().map(|r| r.4.clone()).find(|w| !w.is_empty()).unwrap_or_default();
    let w = Json::obj().set("value", T::NAME).set("loads", loads).set("stores", nstores).set("torn", torn).set("backwards", back).set("first", wit.clone());
    if torn > 0 {
        rep.violation("torn_read", "C12:atomic:torn_read", format!("hammer run, {} value: {} of {} loads returned a mixture of two writes ({})", T::NAME, torn, loads, wit), w.clone());
    }
    if back > 0 {
        rep.violation("version_went_backwards", "C12:atomic:version_went_backwards", format!("hammer run, {} value: {} of {} loads returned an older version than the reader's previous load ({})", T::NAME, back, loads, wit), w);
    }
}

pub fn run(args: &Args) -> Report {
    let seed = args.u64("seed", 1);
    let shard = args.u64("shard", 0);
    let b = Budget::from_args(args);
    let single = args.flag("single-store");
    let mut rep = Report::new();
    if !cfg!(miri) && !single && b.only_prog.is_none() {
        let ms = args.u64("hammer-ms", 300);
        if ms > 0 {
            hammer::<H2>(&mut rep, ms, seed ^ shard);
            hammer::<H5>(&mut rep, ms, seed ^ shard);
            hammer::<H8>(&mut rep, ms, seed ^ shard);
            hammer::<H24>(&mut rep, ms, seed ^ shard);
        }
    }
    let mut i = 0u64;
    while i < b.max_progs && !b.expired() {
        let pi = b.only_prog.unwrap_or(i);
        let mut rng = Rng::derive(&[seed, shard, pi, 12]);
        let prog = Prog::gen(&mut rng, single);
        let desc = prog.desc();
        let replay = format!("c12 --seed {} --shard {} --only-prog {}{}", seed, shard, pi, if single { " --single-store" } else { "" });
        if i < 2 {
            rep.sample(desc.clone());
        }
        rep.count(&format!("programs_size_{}", prog.size), 1);
        campaign(&mut rep, &mut rng, &b, "C12", &desc, &replay, prog.shape(), &mut |m| dispatch(&prog, m));
        i += 1;
        if b.only_prog.is_some() {
            break;
        }
    }
    rep.count("programs", i);
    rep
}
