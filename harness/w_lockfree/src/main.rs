//! Workers for the lock-free building blocks: C03 (SPSC queues), C09 (index sets, pool allocator),
//! C10 (registry container), C12 (unrestricted atomic), C05 (bit sets).
//! Depends on `bb` crates only, so the same code runs natively (stall sweep), under TSan and under Miri.
extern crate iceoryx2_bb_loggers;

mod c03;
mod c05;
mod c09;
mod c10;
mod c12;
mod common;

fn main() {
    let args = vkit::Args::parse();
    iceoryx2_log::set_log_level(iceoryx2_log::LogLevel::Fatal);
    let report = match args.sub.as_str() {
        "c09" => if args.str("part", "conc") == "midop" { c09::run_midop(&args) } else { c09::run(&args) },
        "c03" => c03::run(&args),
        "c05" => c05::run(&args),
        "c10" => if args.str("part", "conc") == "midop" { c10::run_midop(&args) } else { c10::run(&args) },
        "c12" => c12::run(&args),
        "warmup" => return,
        other => {
            eprintln!("unknown sub command {:?}", other);
            std::process::exit(2);
        }
    };
    report.emit();
}
