//! C03 — lock-free SPSC channels are linearizable FIFOs conserving every element.
//!
//! Unique increasing values are pushed; the call/return log of both roles is judged by the
//! `fifo_spsc` rules: conservation (pushed = popped ⊎ evicted ⊎ remaining), order, exact eviction
//! distance, legitimacy of every "full"/"empty" answer, capacity bound, payload publication
//! (plain canary cell written before `push(v)` and read after `pop() == v`).
use crate::common::*;
use iceoryx2_bb_lock_free::spsc::index_queue::IndexQueue;
use iceoryx2_bb_lock_free::spsc::queue::Queue;
use iceoryx2_bb_lock_free::spsc::safely_overflowing_index_queue::SafelyOverflowingIndexQueue;
use std::cell::UnsafeCell;
use std::sync::Mutex;
use vkit::sched::{self, Mode};
use vkit::{ts, Args, Json, Report, Rng};

#[derive(Clone, Copy, Debug, PartialEq, Eq)]
pub enum Kind {
    Index,
    Overflow,
    /// overflowing queue with at most `capacity` pushes in total per consumer drain: never laps,
    /// hence free of the documented optimistic read race (Miri full mode regime)
    OverflowNoLap,
    Generic,
}

#[derive(Clone, Copy)]
#[repr(C)]
struct Big {
    v: u64,
    inv: u64,
    mul: u64,
}
impl Big {
    fn new(v: u64) -> Big {
        Big { v, inv: !v, mul: v.wrapping_mul(0x9E3779B97F4A7C15) }
    }
    fn ok(&self) -> bool {
        self.inv == !self.v && self.mul == self.v.wrapping_mul(0x9E3779B97F4A7C15)
    }
}

enum Q {
    Index(IndexQueue),
    Overflow(SafelyOverflowingIndexQueue),
    G1(Queue<Big, 1>),
    G2(Queue<Big, 2>),
    G3(Queue<Big, 3>),
    G4(Queue<Big, 4>),
}
unsafe impl Sync for Q {}

const PUSH_FULL: i64 = -1;
const PUSH_OK: i64 = 0; // > 0: evicted value
const POP_NONE: i64 = -1;
const POP_TORN: i64 = -2;

impl Q {
    fn push(&self, v: u64) -> i64 {
        unsafe {
            match self {
                Q::Index(q) => if q.push(v) { PUSH_OK } else { PUSH_FULL },
                Q::Overflow(q) => q.push(v).map(|e| e as i64).unwrap_or(PUSH_OK),
                Q::G1(q) => if q.push(&Big::new(v)) { PUSH_OK } else { PUSH_FULL },
                Q::G2(q) => if q.push(&Big::new(v)) { PUSH_OK } else { PUSH_FULL },
                Q::G3(q) => if q.push(&Big::new(v)) { PUSH_OK } else { PUSH_FULL },
                Q::G4(q) => if q.push(&Big::new(v)) { PUSH_OK } else { PUSH_FULL },
            }
        }
    }
    fn pop(&self) -> i64 {
        fn g(b: Option<Big>) -> i64 {
            match b {
                None => POP_NONE,
                Some(b) if b.ok() => b.v as i64,
                Some(_) => POP_TORN,
            }
        }
        unsafe {
            match self {
                Q::Index(q) => q.pop().map(|v| v as i64).unwrap_or(POP_NONE),
                Q::Overflow(q) => q.pop().map(|v| v as i64).unwrap_or(POP_NONE),
                Q::G1(q) => g(q.pop()),
                Q::G2(q) => g(q.pop()),
                Q::G3(q) => g(q.pop()),
                Q::G4(q) => g(q.pop()),
            }
        }
    }
    fn len(&self) -> usize {
        match self {
            Q::Index(q) => q.len(),
            Q::Overflow(q) => q.len(),
            Q::G1(q) => q.len(),
            Q::G2(q) => q.len(),
            Q::G3(q) => q.len(),
            Q::G4(q) => q.len(),
        }
    }
    fn flags(&self) -> (bool, bool) {
        match self {
            Q::Index(q) => (q.is_empty(), q.is_full()),
            Q::Overflow(q) => (q.is_empty(), q.is_full()),
            Q::G1(q) => (q.is_empty(), q.is_full()),
            Q::G2(q) => (q.is_empty(), q.is_full()),
            Q::G3(q) => (q.is_empty(), q.is_full()),
            Q::G4(q) => (q.is_empty(), q.is_full()),
        }
    }
}

struct Prog {
    kind: Kind,
    cap: usize,
    /// pushes per producer thread (1 or 2 producer threads handing the role over through a mutex)
    producers: Vec<usize>,
    /// pop attempts per consumer thread
    consumers: Vec<usize>,
}

impl Prog {
    fn gen(rng: &mut Rng, kind: Kind) -> Prog {
        let cap = rng.range(1, 4) as usize;
        let np = if rng.chance(1, 4) { 2 } else { 1 };
        let nc = if rng.chance(1, 5) { 2 } else { 1 };
        let (producers, consumers) = if kind == Kind::OverflowNoLap {
            (vec![cap], vec![rng.range(1, cap as u64 + 2) as usize])
        } else {
            ((0..np).map(|_| rng.range(2, 9) as usize).collect(), (0..nc).map(|_| rng.range(2, 10) as usize).collect())
        };
        Prog { kind, cap, producers, consumers }
    }
    fn desc(&self) -> Json {
        Json::obj()
            .set("structure", format!("{:?}", self.kind))
            .set("capacity", self.cap)
            .set("pushes_per_producer_thread", self.producers.clone())
            .set("pop_attempts_per_consumer_thread", self.consumers.clone())
    }
    fn shape(&self) -> u64 {
        vkit::fnv_str(&self.desc().render())
    }
}

struct Cell(UnsafeCell<u64>);
unsafe impl Sync for Cell {}

const K_PUSH: u8 = 1;
const K_POP: u8 = 2;

fn payload(v: u64) -> u64 {
    v.wrapping_mul(0xD6E8FEB86659FD93) ^ 0x5555
}

fn execute(p: &Prog, mode: &Mode) -> ExecResult {
    let q = match (p.kind, p.cap) {
        (Kind::Index, c) => Q::Index(IndexQueue::new(c)),
        (Kind::Overflow, c) | (Kind::OverflowNoLap, c) => Q::Overflow(SafelyOverflowingIndexQueue::new(c)),
        (Kind::Generic, 1) => Q::G1(Queue::new()),
        (Kind::Generic, 2) => Q::G2(Queue::new()),
        (Kind::Generic, 3) => Q::G3(Queue::new()),
        (Kind::Generic, _) => Q::G4(Queue::new()),
    };
    let total: usize = p.producers.iter().sum();
    let cells: Vec<Cell> = (0..=total + 1).map(|_| Cell(UnsafeCell::new(0))).collect();
    // role tokens: next value to push (producer role), nothing (consumer role)
    let prod_role = Mutex::new(1u64);
    let cons_role = Mutex::new(());
    let nthreads = p.producers.len() + p.consumers.len();
    let logs: Mutex<Vec<Vec<Ev>>> = Mutex::new(vec![Vec::new(); nthreads]);
    let mut bodies: Vec<Box<dyn FnOnce() + Send>> = Vec::new();
    for (t, n) in p.producers.iter().enumerate() {
        let (q, cells, prod_role, logs, n) = (&q, &cells, &prod_role, &logs, *n);
        bodies.push(Box::new(move || {
            let mut log = Vec::with_capacity(n);
            for _ in 0..n {
                let mut next = prod_role.lock().unwrap();
                let v = *next;
                unsafe { *cells[v as usize].0.get() = payload(v) };
                let call = ts::now();
                let r = q.push(v);
                let ret = ts::now();
                if r != PUSH_FULL {
                    *next += 1;
                }
                log.push(Ev { t, kind: K_PUSH, a: v as i64, r, call, ret });
            }
            logs.lock().unwrap()[t] = log;
        }));
    }
    let np = p.producers.len();
    for (c, n) in p.consumers.iter().enumerate() {
        let (q, cells, cons_role, logs, n) = (&q, &cells, &cons_role, &logs, *n);
        let t = np + c;
        bodies.push(Box::new(move || {
            let mut log = Vec::with_capacity(n);
            for _ in 0..n {
                let _g = cons_role.lock().unwrap();
                let call = ts::now();
                let r = q.pop();
                let ret = ts::now();
                let mut a = 0;
                if r > 0 && (r as usize) < cells.len() {
                    a = unsafe { *cells[r as usize].0.get() } as i64;
                }
                log.push(Ev { t, kind: K_POP, a, r, call, ret });
            }
            logs.lock().unwrap()[t] = log;
        }));
    }
    let stats = sched::run_threads(mode, bodies);
    let logs = logs.into_inner().unwrap();
    let mut viol: Vec<(String, String, String)> = Vec::new();
    let mut v = |rule: &str, msg: String| viol.push((rule.to_string(), format!("{:?}:{}", if p.kind == Kind::OverflowNoLap { Kind::Overflow } else { p.kind }, rule), msg));

    // quiescent reads before the drain
    let len_before = q.len();
    let (is_empty, is_full) = q.flags();
    let mut remaining = Vec::new();
    loop {
        let r = q.pop();
        if r == POP_NONE {
            break;
        }
        remaining.push(r);
        if remaining.len() > total + 2 {
            v("drain_does_not_terminate", "final drain returned more elements than were ever pushed".into());
            break;
        }
    }
    let mut pushes: Vec<Ev> = logs.iter().flatten().filter(|e| e.kind == K_PUSH).copied().collect();
    let mut pops: Vec<Ev> = logs.iter().flatten().filter(|e| e.kind == K_POP).copied().collect();
    pushes.sort_by_key(|e| e.call);
    pops.sort_by_key(|e| e.call);
    let cap = p.cap as i64;

    let pushed: Vec<i64> = pushes.iter().filter(|e| e.r != PUSH_FULL).map(|e| e.a).collect();
    let evicted: Vec<i64> = pushes.iter().filter(|e| e.r > 0).map(|e| e.r).collect();
    let popped: Vec<i64> = pops.iter().filter(|e| e.r != POP_NONE).map(|e| e.r).collect();

    if popped.iter().any(|x| *x == POP_TORN) || remaining.iter().any(|x| *x == POP_TORN) {
        v("torn_element", "a popped element failed its self check (mixture of two pushes)".into());
    }
    // conservation
    let mut out: Vec<i64> = popped.iter().chain(evicted.iter()).chain(remaining.iter()).copied().filter(|x| *x != POP_TORN).collect();
    out.sort();
    let mut dup = out.clone();
    dup.dedup();
    if dup.len() != out.len() {
        v("duplicated_element", format!("some value left the queue twice: popped {:?} evicted {:?} remaining {:?}", popped, evicted, remaining));
    }
    let mut inn = pushed.clone();
    inn.sort();
    if dup != inn {
        let lost: Vec<i64> = inn.iter().filter(|x| !dup.contains(x)).copied().collect();
        let invented: Vec<i64> = dup.iter().filter(|x| !inn.contains(x)).copied().collect();
        if !lost.is_empty() {
            v("lost_element", format!("pushed values {:?} neither popped, evicted nor left in the queue", lost));
        }
        if !invented.is_empty() {
            v("invented_element", format!("values {:?} came out but were never pushed", invented));
        }
    }
    // order
    let seq: Vec<i64> = popped.iter().chain(remaining.iter()).copied().collect();
    if seq.windows(2).any(|w| w[1] <= w[0]) {
        v("out_of_order", format!("consumer sequence not increasing: {:?}", seq));
    }
    if evicted.windows(2).any(|w| w[1] <= w[0]) {
        v("out_of_order", format!("evicted sequence not increasing: {:?}", evicted));
    }
    // payload publication
    for e in &pops {
        if e.r > 0 && e.a as u64 != payload(e.r as u64) {
            v("payload_not_published", format!("pop returned {} but the payload cell written before its push read {:#x}", e.r, e.a));
        }
    }
    // evictions: exact distance, and pops called afterwards are newer
    for e in pushes.iter().filter(|e| e.r > 0) {
        if e.a - e.r != cap {
            v("eviction_distance", format!("push({}) evicted {} with capacity {}", e.a, e.r, cap));
        }
        if let Some(bad) = pops.iter().find(|x| surely_before(e.ret, x.call) && x.r > 0 && x.r <= e.r) {
            v("popped_after_evicted", format!("pop returned {} after push({}) had already evicted {}", bad.r, e.a, e.r));
        }
    }
    if p.kind == Kind::Index || p.kind == Kind::Generic {
        if !evicted.is_empty() {
            v("invented_element", "non overflowing queue returned an eviction".into());
        }
        let mut ok_before = 0i64;
        for e in &pushes {
            let done_before_call = pops.iter().filter(|x| x.r != POP_NONE && surely_before(x.ret, e.call)).count() as i64;
            let started_before_ret = pops.iter().filter(|x| x.r != POP_NONE && maybe_before(x.call, e.ret)).count() as i64;
            if e.r == PUSH_FULL {
                if ok_before - done_before_call < cap {
                    v("spurious_full", format!("push({}) reported full with at most {} of {} elements inside", e.a, ok_before - done_before_call, cap));
                }
            } else {
                if ok_before - started_before_ret >= cap {
                    v("capacity_exceeded", format!("push({}) succeeded with at least {} elements inside, capacity {}", e.a, ok_before - started_before_ret, cap));
                }
                ok_before += 1;
            }
        }
    }
    // pop -> None legitimacy
    let mut popped_before = 0i64;
    for e in &pops {
        if e.r == POP_NONE {
            let pushed_done = pushes.iter().filter(|x| x.r != PUSH_FULL && surely_before(x.ret, e.call)).count() as i64;
            let evictions_possible = pushes.iter().filter(|x| x.r > 0 && maybe_before(x.call, e.ret)).count() as i64;
            if pushed_done - popped_before - evictions_possible > 0 {
                v("spurious_empty", format!("pop reported empty with at least {} elements inside", pushed_done - popped_before - evictions_possible));
            }
        } else {
            popped_before += 1;
        }
    }
    // quiescent observers
    if len_before != remaining.len() {
        v("len_wrong", format!("len() = {} at quiescence, drain returned {}", len_before, remaining.len()));
    }
    if is_empty != remaining.is_empty() || is_full != (remaining.len() == p.cap) {
        v("flags_wrong", format!("is_empty={} is_full={} with {} of {} elements", is_empty, is_full, remaining.len(), p.cap));
    }
    if remaining.len() > p.cap {
        v("capacity_exceeded", format!("{} elements in a queue of capacity {}", remaining.len(), p.cap));
    }
    if let Some(first) = viol.first_mut() {
        let mut all: Vec<Ev> = logs.iter().flatten().copied().collect();
        all.sort_by_key(|e| e.call);
        first.2.push_str(&format!(" | log (thread kind arg result call ret): {}", all.iter().map(|e| format!("t{} {} {} {} {} {}", e.t, if e.kind == K_PUSH { "push" } else { "pop" }, if e.kind == K_PUSH { e.a } else { 0 }, e.r, e.call, e.ret)).collect::<Vec<_>>().join("; ")));
    }
    let mut overlapped = false;
    'o: for a in &pushes {
        for b in &pops {
            if a.call < b.ret && b.call < a.ret {
                overlapped = true;
                break 'o;
            }
        }
    }
    let mut obs = 0u64;
    for e in logs.iter().flatten() {
        obs = vkit::mix(obs, ((e.kind as u64) << 56) ^ (e.r as u64));
    }
    ExecResult { stats, violations: viol, nontrivial: overlapped, observed: obs, inconclusive: false }
}

pub fn run(args: &Args) -> Report {
    let seed = args.u64("seed", 1);
    let shard = args.u64("shard", 0);
    let b = Budget::from_args(args);
    let kinds: Vec<Kind> = match args.str("kind", "all").as_str() {
        "index" => vec![Kind::Index],
        "overflow" => vec![Kind::Overflow],
        "nolap" => vec![Kind::OverflowNoLap],
        "generic" => vec![Kind::Generic],
        // the Miri full-mode set: everything that is free of documented optimistic reads
        "racefree" => vec![Kind::Index, Kind::Generic, Kind::OverflowNoLap],
        _ => vec![Kind::Index, Kind::Overflow, Kind::Generic, Kind::Overflow],
    };
    let mut rep = Report::new();
    let mut i = 0u64;
    while i < b.max_progs && !b.expired() {
        let pi = b.only_prog.unwrap_or(i);
        let mut rng = Rng::derive(&[seed, shard, pi, 3]);
        let kind = kinds[(pi % kinds.len() as u64) as usize];
        let prog = Prog::gen(&mut rng, kind);
        let desc = prog.desc();
        let replay = format!("c03 --seed {} --shard {} --only-prog {} --kind {}", seed, shard, pi, args.str("kind", "all"));
        rep.count(&format!("programs_{:?}", kind), 1);
        if i < 2 {
            rep.sample(desc.clone());
        }
        campaign(&mut rep, &mut rng, &b, "C03", &desc, &replay, prog.shape(), &mut |m| execute(&prog, m));
        i += 1;
        if b.only_prog.is_some() {
            break;
        }
    }
    rep.count("programs", i);
    rep
}
