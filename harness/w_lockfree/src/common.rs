//! the campaign driver lives in vkit (shared with the port-level concurrent workloads)
pub use vkit::campaign::*;
