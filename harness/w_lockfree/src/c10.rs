//! C10 — port registry snapshots: never torn, never ghost, eventually exact.
//!
//! `mpmc::Container` with 1..2 writer threads (add / remove / abandon under a dead owner id /
//! recover the dead owner) and one refreshing reader.  Entries are self-checking `{id, fill[K]}`
//! (8..128 bytes).  Rules: membership by call/return timestamps, `update_state -> false` means
//! identical contents, quiescent exactness and idempotence, recover removes exactly the dead
//! owner's entries.
use crate::common::*;
use iceoryx2_bb_lock_free::mpmc::container::*;
use iceoryx2_bb_lock_free::mpmc::unique_index_set_enums::ReleaseMode;
use std::collections::HashMap;
use std::sync::atomic::{AtomicBool, Ordering::Relaxed};
use std::sync::Mutex;
use vkit::sched::{self, Mode};
use vkit::{ts, Args, Json, Report, Rng};

#[derive(Clone, Copy, Debug)]
#[repr(C)]
struct Entry<const K: usize> {
    id: u64,
    fill: [u64; K],
}
impl<const K: usize> Entry<K> {
    fn new(id: u64) -> Self {
        let mut fill = [0; K];
        for (i, f) in fill.iter_mut().enumerate() {
            *f = id.wrapping_mul(0x9E3779B97F4A7C15) ^ (i as u64 + 1);
        }
        Entry { id, fill }
    }
    fn ok(&self) -> bool {
        Self::new(self.id).fill == self.fill
    }
}

#[derive(Clone, Copy, Debug, PartialEq, Eq)]
enum Op {
    Add,
    RemOld,
    RemNew,
    /// add under the dead owner id, never removed by the writer
    Abandon,
    /// recover the dead owner (only after all abandoning adds are over)
    Recover,
}

struct Prog {
    /// entries added under the dead owner id before the threads start (the reader's first snapshot sees them)
    pre_abandon: usize,
    cap: usize,
    k: usize,
    writers: Vec<Vec<Op>>,
    refreshes: usize,
    keep_at_end: bool,
}

impl Prog {
    fn gen(rng: &mut Rng) -> Prog {
        let cap = rng.range(1, 3) as usize;
        let k = *rng.pick(&[0usize, 3, 15]);
        // one third of the programs are "dead owner" programs: writer 0 abandons entries, writer 1
        // recovers them while writer 0 keeps adding and the reader keeps refreshing
        let dead_program = rng.chance(1, 3);
        // half of the dead-owner programs are the pure race: the dead entries exist before the threads
        // start, one writer only adds, the other only recovers, the reader refreshes
        let pure_race = dead_program && rng.chance(1, 2);
        let cap = if pure_race { rng.range(2, 3) as usize } else { cap };
        let pre_abandon = if pure_race { rng.range(1, (cap / 2).max(1) as u64) as usize } else { 0 };
        let nw = if dead_program { 2 } else { rng.range(1, 2) as usize };
        let mut writers = Vec::new();
        for w in 0..nw {
            let mut v = Vec::new();
            if pure_race {
                if w == 0 {
                    for _ in 0..rng.range(1, (cap - pre_abandon).max(1) as u64) {
                        v.push(Op::Add);
                    }
                } else {
                    v.push(Op::Recover);
                }
                writers.push(v);
                continue;
            }
            if w == 0 && dead_program {
                for _ in 0..rng.range(1, 2) {
                    v.push(Op::Abandon);
                }
            }
            for _ in 0..rng.range(3, 8) {
                v.push(match rng.below(10) {
                    0..=4 => Op::Add,
                    5..=6 => Op::RemOld,
                    7..=8 => Op::RemNew,
                    _ => {
                        if w != 0 && dead_program { Op::Recover } else { Op::Add }
                    }
                });
            }
            if w == 1 && dead_program {
                let pos = rng.below(v.len() as u64 + 1) as usize;
                v.insert(pos, Op::Recover);
            }
            writers.push(v);
        }
        if pure_race {
            return Prog { pre_abandon, cap, k, writers, refreshes: rng.range(2, 5) as usize, keep_at_end: true };
        }
        Prog { pre_abandon, cap, k, writers, refreshes: rng.range(2, 7) as usize, keep_at_end: rng.chance(1, 2) }
    }
    fn desc(&self) -> Json {
        Json::obj()
            .set("capacity", self.cap)
            .set("entries_of_dead_owner_before_start", self.pre_abandon)
            .set("entry_bytes", 8 + 8 * self.k)
            .set("writers", Json::Arr(self.writers.iter().map(|t| Json::Str(t.iter().map(|o| format!("{:?}", o)).collect::<Vec<_>>().join(" "))).collect()))
            .set("reader_refreshes", self.refreshes)
            .set("entries_left_at_end", self.keep_at_end)
    }
    fn shape(&self) -> u64 {
        vkit::fnv_str(&self.desc().render())
    }
}

#[derive(Clone, Debug)]
enum E {
    Add { id: u64, call: u64, ret: u64, ok: bool, dead: bool },
    Rem { id: u64, call: u64, ret: u64 },
    Recover { call: u64, ret: u64 },
    Snap { call: u64, ret: u64, changed: bool, ids: Vec<u64>, torn: usize },
}

const DEAD: u64 = 999;

fn execute<const CAP: usize, const K: usize>(p: &Prog, mode: &Mode) -> ExecResult {
    let c = FixedSizeContainer::<Entry<K>, CAP>::new();
    let mut pre_log: Vec<E> = Vec::new();
    for n in 0..p.pre_abandon {
        let id = (1u64 << 48) | (9 << 32) | (n as u64 + 1);
        let call = ts::now();
        let r = c.add(Entry::<K>::new(id), OwnerId::new(DEAD).unwrap());
        pre_log.push(E::Add { id, call, ret: ts::now(), ok: r.is_ok(), dead: true });
    }
    let abandon_done = AtomicBool::new(!p.writers[0].contains(&Op::Abandon));
    let writers_done = AtomicBool::new(false);
    let nw = p.writers.len();
    let logs: Mutex<Vec<Vec<E>>> = Mutex::new(vec![Vec::new(); nw + 1]);
    let kept: Mutex<Vec<u64>> = Mutex::new(Vec::new());
    let reader_state: Mutex<Option<ContainerState<Entry<K>>>> = Mutex::new(None);
    let mut bodies: Vec<Box<dyn FnOnce() + Send>> = Vec::new();
    for (w, ops) in p.writers.iter().enumerate() {
        let (c, abandon_done, logs, kept) = (&c, &abandon_done, &logs, &kept);
        bodies.push(Box::new(move || {
            let owner = OwnerId::new(100 + w as u64).unwrap();
            let dead = OwnerId::new(DEAD).unwrap();
            let mut log = Vec::new();
            let mut mine: Vec<(u64, ContainerHandle)> = Vec::new();
            let mut ctr = 0u64;
            let mut abandon_left = ops.iter().filter(|o| **o == Op::Abandon).count();
            for op in ops {
                match op {
                    Op::Add | Op::Abandon => {
                        ctr += 1;
                        let is_dead = *op == Op::Abandon;
                        let id = ((w as u64 + 1) << 32) | ctr | if is_dead { 1 << 48 } else { 0 };
                        let call = ts::now();
                        let r = c.add(Entry::<K>::new(id), if is_dead { dead } else { owner });
                        let ret = ts::now();
                        if let Ok((_, h)) = &r {
                            if !is_dead {
                                mine.push((id, *h));
                            }
                        }
                        log.push(E::Add { id, call, ret, ok: r.is_ok(), dead: is_dead });
                        if is_dead {
                            abandon_left -= 1;
                            if abandon_left == 0 {
                                abandon_done.store(true, Relaxed);
                            }
                        }
                    }
                    Op::RemOld | Op::RemNew => {
                        if !mine.is_empty() {
                            let (id, h) = if *op == Op::RemOld { mine.remove(0) } else { mine.pop().unwrap() };
                            let call = ts::now();
                            let r = unsafe { c.remove(h, ReleaseMode::Default) };
                            let ret = ts::now();
                            if r.is_ok() {
                                log.push(E::Rem { id, call, ret });
                            } else {
                                log.push(E::Rem { id: u64::MAX, call, ret });
                            }
                        }
                    }
                    Op::Recover => {
                        if abandon_done.load(Relaxed) {
                            let call = ts::now();
                            unsafe { c.recover(dead, |_| true, ReleaseMode::Default) };
                            log.push(E::Recover { call, ret: ts::now() });
                        }
                    }
                }
            }
            if !p.keep_at_end {
                for (id, h) in mine.drain(..) {
                    let call = ts::now();
                    let r = unsafe { c.remove(h, ReleaseMode::Default) };
                    log.push(E::Rem { id: if r.is_ok() { id } else { u64::MAX }, call, ret: ts::now() });
                }
            }
            kept.lock().unwrap().extend(mine.iter().map(|m| m.0));
            logs.lock().unwrap()[w] = log;
        }));
    }
    {
        let (c, logs, writers_done, n, reader_state) = (&c, &logs, &writers_done, p.refreshes, &reader_state);
        bodies.push(Box::new(move || {
            let mut st = c.get_state();
            let mut log = Vec::new();
            for _ in 0..n {
                if writers_done.load(Relaxed) {
                    break;
                }
                let call = ts::now();
                let changed = unsafe { c.update_state(&mut st) };
                let ret = ts::now();
                let mut ids = Vec::new();
                let mut torn = 0;
                st.for_each(|_, e: &Entry<K>| {
                    if !e.ok() {
                        torn += 1;
                    }
                    ids.push(e.id);
                    CallbackProgression::Continue
                });
                log.push(E::Snap { call, ret, changed, ids, torn });
            }
            logs.lock().unwrap()[nw] = log;
            *reader_state.lock().unwrap() = Some(st);
        }));
    }
    let stats = sched::run_threads(mode, bodies);
    writers_done.store(true, Relaxed);
    let mut logs = logs.into_inner().unwrap();
    logs.push(pre_log);
    let kept = kept.into_inner().unwrap();
    let mut viol: Vec<(String, String, String)> = Vec::new();
    let mut v = |rule: &str, msg: String| viol.push((rule.to_string(), rule.to_string(), msg));

    let mut adds: HashMap<u64, (u64, u64, bool, bool)> = HashMap::new();
    let mut rems: HashMap<u64, (u64, u64)> = HashMap::new();
    let mut recovers: Vec<(u64, u64)> = Vec::new();
    for e in logs.iter().flatten() {
        match e {
            E::Add { id, call, ret, ok, dead } => {
                adds.insert(*id, (*call, *ret, *ok, *dead));
            }
            E::Rem { id, call, ret } => {
                if *id == u64::MAX {
                    v("remove_refused", "remove of an own, live handle failed".into());
                } else {
                    rems.insert(*id, (*call, *ret));
                }
            }
            E::Recover { call, ret } => recovers.push((*call, *ret)),
            _ => {}
        }
    }
    // a dead entry counts as "removal possibly started" from the first recover call on, and as
    // "certainly removed" once a recover that started after the abandoning add returned has returned
    let removal_window = |id: u64| -> Option<(u64, u64)> {
        if let Some(r) = rems.get(&id) {
            return Some(*r);
        }
        let a = adds.get(&id)?;
        if a.3 {
            let first = recovers.iter().map(|r| r.0).min()?;
            let done = recovers.iter().filter(|r| surely_before(a.1, r.0)).map(|r| r.1).min().unwrap_or(u64::MAX);
            return Some((first, done));
        }
        None
    };
    let mut prev: Option<Vec<u64>> = None;
    let mut nsnaps = 0;
    let mut concurrent = false;
    for e in &logs[nw] {
        if let E::Snap { call, ret, changed, ids, torn } = e {
            nsnaps += 1;
            if *torn > 0 {
                v("torn_entry", format!("{} entries of a snapshot fail their self check", torn));
            }
            let mut s = ids.clone();
            s.sort();
            s.dedup();
            if s.len() != ids.len() {
                v("duplicate_entry", format!("snapshot lists an id twice: {:x?}", ids));
            }
            if ids.len() > p.cap {
                v("capacity_exceeded", format!("snapshot has {} entries, capacity {}", ids.len(), p.cap));
            }
            for id in ids {
                match adds.get(id) {
                    None => v("ghost_entry", format!("id {:x} in a snapshot was never added", id)),
                    Some((acall, _, ok, _)) => {
                        if !*ok {
                            v("ghost_entry", format!("id {:x} in a snapshot although its add failed", id));
                        }
                        if surely_before(*ret, *acall) {
                            v("ghost_entry", format!("id {:x} seen before its add was called", id));
                        }
                    }
                }
                if let Some((_, rret)) = removal_window(*id) {
                    if surely_before(rret, *call) {
                        v("stale_entry", format!("id {:x} seen although its removal completed before the refresh began", id));
                    }
                }
            }
            for (id, (acall, aret, ok, _)) in &adds {
                if *ok && surely_before(*aret, *call) {
                    let removed_maybe = removal_window(*id).map(|(rcall, _)| maybe_before(rcall, *ret)).unwrap_or(false);
                    if !removed_maybe && !ids.contains(id) {
                        v("missing_entry", format!("id {:x} missing: its add returned before the refresh began and no removal had started", id));
                    }
                }
                if maybe_before(*acall, *ret) && !surely_before(*aret, *call) {
                    concurrent = true;
                }
            }
            if !*changed {
                if let Some(pv) = &prev {
                    if pv != ids {
                        v("unchanged_but_different", "update_state returned false but the contents differ from the previous snapshot".into());
                    }
                }
            }
            prev = Some(ids.clone());
        }
    }
    // add failures must be legitimate: capacity entries possibly live in the window
    for (id, (acall, aret, ok, _)) in &adds {
        if !*ok {
            let possibly_live = adds
                .iter()
                .filter(|(o, a)| *o != id && a.2 && maybe_before(a.0, *aret) && !removal_window(**o).map(|(_, rret)| surely_before(rret, *acall)).unwrap_or(false))
                .count();
            if possibly_live < p.cap {
                v("spurious_add_failure", format!("add of {:x} failed although at most {} of {} slots could be taken", id, possibly_live, p.cap));
            }
        }
    }
    // quiescent exactness: recover the dead owner, then the snapshot must be exactly the kept set
    unsafe { c.recover(OwnerId::new(DEAD).unwrap(), |_| true, ReleaseMode::Default) };
    let mut st = reader_state.into_inner().unwrap().expect("reader thread stored its state");
    let changed_first = unsafe { c.update_state(&mut st) };
    let _ = changed_first;
    let fresh = c.get_state();
    let collect = |st: &ContainerState<Entry<K>>| {
        let mut ids = Vec::new();
        let mut torn = 0;
        st.for_each(|_, e: &Entry<K>| {
            if !e.ok() {
                torn += 1;
            }
            ids.push(e.id);
            CallbackProgression::Continue
        });
        ids.sort();
        (ids, torn)
    };
    let (ids, torn) = collect(&st);
    let mut exp = kept.clone();
    exp.sort();
    if torn > 0 {
        v("torn_entry", "quiescent snapshot has a torn entry".into());
    }
    if collect(&fresh).0 != exp {
        v("quiescent_snapshot_wrong", format!("a fresh snapshot at quiescence shows {:x?}, registered {:x?}", collect(&fresh).0, exp));
    }
    if ids != exp {
        v("quiescent_snapshot_wrong", format!("quiescent snapshot {:x?}, registered {:x?}", ids, exp));
    }
    if c.is_empty() != exp.is_empty() {
        v("quiescent_snapshot_wrong", format!("is_empty() = {} with {} registered entries", c.is_empty(), exp.len()));
    }
    if unsafe { c.update_state(&mut st) } {
        v("quiescent_refresh_reports_change", "a second refresh without any change in between reported a change".into());
    }
    if collect(&st).0 != exp {
        v("quiescent_snapshot_wrong", "second quiescent refresh changed the contents".into());
    }
    let mut obs = nsnaps as u64;
    for e in &logs[nw] {
        if let E::Snap { ids, changed, .. } = e {
            obs = vkit::mix(obs, ids.iter().fold(*changed as u64, |a, b| vkit::mix(a, *b)));
        }
    }
    ExecResult { stats, violations: viol, nontrivial: concurrent, observed: obs, inconclusive: false }
}

fn dispatch(p: &Prog, mode: &Mode) -> ExecResult {
    macro_rules! d {
        ($($cap:literal $k:literal),*) => {
            match (p.cap, p.k) {
                $(($cap, $k) => execute::<$cap, $k>(p, mode),)*
                _ => unreachable!(),
            }
        };
    }
    d!(1 0, 1 3, 1 15, 2 0, 2 3, 2 15, 3 0, 3 3, 3 15)
}

pub fn run(args: &Args) -> Report {
    let seed = args.u64("seed", 1);
    let shard = args.u64("shard", 0);
    let b = Budget::from_args(args);
    let mut rep = Report::new();
    let mut i = 0u64;
    while i < b.max_progs && !b.expired() {
        let pi = b.only_prog.unwrap_or(i);
        let mut rng = Rng::derive(&[seed, shard, pi, 10]);
        let mut prog = Prog::gen(&mut rng);
        if args.flag("addonly") {
            // race-free regime for Miri full mode: no slot is ever reused
            for w in prog.writers.iter_mut() {
                w.retain(|o| *o == Op::Add);
                w.truncate(2);
            }
            prog.cap = 3;
            prog.pre_abandon = 0;
            prog.writers.truncate(1);
            prog.writers[0].truncate(3);
            while prog.writers[0].len() < 2 {
                prog.writers[0].push(Op::Add);
            }
            prog.keep_at_end = true;
        }
        let desc = prog.desc();
        let replay = format!("c10 --seed {} --shard {} --only-prog {}{}", seed, shard, pi, if args.flag("addonly") { " --addonly" } else { "" });
        if i < 2 {
            rep.sample(desc.clone());
        }
        campaign(&mut rep, &mut rng, &b, "C10", &desc, &replay, prog.shape(), &mut |m| dispatch(&prog, m));
        i += 1;
        if b.only_prog.is_some() {
            break;
        }
    }
    rep.count("programs", i);
    rep
}

// ---------------------------------------------------------------------------------------------
// Owner dies INSIDE add / remove: single-threaded crash-point enumeration at atomic-operation
// granularity. The hook counts the atomic operations of the victim's call and unwinds out of the
// k-th one (nothing after it happens: the owner is dead from there on); a survivor then recovers
// the dead owner and refreshes. For every k: no entry of the dead owner is reported afterwards,
// the snapshot is exactly the live owners' entries, every reported entry is a completely written
// one, and the slot is reusable.

#[cfg(iceoryx2_verif)]
mod midop {
    use super::*;
    use iceoryx2_bb_concurrency::verif::{set_hook, OpKind, Phase};
    use std::sync::atomic::{AtomicU64, Ordering::Relaxed};

    static COUNT: AtomicU64 = AtomicU64::new(0);
    static DIE_AT: AtomicU64 = AtomicU64::new(0);
    struct Died;

    fn hook(_p: Phase, _k: OpKind, _a: usize, _w: bool) {
        let c = COUNT.fetch_add(1, Relaxed) + 1;
        if c == DIE_AT.load(Relaxed) {
            std::panic::resume_unwind(Box::new(Died));
        }
    }

    /// runs `f` with the hook armed; Ok(number of hook calls) if it completed, Err(()) if the owner died at `die_at`
    fn armed<R>(die_at: u64, f: impl FnOnce() -> R) -> Result<(R, u64), ()> {
        COUNT.store(0, Relaxed);
        DIE_AT.store(die_at, Relaxed);
        set_hook(Some(hook));
        let r = std::panic::catch_unwind(std::panic::AssertUnwindSafe(f));
        set_hook(None);
        match r {
            Ok(v) => Ok((v, COUNT.load(Relaxed))),
            Err(p) => {
                if p.downcast_ref::<Died>().is_some() {
                    Err(())
                } else {
                    std::panic::resume_unwind(p)
                }
            }
        }
    }

    fn snapshot<const K: usize, const CAP: usize>(c: &FixedSizeContainer<Entry<K>, CAP>, st: &mut ContainerState<Entry<K>>) -> (Vec<u64>, bool) {
        let _ = unsafe { c.update_state(st) };
        let mut ids = Vec::new();
        let mut intact = true;
        st.for_each(|_, e: &Entry<K>| {
            intact &= e.ok();
            ids.push(e.id);
            iceoryx2_bb_elementary::CallbackProgression::Continue
        });
        ids.sort();
        (ids, intact)
    }

    /// one configuration: `prefix` live adds (and `holes` removals) first, then the victim operation
    fn case<const K: usize, const CAP: usize>(rep: &mut Report, prefix: usize, holes: usize, victim_removes: bool) {
        let live = OwnerId::new(7).unwrap();
        let dead = OwnerId::new(DEAD).unwrap();
        // dry run to learn how many hook calls the victim operation makes in this configuration
        let mut k = 1u64;
        loop {
            let c = FixedSizeContainer::<Entry<K>, CAP>::new();
            let mut old_reader = c.get_state();
            let mut model: Vec<u64> = Vec::new();
            let mut handles = Vec::new();
            for n in 0..prefix {
                let id = 100 + n as u64;
                if let Ok((_, h)) = c.add(Entry::<K>::new(id), live) {
                    handles.push((id, h));
                    model.push(id);
                }
            }
            for _ in 0..holes.min(handles.len()) {
                let (id, h) = handles.remove(0);
                let _ = unsafe { c.remove(h, ReleaseMode::Default) };
                model.retain(|x| *x != id);
            }
            let _ = snapshot(&c, &mut old_reader); // a reader that saw the state before the victim acted
            let vid = 9_000_000 + k;
            // the victim's completed add when it is the removal that is interrupted
            let vh = if victim_removes {
                match c.add(Entry::<K>::new(vid), dead) {
                    Ok((_, h)) => Some(h),
                    Err(_) => None,
                }
            } else {
                None
            };
            if victim_removes && vh.is_none() {
                return; // container full: nothing to interrupt in this configuration
            }
            let r = if let Some(h) = vh { armed(k, || { let _ = unsafe { c.remove(h, ReleaseMode::Default) }; true }) } else { armed(k, || c.add(Entry::<K>::new(vid), dead).is_ok()) };
            let died = r.is_err();
            rep.execs += 1;
            // the survivor cleans up after the dead owner, then everybody refreshes
            unsafe { c.recover(dead, |_| true, ReleaseMode::Default) };
            let mut fresh = c.get_state();
            let opn = if victim_removes { "remove" } else { "add" };
            let what = format!("{} interrupted before its atomic operation #{} (capacity {}, {} live entries, {} freed slots, entry size {} bytes)", if victim_removes { "remove" } else { "add" }, k, CAP, model.len(), holes.min(prefix), 8 + 8 * K);
            for (name, st) in [("a reader that already had a snapshot", &mut old_reader), ("a fresh reader", &mut fresh)] {
                let (ids, intact) = snapshot(&c, st);
                let mut exp = model.clone();
                exp.sort();
                if !intact {
                    rep.violation("torn_entry_after_recover", format!("C10:midop:{}:torn_entry_after_recover", opn), format!("{}: after recover, {} sees an entry that was never completely written: {:?}", what, name, ids), Json::obj());
                } else if ids.iter().any(|i| !exp.contains(i)) {
                    rep.violation("ghost_entry_after_recover", format!("C10:midop:{}:ghost_entry_after_recover", opn), format!("{}: after recover of the dead owner, {} reports {:?}, registered are {:?}", what, name, ids, exp), Json::obj().set("replay_args", "c10 --part midop"));
                } else if ids != exp {
                    rep.violation("entry_lost_after_recover", format!("C10:midop:{}:entry_lost_after_recover", opn), format!("{}: after recover, {} reports {:?}, registered are {:?}", what, name, ids, exp), Json::obj());
                }
            }
            // the slot is usable again and shows exactly the new value
            if model.len() < CAP {
                let nid = 5_000_000 + k;
                match c.add(Entry::<K>::new(nid), live) {
                    Ok(_) => {
                        let (ids, intact) = snapshot(&c, &mut fresh);
                        if !intact || !ids.contains(&nid) || ids.len() != model.len() + 1 {
                            rep.violation("slot_not_reusable_after_recover", format!("C10:midop:{}:slot_not_reusable_after_recover", opn), format!("{}: a new add after the recover gives the snapshot {:?} (intact {})", what, ids, intact), Json::obj());
                        }
                    }
                    Err(e) => rep.violation("slot_not_reusable_after_recover", format!("C10:midop:{}:slot_not_reusable_after_recover", opn), format!("{}: add after recover failed with {:?}", what, e), Json::obj()),
                }
            }
            if died {
                rep.nontrivial += 1;
                rep.distinct(vkit::fnv_str(&format!("{}{}{}{}{}{}", K, CAP, prefix, holes, victim_removes, k)));
                rep.count("owner_died_inside_operation", 1);
                k += 1;
            } else {
                rep.count("victim_operation_atomic_ops_max", 0);
                break; // k is past the last atomic operation: the call completed
            }
        }
    }

    pub fn run(_args: &Args) -> Report {
        let mut rep = Report::new();
        macro_rules! grid {
            ($k:literal, $cap:literal) => {
                for prefix in 0..=$cap {
                    for holes in 0..=prefix {
                        case::<$k, $cap>(&mut rep, prefix, holes, false);
                        case::<$k, $cap>(&mut rep, prefix, holes, true);
                    }
                }
            };
        }
        grid!(0, 1);
        grid!(0, 2);
        grid!(3, 1);
        grid!(3, 2);
        grid!(15, 3);
        rep.sample(Json::obj().set("victim_operations", "add, remove").set("death_points", "before every atomic operation of the call").set("capacities", "1-3").set("entry_sizes", "8, 32, 128 bytes"));
        rep
    }
}

#[cfg(iceoryx2_verif)]
pub fn run_midop(args: &Args) -> Report {
    midop::run(args)
}
#[cfg(not(iceoryx2_verif))]
pub fn run_midop(_args: &Args) -> Report {
    Report::new()
}
