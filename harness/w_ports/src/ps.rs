//! Sequential reference model for publish-subscribe, compared with the real ports after every step.
//! Serves C01 (delivery), C02 (sample lifetime: canaries + saturation probe), C08 (limits).
//!
//! Model rules (all confirmed against the code, DESIGN.md F18): a publisher learns about
//! subscribers at creation, on every send and on `update_connections`; a subscriber learns about
//! publishers at creation and on every `receive`/`has_samples`; on discovery the publisher replays
//! `min(history_request, buffer)` newest history entries; the borrow limit is per connection; with
//! safe overflow the oldest entry of the pair is evicted, without it (discard strategy) the sample
//! is skipped for that subscriber and `send` reports one recipient fewer; samples of a dropped
//! publisher stay receivable iff the subscriber had already seen that publisher (FAQ "Losing Data").
use iceoryx2::port::publisher::Publisher;
use iceoryx2::port::subscriber::Subscriber;
use iceoryx2::port::update_connections::UpdateConnections;
use iceoryx2::port::{LoanError, ReceiveError, SendError};
use iceoryx2::prelude::*;
use iceoryx2::sample::Sample;
use iceoryx2::sample_mut::SampleMut;
use iceoryx2::service::Service;
use std::collections::{BTreeMap, VecDeque};
use vkit::Rng;

pub type P = [u64; 4];

pub fn payload(id: u64) -> P {
    [id, id ^ 0xA5A5_A5A5, id.wrapping_mul(3), !id]
}
pub fn check_payload(p: &P) -> Option<u64> {
    if *p == payload(p[0]) { Some(p[0]) } else { None }
}
/// slice payloads: the length (1..=6 elements) is a function of the id, every element is checked
pub fn slice_len(id: u64) -> usize {
    1 + (id % 6) as usize
}
pub fn slice_elem(id: u64, i: usize) -> u64 {
    if i == 0 { id } else { id.wrapping_mul(0x9E37_79B9).wrapping_add(i as u64 * 0x0101_0101) }
}
pub fn check_slice(p: &[u64]) -> Option<u64> {
    let id = *p.first()?;
    if p.len() == slice_len(id) && p.iter().enumerate().all(|(i, v)| *v == slice_elem(id, i)) { Some(id) } else { None }
}

type Factory<S, T> = iceoryx2::service::port_factory::publish_subscribe::PortFactory<S, T, ()>;

/// The payload flavour of a history: fixed-size `[u64; 4]` or slices `[u64]` of 1..=6 elements
/// (statically sized data segment: initial_max_slice_len 6, so the chunk accounting is the same).
pub trait Kind: 'static {
    type T: ?Sized + core::fmt::Debug + IceoryxSend + 'static;
    const NAME: &'static str;
    fn service<S: Service>(node: &Node<S>, name: &ServiceName, cfg: &Cfg) -> Result<Factory<S, Self::T>, String>;
    fn publisher<S: Service>(svc: &Factory<S, Self::T>, loans: Option<usize>, fail_on_full: bool) -> Result<Publisher<S, Self::T, ()>, iceoryx2::port::publisher::PublisherCreateError>;
    fn subscriber<S: Service>(svc: &Factory<S, Self::T>, buf_hreq: Option<(usize, usize)>) -> Result<Subscriber<S, Self::T, ()>, iceoryx2::port::subscriber::SubscriberCreateError>;
    fn send_copy<S: Service>(p: &Publisher<S, Self::T, ()>, id: u64) -> Result<usize, SendError>;
    fn loan<S: Service>(p: &Publisher<S, Self::T, ()>, id: u64) -> Result<SampleMut<S, Self::T, ()>, LoanError>;
    fn receive<S: Service>(s: &Subscriber<S, Self::T, ()>) -> Result<Option<Sample<S, Self::T, ()>>, ReceiveError>;
    fn has_samples<S: Service>(s: &Subscriber<S, Self::T, ()>) -> Result<bool, iceoryx2::port::update_connections::ConnectionFailure>;
    fn update<S: Service>(p: &Publisher<S, Self::T, ()>) -> Result<(), iceoryx2::port::update_connections::ConnectionFailure>;
    fn sp<S: Service>(s: &Sample<S, Self::T, ()>) -> &Self::T;
    fn lp<S: Service>(l: &SampleMut<S, Self::T, ()>) -> &Self::T;
    fn check(p: &Self::T) -> Option<u64>;
}

macro_rules! svc_settings {
    ($b:expr, $cfg:expr) => {
        $b.subscriber_max_buffer_size($cfg.buf_max).history_size($cfg.hist).subscriber_max_borrowed_samples($cfg.borrow).enable_safe_overflow($cfg.overflow).max_publishers($cfg.max_pubs).max_subscribers($cfg.max_subs)
    };
}

pub struct Fixed;
impl Kind for Fixed {
    type T = P;
    const NAME: &'static str = "fixed";
    fn service<S: Service>(node: &Node<S>, name: &ServiceName, cfg: &Cfg) -> Result<Factory<S, P>, String> {
        svc_settings!(node.service_builder(name).publish_subscribe::<P>(), cfg).create().map_err(|e| format!("{:?}", e))
    }
    fn publisher<S: Service>(svc: &Factory<S, P>, loans: Option<usize>, fail_on_full: bool) -> Result<Publisher<S, P, ()>, iceoryx2::port::publisher::PublisherCreateError> {
        let pb = svc.publisher_builder();
        let pb = match loans {
            Some(l) => pb.backpressure_strategy(BackpressureStrategy::DiscardData).max_loaned_samples(l),
            None => pb,
        };
        let pb = if fail_on_full { pb.set_backpressure_handler(|_| iceoryx2::port::BackpressureAction::DiscardDataAndFail) } else { pb };
        pb.create()
    }
    fn subscriber<S: Service>(svc: &Factory<S, P>, bh: Option<(usize, usize)>) -> Result<Subscriber<S, P, ()>, iceoryx2::port::subscriber::SubscriberCreateError> {
        match bh {
            Some((buf, hreq)) => svc.subscriber_builder().buffer_size(buf).history_request(hreq).create(),
            None => svc.subscriber_builder().create(),
        }
    }
    fn send_copy<S: Service>(p: &Publisher<S, P, ()>, id: u64) -> Result<usize, SendError> {
        p.send_copy(payload(id))
    }
    fn loan<S: Service>(p: &Publisher<S, P, ()>, id: u64) -> Result<SampleMut<S, P, ()>, LoanError> {
        p.loan_uninit().map(|l| l.write_payload(payload(id)))
    }
    fn receive<S: Service>(s: &Subscriber<S, P, ()>) -> Result<Option<Sample<S, P, ()>>, ReceiveError> {
        s.receive()
    }
    fn has_samples<S: Service>(s: &Subscriber<S, P, ()>) -> Result<bool, iceoryx2::port::update_connections::ConnectionFailure> {
        s.has_samples()
    }
    fn update<S: Service>(p: &Publisher<S, P, ()>) -> Result<(), iceoryx2::port::update_connections::ConnectionFailure> {
        p.update_connections()
    }
    fn sp<S: Service>(s: &Sample<S, P, ()>) -> &P {
        s.payload()
    }
    fn lp<S: Service>(l: &SampleMut<S, P, ()>) -> &P {
        l.payload()
    }
    fn check(p: &P) -> Option<u64> {
        check_payload(p)
    }
}

pub struct Slices;
impl Kind for Slices {
    type T = [u64];
    const NAME: &'static str = "slice";
    fn service<S: Service>(node: &Node<S>, name: &ServiceName, cfg: &Cfg) -> Result<Factory<S, [u64]>, String> {
        svc_settings!(node.service_builder(name).publish_subscribe::<[u64]>(), cfg).create().map_err(|e| format!("{:?}", e))
    }
    fn publisher<S: Service>(svc: &Factory<S, [u64]>, loans: Option<usize>, fail_on_full: bool) -> Result<Publisher<S, [u64], ()>, iceoryx2::port::publisher::PublisherCreateError> {
        let pb = svc.publisher_builder().initial_max_slice_len(6).allocation_strategy(AllocationStrategy::Static);
        let pb = match loans {
            Some(l) => pb.backpressure_strategy(BackpressureStrategy::DiscardData).max_loaned_samples(l),
            None => pb,
        };
        let pb = if fail_on_full { pb.set_backpressure_handler(|_| iceoryx2::port::BackpressureAction::DiscardDataAndFail) } else { pb };
        pb.create()
    }
    fn subscriber<S: Service>(svc: &Factory<S, [u64]>, bh: Option<(usize, usize)>) -> Result<Subscriber<S, [u64], ()>, iceoryx2::port::subscriber::SubscriberCreateError> {
        match bh {
            Some((buf, hreq)) => svc.subscriber_builder().buffer_size(buf).history_request(hreq).create(),
            None => svc.subscriber_builder().create(),
        }
    }
    fn send_copy<S: Service>(p: &Publisher<S, [u64], ()>, id: u64) -> Result<usize, SendError> {
        // the copy API of slices = loan + write + send; a failing loan surfaces as SendError::LoanError
        match p.loan_slice_uninit(slice_len(id)) {
            Ok(l) => l.write_from_fn(|i| slice_elem(id, i)).send(),
            Err(e) => Err(SendError::LoanError(e)),
        }
    }
    fn loan<S: Service>(p: &Publisher<S, [u64], ()>, id: u64) -> Result<SampleMut<S, [u64], ()>, LoanError> {
        p.loan_slice_uninit(slice_len(id)).map(|l| l.write_from_fn(|i| slice_elem(id, i)))
    }
    fn receive<S: Service>(s: &Subscriber<S, [u64], ()>) -> Result<Option<Sample<S, [u64], ()>>, ReceiveError> {
        s.receive()
    }
    fn has_samples<S: Service>(s: &Subscriber<S, [u64], ()>) -> Result<bool, iceoryx2::port::update_connections::ConnectionFailure> {
        s.has_samples()
    }
    fn update<S: Service>(p: &Publisher<S, [u64], ()>) -> Result<(), iceoryx2::port::update_connections::ConnectionFailure> {
        p.update_connections()
    }
    fn sp<S: Service>(s: &Sample<S, [u64], ()>) -> &[u64] {
        s.payload()
    }
    fn lp<S: Service>(l: &SampleMut<S, [u64], ()>) -> &[u64] {
        l.payload()
    }
    fn check(p: &[u64]) -> Option<u64> {
        check_slice(p)
    }
}

#[derive(Debug, Clone, Copy)]
pub struct Cfg {
    pub buf_max: usize,
    pub hist: usize,
    pub borrow: usize,
    pub overflow: bool,
    pub max_pubs: usize,
    pub max_subs: usize,
    pub loans: usize,
    /// publishers carry a backpressure handler that answers DiscardDataAndFail (only without safe overflow)
    pub fail_on_full: bool,
}

impl Cfg {
    pub fn random(rng: &mut Rng) -> Cfg {
        let buf_max = rng.range(1, 4) as usize;
        Cfg {
            buf_max,
            hist: rng.below(buf_max as u64 + 1).min(3) as usize,
            borrow: rng.range(1, 3) as usize,
            overflow: rng.chance(1, 2),
            max_pubs: rng.range(1, 3) as usize,
            max_subs: rng.range(1, 3) as usize,
            loans: rng.range(1, 3) as usize,
            fail_on_full: false,
        }
        .with_fail(rng)
    }
    fn with_fail(mut self, rng: &mut Rng) -> Cfg {
        self.fail_on_full = !self.overflow && rng.chance(1, 3);
        self
    }
    pub fn key(&self) -> String {
        format!("buf{}h{}b{}o{}p{}s{}l{}f{}", self.buf_max, self.hist, self.borrow, self.overflow as u8, self.max_pubs, self.max_subs, self.loans, self.fail_on_full as u8)
    }
}

#[derive(Debug, Clone, Copy)]
pub struct Opts {
    /// keep received samples alive after their subscriber was dropped
    pub keep_held_past_subscriber: bool,
    /// weights: bias towards staying at the limits (C08) instead of uniform exploration
    pub adversarial: bool,
    /// run the loan-to-worst-case probe at the end of the history
    pub end_saturation: bool,
    pub steps: usize,
}

struct PubM {
    uid: u64,
    seq: u64,
    history: VecDeque<u64>,
    connected: Vec<u64>,
}
struct SubM {
    uid: u64,
    buf: usize,
    hist_req: usize,
    seen_pubs: Vec<u64>,
    queues: BTreeMap<u64, VecDeque<u64>>,
    borrows: BTreeMap<u64, usize>,
}

struct Held<S: Service, K: Kind> {
    sub_slot: usize,
    sub_uid: u64,
    pub_uid: u64,
    id: u64,
    orphan: bool,
    sample: Sample<S, K::T, ()>,
}

pub struct Outcome {
    pub steps: usize,
    pub events: BTreeMap<&'static str, u64>,
    /// (rule, message incl. trace tail)
    pub mismatch: Option<(String, String)>,
    pub trace_sample: Vec<String>,
    pub shape: u64,
}

struct World<S: Service, K: Kind> {
    cfg: Cfg,
    pubs: Vec<Option<(Publisher<S, K::T, ()>, PubM, Vec<(u64, SampleMut<S, K::T, ()>)>)>>,
    subs: Vec<Option<(Subscriber<S, K::T, ()>, SubM)>>,
    held: Vec<Held<S, K>>,
    next_uid: u64,
    trace: Vec<String>,
}

impl<S: Service, K: Kind> World<S, K> {
    fn pub_update(&mut self, pi: usize) {
        let live: Vec<(u64, usize, usize)> = self.subs.iter().flatten().map(|(_, m)| (m.uid, m.buf, m.hist_req)).collect();
        let (_, pm, _) = self.pubs[pi].as_mut().unwrap();
        pm.connected.retain(|u| live.iter().any(|l| l.0 == *u));
        let newly: Vec<(u64, usize, usize)> = live.iter().filter(|l| !pm.connected.contains(&l.0)).cloned().collect();
        let puid = pm.uid;
        let hist: Vec<u64> = pm.history.iter().cloned().collect();
        for (suid, buf, hreq) in newly {
            pm.connected.push(suid);
            let n = hreq.min(buf).min(hist.len());
            let overflow = self.cfg.overflow;
            let sm = &mut self.subs.iter_mut().flatten().find(|(_, m)| m.uid == suid).unwrap().1;
            let q = sm.queues.entry(puid).or_default();
            for id in &hist[hist.len() - n..] {
                if q.len() == buf {
                    if overflow {
                        q.pop_front();
                    } else {
                        continue;
                    }
                }
                q.push_back(*id);
            }
        }
    }
    fn sub_update(&mut self, si: usize) {
        let live: Vec<u64> = self.pubs.iter().flatten().map(|(_, m, _)| m.uid).collect();
        let (_, sm) = self.subs[si].as_mut().unwrap();
        for u in live {
            if !sm.seen_pubs.contains(&u) {
                sm.seen_pubs.push(u);
            }
        }
    }
    /// model of one delivery of `id` by publisher slot `pi`; returns (expected recipients, evicted?, discarded?)
    fn model_send(&mut self, pi: usize, id: u64) -> (usize, bool, bool) {
        let cfg = self.cfg;
        let (puid, connected) = {
            let pm = &mut self.pubs[pi].as_mut().unwrap().1;
            if cfg.hist > 0 {
                if pm.history.len() == cfg.hist {
                    pm.history.pop_front();
                }
                pm.history.push_back(id);
            }
            (pm.uid, pm.connected.clone())
        };
        let (mut expect, mut evicted, mut discarded) = (0usize, false, false);
        for (_, sm) in self.subs.iter_mut().flatten() {
            if connected.contains(&sm.uid) {
                let q = sm.queues.entry(puid).or_default();
                if q.len() == sm.buf {
                    if cfg.overflow {
                        q.pop_front();
                        evicted = true;
                    } else {
                        discarded = true;
                        continue;
                    }
                }
                q.push_back(id);
                expect += 1;
            }
        }
        (expect, evicted, discarded)
    }
}

pub fn run_history<S: Service>(config: &iceoryx2::config::Config, rng: &mut Rng, cfg: Cfg, opts: Opts, tag: &str) -> Outcome {
    // every third history uses slice payloads
    if rng.chance(1, 3) { run_history_kind::<S, Slices>(config, rng, cfg, opts, tag) } else { run_history_kind::<S, Fixed>(config, rng, cfg, opts, tag) }
}

pub fn run_history_kind<S: Service, K: Kind>(config: &iceoryx2::config::Config, rng: &mut Rng, cfg: Cfg, opts: Opts, tag: &str) -> Outcome {
    let mut events: BTreeMap<&'static str, u64> = BTreeMap::new();
    let mut out = Outcome { steps: 0, events: BTreeMap::new(), mismatch: None, trace_sample: Vec::new(), shape: 0 };
    macro_rules! ev {
        ($k:expr) => {
            *events.entry($k).or_default() += 1
        };
    }
    let node = match NodeBuilder::new().config(config).create::<S>() {
        Ok(n) => n,
        Err(e) => {
            out.mismatch = Some(("harness_node_create".into(), format!("{:?}", e)));
            return out;
        }
    };
    let name = format!("ps_{}_{}", tag, rng.next());
    *events.entry(if K::NAME == "slice" { "histories_with_slice_payload" } else { "histories_with_fixed_payload" }).or_default() += 1;
    let svc = match K::service(&node, &name.as_str().try_into().unwrap(), &cfg) {
        Ok(s) => s,
        Err(e) => {
            out.mismatch = Some(("service_create_failed".into(), format!("cfg {:?}: {}", cfg, e)));
            return out;
        }
    };
    let mut w: World<S, K> = World { cfg, pubs: (0..cfg.max_pubs).map(|_| None).collect(), subs: (0..cfg.max_subs).map(|_| None).collect(), held: Vec::new(), next_uid: 1, trace: Vec::new() };
    macro_rules! fail {
        ($rule:expr, $($a:tt)*) => {{
            let t0 = w.trace.len().saturating_sub(30);
            out.mismatch = Some(($rule.to_string(), format!("cfg {:?} step {}: {} | trace tail: {}", cfg, w.trace.len(), format!($($a)*), w.trace[t0..].join(" "))));
            out.steps = w.trace.len();
            out.events = events;
            return out;
        }};
    }
    // operation weights
    let wts: [(u32, u8); 12] = if opts.adversarial {
        [(4, 0), (2, 1), (6, 2), (4, 3), (30, 4), (10, 5), (6, 6), (2, 7), (18, 8), (6, 9), (4, 10), (8, 11)]
    } else {
        [(8, 0), (5, 1), (10, 2), (5, 3), (28, 4), (5, 5), (4, 6), (2, 7), (22, 8), (7, 9), (2, 10), (2, 11)]
    };
    let total: u32 = wts.iter().map(|x| x.0).sum();
    // Scripted prefix ("expired connections gadget", one history in four with three publisher slots): three
    // publishers deliver to one subscriber that holds samples of all of them, the publishers leave one by one,
    // then the samples of the second and third are released before the next receive, so that two expired
    // connections become cleanable inside ONE receive call while the first is still stuck on its borrows.
    // Codes 90+slot = release every held sample of that publisher slot. The random history continues afterwards.
    let mut forced: VecDeque<(u8, usize)> = VecDeque::new();
    if cfg.max_pubs >= 3 && rng.chance(1, 4) {
        forced.push_back((2, 0));
        for i in 0..3 {
            forced.push_back((0, i));
        }
        for _ in 0..cfg.borrow + 1 {
            forced.push_back((4, 0));
        }
        forced.push_back((4, 1));
        forced.push_back((4, 2));
        for _ in 0..cfg.borrow + 3 {
            forced.push_back((8, 0));
        }
        for i in 0..3 {
            forced.push_back((1, i));
            forced.push_back((11, 0));
        }
        forced.push_back((91, 0));
        forced.push_back((92, 0));
        forced.push_back((8, 0));
        forced.push_back((90, 0));
        for _ in 0..3 {
            forced.push_back((8, 0));
        }
        *events.entry("expired_connections_gadget").or_default() += 1;
    }
    let mut slot_uid: Vec<u64> = vec![0; cfg.max_pubs];
    let mut steps_left = opts.steps;
    while steps_left > 0 || !forced.is_empty() {
        let mut force: Option<usize> = None;
        macro_rules! pick {
            ($n:expr) => {
                match force.take() {
                    Some(x) => x % ($n).max(1),
                    None => rng.below(($n) as u64) as usize,
                }
            };
        }
        let mut op = 0u8;
        if let Some((o, ix)) = forced.pop_front() {
            if o >= 90 {
                // release all held samples that came from the publisher that lived in slot o-90
                let uid = slot_uid[(o - 90) as usize % cfg.max_pubs];
                let n = w.held.iter().filter(|h| h.pub_uid == uid).count();
                if n == 0 {
                    continue;
                }
                let k = w.held.iter().position(|h| h.pub_uid == uid).unwrap();
                if n > 1 {
                    forced.push_front((o, 0));
                }
                op = 9;
                force = Some(k);
            } else {
                op = o;
                force = Some(ix);
            }
        } else {
            steps_left -= 1;
            let mut r = rng.below(total as u64) as u32;
            for (wt, o) in wts.iter() {
                if r < *wt {
                    op = *o;
                    break;
                }
                r -= *wt;
            }
        }
        match op {
            0 => {
                // create publisher
                let i = pick!(cfg.max_pubs);
                if w.pubs[i].is_none() {
                    match K::publisher(&svc, Some(cfg.loans), cfg.fail_on_full) {
                        Ok(p) => {
                            let uid = w.next_uid;
                            w.next_uid += 1;
                            w.pubs[i] = Some((p, PubM { uid, seq: 0, history: VecDeque::new(), connected: Vec::new() }, Vec::new()));
                            slot_uid[i] = uid;
                            w.trace.push(format!("CreatePub{i}(u{uid})"));
                            w.pub_update(i);
                            ev!("create_pub");
                        }
                        Err(e) => fail!("port_create_inside_limit", "publisher {} of max {} refused: {:?}", w.pubs.iter().flatten().count() + 1, cfg.max_pubs, e),
                    }
                } else if w.pubs.iter().all(|p| p.is_some()) {
                    // one beyond the limit
                    match K::publisher(&svc, None, false) {
                        Err(iceoryx2::port::publisher::PublisherCreateError::ExceedsMaxSupportedPublishers) => ev!("limit_publishers_enforced"),
                        Ok(_) => fail!("limit_not_enforced", "publisher beyond max_publishers={} was created", cfg.max_pubs),
                        Err(e) => fail!("limit_wrong_error", "publisher beyond the limit refused with {:?}", e),
                    }
                }
            }
            1 => {
                let i = pick!(cfg.max_pubs);
                if let Some((p, pm, loans)) = w.pubs[i].take() {
                    w.trace.push(format!("DropPub{i}(u{})", pm.uid));
                    drop(loans);
                    drop(p);
                    for (_, sm) in w.subs.iter_mut().flatten() {
                        if !sm.seen_pubs.contains(&pm.uid) {
                            if let Some(q) = sm.queues.get_mut(&pm.uid) {
                                if !q.is_empty() {
                                    ev!("documented_loss_unseen_publisher");
                                }
                                q.clear();
                            }
                        }
                    }
                    ev!("drop_pub");
                }
            }
            2 => {
                let scripted = force.is_some();
                let j = pick!(cfg.max_subs);
                if w.subs[j].is_none() {
                    let buf = if scripted { cfg.buf_max } else { rng.range(1, cfg.buf_max as u64) as usize };
                    let hreq = if scripted { 0 } else { rng.below((cfg.hist.min(buf) + 1) as u64) as usize };
                    match K::subscriber(&svc, Some((buf, hreq))) {
                        Ok(s) => {
                            let uid = w.next_uid;
                            w.next_uid += 1;
                            w.subs[j] = Some((s, SubM { uid, buf, hist_req: hreq, seen_pubs: Vec::new(), queues: BTreeMap::new(), borrows: BTreeMap::new() }));
                            w.trace.push(format!("CreateSub{j}(u{uid},buf{buf},h{hreq})"));
                            w.sub_update(j);
                            ev!("create_sub");
                            if hreq > 0 {
                                ev!("late_joiner_with_history_request");
                            }
                        }
                        Err(e) => fail!("port_create_inside_limit", "subscriber {} of max {} refused: {:?}", w.subs.iter().flatten().count() + 1, cfg.max_subs, e),
                    }
                } else if w.subs.iter().all(|p| p.is_some()) {
                    match K::subscriber(&svc, None) {
                        Err(iceoryx2::port::subscriber::SubscriberCreateError::ExceedsMaxSupportedSubscribers) => ev!("limit_subscribers_enforced"),
                        Ok(_) => fail!("limit_not_enforced", "subscriber beyond max_subscribers={} was created", cfg.max_subs),
                        Err(e) => fail!("limit_wrong_error", "subscriber beyond the limit refused with {:?}", e),
                    }
                }
            }
            3 => {
                let j = pick!(cfg.max_subs);
                if w.subs[j].is_some() {
                    let uid = w.subs[j].as_ref().unwrap().1.uid;
                    let keep = opts.keep_held_past_subscriber && rng.chance(1, 2);
                    if keep {
                        for h in w.held.iter_mut().filter(|h| h.sub_uid == uid) {
                            h.orphan = true;
                            ev!("sample_outlives_subscriber");
                        }
                    } else {
                        w.held.retain(|h| h.sub_uid != uid);
                    }
                    let (s, _) = w.subs[j].take().unwrap();
                    drop(s);
                    w.trace.push(format!("DropSub{j}(u{uid}{})", if keep { ",samples kept" } else { "" }));
                    ev!("drop_sub");
                }
            }
            4 | 6 => {
                // send_copy (4) or send a previously loaned sample (6)
                let i = pick!(cfg.max_pubs);
                if w.pubs[i].is_none() {
                    continue;
                }
                if op == 6 && w.pubs[i].as_ref().unwrap().2.is_empty() {
                    continue;
                }
                let outstanding = w.pubs[i].as_ref().unwrap().2.len();
                if op == 4 && outstanding == cfg.loans {
                    // send_copy needs a loan of its own: must be refused without side effects
                    let r = K::send_copy(&w.pubs[i].as_ref().unwrap().0, 0);
                    match r {
                        Err(SendError::LoanError(LoanError::ExceedsMaxLoans)) => {
                            w.trace.push(format!("Send{i}->ExceedsMaxLoans"));
                            ev!("limit_loans_enforced");
                            // the publisher refreshed its connections before it failed? it must not deliver anything
                        }
                        Ok(n) => fail!("limit_not_enforced", "send_copy with all {} loans outstanding succeeded ({} recipients)", cfg.loans, n),
                        Err(e) => fail!("limit_wrong_error", "send_copy with all loans outstanding failed with {:?}", e),
                    }
                    continue;
                }
                w.pub_update(i);
                let (id, got) = if op == 4 {
                    let id = {
                        let pm = &mut w.pubs[i].as_mut().unwrap().1;
                        pm.seq += 1;
                        (pm.uid << 32) | pm.seq
                    };
                    (id, K::send_copy(&w.pubs[i].as_ref().unwrap().0, id))
                } else {
                    let k = rng.below(outstanding as u64) as usize;
                    let (id, sm) = w.pubs[i].as_mut().unwrap().2.remove(k);
                    if K::check(K::lp(&sm)) != Some(id) {
                        fail!("loan_changed", "unsent loan #{:x} changed before send: {:?}", id, K::lp(&sm));
                    }
                    (id, sm.send())
                };
                let (expect, evicted, discarded) = w.model_send(i, id);
                match got {
                    Ok(n) => {
                        w.trace.push(format!("Send{i}(#{:x}{})->{}", id & 0xffff_ffff, if op == 6 { ",loaned" } else { "" }, n));
                        if n != expect {
                            fail!("recipient_count", "send returned {} recipients, model {}", n, expect);
                        }
                        if discarded && cfg.fail_on_full {
                            // the handler is only consulted when the connection's queue (sized for the service
                            // maximum) is full; a subscriber with a smaller buffer is skipped silently
                            ev!("discard_without_consulting_the_handler");
                        }
                    }
                    Err(SendError::UnableToDeliver) if cfg.fail_on_full && discarded => {
                        w.trace.push(format!("Send{i}(#{:x})->UnableToDeliver", id & 0xffff_ffff));
                        ev!("send_unable_to_deliver");
                    }
                    Err(e) => fail!("send_failed_inside_limits", "send failed: {:?} (outstanding loans {}, held {})", e, outstanding, w.held.len()),
                }
                ev!("send");
                if evicted {
                    ev!("overflow_eviction");
                    if w.held.iter().any(|h| !h.orphan) {
                        ev!("overflow_eviction_while_sample_borrowed");
                    }
                }
                if discarded {
                    ev!("discard_on_full_buffer");
                }
            }
            5 => {
                // loan and keep
                let i = pick!(cfg.max_pubs);
                if w.pubs[i].is_none() {
                    continue;
                }
                let outstanding = w.pubs[i].as_ref().unwrap().2.len();
                let id = {
                    let pm = &w.pubs[i].as_ref().unwrap().1;
                    (pm.uid << 32) | (pm.seq + 1)
                };
                let r = K::loan(&w.pubs[i].as_ref().unwrap().0, id);
                if outstanding < cfg.loans {
                    match r {
                        Ok(l) => {
                            w.pubs[i].as_mut().unwrap().1.seq += 1;
                            w.pubs[i].as_mut().unwrap().2.push((id, l));
                            w.trace.push(format!("Loan{i}(#{:x})", id & 0xffff_ffff));
                            ev!("loan");
                        }
                        Err(e) => fail!("loan_failed_inside_limits", "loan {} of {} failed: {:?} (held samples {})", outstanding + 1, cfg.loans, e, w.held.len()),
                    }
                } else {
                    match r {
                        Err(LoanError::ExceedsMaxLoans) => {
                            w.trace.push(format!("Loan{i}->ExceedsMaxLoans"));
                            ev!("limit_loans_enforced");
                        }
                        Ok(_) => fail!("limit_not_enforced", "loan beyond max_loaned_samples={} succeeded", cfg.loans),
                        Err(e) => fail!("limit_wrong_error", "loan beyond the limit failed with {:?}", e),
                    }
                }
            }
            7 => {
                // drop an unsent loan
                let i = pick!(cfg.max_pubs);
                if let Some((_, _, loans)) = w.pubs[i].as_mut() {
                    if !loans.is_empty() {
                        let k = rng.below(loans.len() as u64) as usize;
                        let (id, l) = loans.remove(k);
                        if K::check(K::lp(&l)) != Some(id) {
                            fail!("loan_changed", "unsent loan #{:x} changed: {:?}", id, K::lp(&l));
                        }
                        drop(l);
                        w.trace.push(format!("DropLoan{i}(#{:x})", id & 0xffff_ffff));
                        ev!("drop_loan");
                    }
                }
            }
            8 => {
                let j = pick!(cfg.max_subs);
                if w.subs[j].is_none() {
                    continue;
                }
                w.sub_update(j);
                let r = K::receive(&w.subs[j].as_ref().unwrap().0);
                let sm = &mut w.subs[j].as_mut().unwrap().1;
                let with_data: Vec<u64> = sm.queues.iter().filter(|(_, q)| !q.is_empty()).map(|(p, _)| *p).collect();
                let receivable: Vec<u64> = with_data.iter().filter(|p| *sm.borrows.get(p).unwrap_or(&0) < cfg.borrow).cloned().collect();
                match r {
                    Ok(Some(sample)) => {
                        let id = match K::check(K::sp(&sample)) {
                            Some(v) => v,
                            None => fail!("payload_corrupted", "received payload is not byte-identical to any sent one: {:?}", K::sp(&sample)),
                        };
                        let puid = id >> 32;
                        w.trace.push(format!("Recv{j}->#{:x}", id & 0xffff_ffff));
                        if !with_data.contains(&puid) {
                            fail!("unexpected_sample", "received #{:x} from publisher u{} but the model has nothing from it (with data {:?})", id, puid, with_data);
                        }
                        if !receivable.contains(&puid) {
                            fail!("borrow_limit_not_enforced", "received from u{} although {} samples of that connection are borrowed (max {})", puid, sm.borrows.get(&puid).unwrap_or(&0), cfg.borrow);
                        }
                        let head = sm.queues.get_mut(&puid).unwrap().pop_front().unwrap();
                        if head != id {
                            fail!("order_or_loss", "received #{:x} but the model head of that pair is #{:x}", id, head);
                        }
                        *sm.borrows.entry(puid).or_default() += 1;
                        let suid = sm.uid;
                        w.held.push(Held { sub_slot: j, sub_uid: suid, pub_uid: puid, id, orphan: false, sample });
                        ev!("recv");
                    }
                    Ok(None) => {
                        w.trace.push(format!("Recv{j}->None"));
                        if !with_data.is_empty() {
                            fail!("sample_lost", "receive returned None but the model holds samples from {:?}", with_data);
                        }
                        ev!("recv_none");
                    }
                    Err(ReceiveError::ExceedsMaxBorrows) => {
                        w.trace.push(format!("Recv{j}->ExceedsMaxBorrows"));
                        if !receivable.is_empty() || with_data.is_empty() {
                            fail!("limit_wrong_error", "ExceedsMaxBorrows but model receivable {:?} with data {:?}", receivable, with_data);
                        }
                        ev!("limit_borrows_enforced");
                    }
                    Err(e) => fail!("receive_failed", "receive error {:?}", e),
                }
            }
            9 => {
                if !w.held.is_empty() {
                    let k = pick!(w.held.len());
                    let h = w.held.remove(k);
                    if K::check(K::sp(&h.sample)) != Some(h.id) {
                        fail!(if h.orphan { "sample_outliving_subscriber_changed" } else { "held_sample_changed" }, "held sample #{:x} changed: {:?}", h.id, K::sp(&h.sample));
                    }
                    drop(h.sample);
                    w.trace.push(format!("Release(u{} #{:x})", h.sub_uid, h.id & 0xffff_ffff));
                    if let Some((_, sm)) = w.subs[h.sub_slot].as_mut() {
                        if sm.uid == h.sub_uid {
                            if let Some(b) = sm.borrows.get_mut(&h.pub_uid) {
                                *b -= 1;
                            }
                        }
                    }
                    ev!("release");
                }
            }
            10 => {
                let i = pick!(cfg.max_pubs);
                if w.pubs[i].is_some() {
                    if let Err(e) = K::update(&w.pubs[i].as_ref().unwrap().0) {
                        fail!("update_connections_failed", "{:?}", e);
                    }
                    w.trace.push(format!("Update{i}"));
                    w.pub_update(i);
                    ev!("update_connections");
                }
            }
            _ => {
                let j = pick!(cfg.max_subs);
                if w.subs[j].is_some() {
                    w.sub_update(j);
                    let r = K::has_samples(&w.subs[j].as_ref().unwrap().0);
                    let sm = &w.subs[j].as_ref().unwrap().1;
                    let model = sm.queues.values().any(|q| !q.is_empty());
                    match r {
                        Ok(b) => {
                            w.trace.push(format!("Has{j}->{}", b));
                            if b != model {
                                fail!("has_samples_wrong", "has_samples() = {} but the model says {}", b, model);
                            }
                        }
                        Err(e) => fail!("receive_failed", "has_samples error {:?}", e),
                    }
                    ev!("has_samples");
                }
            }
        }
        // canaries: every held sample and every unsent loan is unchanged after every step
        for h in &w.held {
            if K::check(K::sp(&h.sample)) != Some(h.id) {
                fail!(if h.orphan { "sample_outliving_subscriber_changed" } else { "held_sample_changed" }, "held sample #{:x} changed after the step: {:?}", h.id, K::sp(&h.sample));
            }
        }
        for (_, _, loans) in w.pubs.iter().flatten() {
            for (id, l) in loans {
                if K::check(K::lp(l)) != Some(*id) {
                    fail!("loan_changed", "unsent loan #{:x} changed after the step: {:?}", id, K::lp(l));
                }
            }
        }
        let holders = w.held.len() + w.pubs.iter().flatten().map(|p| p.2.len()).sum::<usize>();
        if holders >= 2 {
            ev!("steps_with_two_or_more_references");
        }
    }
    // ---- end-of-history saturation probe (C02/C08): drive every publisher to the worst case ----
    if opts.end_saturation {
        // release loans and live samples, keep what subscribers have buffered
        for p in w.pubs.iter_mut().flatten() {
            p.2.clear();
        }
        w.held.retain(|h| h.orphan);
        let live_subs: Vec<usize> = (0..cfg.max_subs).filter(|j| w.subs[*j].is_some()).collect();
        for round in 0..2 {
            let mut borrowed: Vec<Sample<S, K::T, ()>> = Vec::new();
            for i in 0..cfg.max_pubs {
                if w.pubs[i].is_none() {
                    continue;
                }
                // fill: buffers, history, then every subscriber borrows to its limit, then refill
                for fill in 0..2 {
                    for n in 0..(cfg.buf_max + cfg.hist + 1) {
                        let id = (0xFFFF << 32) | ((round * 1000 + fill * 100 + n) as u64);
                        match K::send_copy(&w.pubs[i].as_ref().unwrap().0, id) {
                            Ok(_) => {}
                            Err(SendError::UnableToDeliver) if cfg.fail_on_full => {}
                            Err(e) => fail!("saturation_send_failed", "worst-case fill: send {} failed with {:?}", n, e),
                        }
                    }
                    if fill == 0 {
                        for j in &live_subs {
                            loop {
                                match K::receive(&w.subs[*j].as_ref().unwrap().0) {
                                    Ok(Some(s)) => {
                                        if K::check(K::sp(&s)).is_none() {
                                            fail!("payload_corrupted", "saturation probe received a corrupted payload");
                                        }
                                        borrowed.push(s)
                                    }
                                    Ok(None) => break,
                                    Err(ReceiveError::ExceedsMaxBorrows) => break,
                                    Err(e) => fail!("receive_failed", "saturation probe receive: {:?}", e),
                                }
                            }
                        }
                    }
                }
                let mut loans = Vec::new();
                for n in 0..cfg.loans {
                    match K::loan(&w.pubs[i].as_ref().unwrap().0, 7) {
                        Ok(l) => loans.push(l),
                        Err(e) => fail!("saturation_loan_failed", "worst case (all buffers full, {} samples borrowed, history full): loan {} of {} failed with {:?}", borrowed.len(), n + 1, cfg.loans, e),
                    }
                }
                match K::loan(&w.pubs[i].as_ref().unwrap().0, 7) {
                    Err(LoanError::ExceedsMaxLoans) => {}
                    Ok(_) => fail!("limit_not_enforced", "saturation probe: loan beyond the limit succeeded"),
                    Err(e) => fail!("limit_wrong_error", "saturation probe: loan beyond the limit failed with {:?}", e),
                }
                for s in &borrowed {
                    if K::check(K::sp(s)).is_none() {
                        fail!("held_sample_changed", "saturation probe: a borrowed sample changed while the publisher was driven to its limits");
                    }
                }
                drop(loans);
                ev!("saturation_probes");
            }
            drop(borrowed);
        }
        for h in &w.held {
            if K::check(K::sp(&h.sample)) != Some(h.id) {
                fail!("sample_outliving_subscriber_changed", "sample #{:x} kept past its subscriber changed during the saturation probe", h.id);
            }
        }
    }
    out.steps = w.trace.len();
    out.trace_sample = w.trace.iter().take(40).cloned().collect();
    let mut sh = vkit::fnv_str(&cfg.key());
    for (k, v) in &events {
        sh = vkit::mix(sh, vkit::fnv_str(k) ^ (*v).min(3));
    }
    out.shape = sh;
    out.events = events;
    out
}
