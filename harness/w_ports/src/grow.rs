//! C15 (port level) — dynamically growing data segments: payloads sent before a growth stay readable
//! until released, payloads received afterwards resolve to the new memory, nothing leaks.
use iceoryx2::port::LoanError;
use iceoryx2::prelude::*;
use iceoryx2::sample::Sample;
use iceoryx2::service::Service;
use std::collections::BTreeMap;
use vkit::Rng;

fn byte(id: u64, i: usize) -> u8 {
    (id.wrapping_mul(131).wrapping_add(i as u64 * 7).wrapping_add(id >> 5)) as u8
}
fn verify(id: u64, p: &[u8]) -> bool {
    p.iter().enumerate().all(|(i, b)| *b == byte(id, i))
}

#[derive(Debug, Clone, Copy)]
pub struct GCfg {
    pub strategy: u8, // 0 best fit, 1 power of two, 2 static
    pub initial_len: usize,
    pub buf: usize,
    pub borrow: usize,
    pub hist: usize,
    pub overflow: bool,
    pub nsub: usize,
}

pub struct GOutcome {
    pub events: BTreeMap<&'static str, u64>,
    pub mismatch: Option<(String, String)>,
    pub trace: Vec<String>,
}

pub fn run<S: Service>(config: &iceoryx2::config::Config, rng: &mut Rng, cfg: GCfg, steps: usize, tag: u64) -> GOutcome {
    let mut out = GOutcome { events: BTreeMap::new(), mismatch: None, trace: Vec::new() };
    macro_rules! ev { ($k:expr) => { *out.events.entry($k).or_default() += 1 }; }
    macro_rules! fail {
        ($rule:expr, $($a:tt)*) => {{
            let t0 = out.trace.len().saturating_sub(25);
            out.mismatch = Some(($rule.to_string(), format!("cfg {:?}: {} | trace tail: {}", cfg, format!($($a)*), out.trace[t0..].join(" "))));
            return out;
        }};
    }
    let node = NodeBuilder::new().config(config).create::<S>().unwrap();
    let name = format!("grow_{}_{}", std::process::id(), tag);
    let svc = node
        .service_builder(&name.as_str().try_into().unwrap())
        .publish_subscribe::<[u8]>()
        .subscriber_max_buffer_size(cfg.buf)
        .subscriber_max_borrowed_samples(cfg.borrow)
        .history_size(cfg.hist)
        .enable_safe_overflow(cfg.overflow)
        .max_subscribers(cfg.nsub)
        .max_publishers(1)
        .create()
        .unwrap();
    let strategy = match cfg.strategy {
        0 => AllocationStrategy::BestFit,
        1 => AllocationStrategy::PowerOfTwo,
        _ => AllocationStrategy::Static,
    };
    let publisher = svc.publisher_builder().initial_max_slice_len(cfg.initial_len).allocation_strategy(strategy).backpressure_strategy(BackpressureStrategy::DiscardData).max_loaned_samples(2).create().unwrap();
    let subs: Vec<_> = (0..cfg.nsub).map(|_| svc.subscriber_builder().create().unwrap()).collect();
    // model: per subscriber FIFO of (id, len)
    let mut queues: Vec<std::collections::VecDeque<(u64, usize)>> = vec![Default::default(); cfg.nsub];
    let mut held: Vec<(usize, u64, usize, Sample<S, [u8], ()>)> = Vec::new();
    let mut next_id = 1u64;
    let mut max_len = cfg.initial_len;
    for _ in 0..steps {
        match rng.below(10) {
            0..=4 => {
                // send a slice; sizes creep upwards so that the segment has to grow again and again
                let len = match rng.below(4) {
                    0 => rng.range(0, max_len as u64) as usize,
                    1 => max_len,
                    _ => (max_len + rng.range(1, max_len as u64 / 2 + 2) as usize).min(20_000),
                };
                let id = next_id;
                match publisher.loan_slice_uninit(len) {
                    Ok(l) => {
                        let grown = len > max_len;
                        if grown && cfg.strategy == 2 {
                            fail!("static_segment_grew", "loan of {} elements succeeded on a static segment with max slice len {}", len, max_len);
                        }
                        let s = l.write_from_fn(|i| byte(id, i));
                        match s.send() {
                            Ok(n) => {
                                next_id += 1;
                                if grown {
                                    max_len = len;
                                    ev!("segment_growth_steps");
                                    if !held.is_empty() {
                                        ev!("growth_while_samples_held");
                                    }
                                }
                                let mut exp = 0;
                                for q in queues.iter_mut() {
                                    if q.len() == cfg.buf {
                                        if cfg.overflow {
                                            q.pop_front();
                                        } else {
                                            continue;
                                        }
                                    }
                                    q.push_back((id, len));
                                    exp += 1;
                                }
                                out.trace.push(format!("Send(#{id},len{len})->{n}"));
                                if n != exp {
                                    fail!("recipient_count", "send returned {} recipients, model {}", n, exp);
                                }
                                ev!("send");
                            }
                            Err(e) => fail!("send_failed_inside_limits", "send of {} elements failed: {:?}", len, e),
                        }
                    }
                    Err(LoanError::ExceedsMaxLoanSize) if cfg.strategy == 2 && len > max_len => {
                        out.trace.push(format!("Loan(len{len})->ExceedsMaxLoanSize"));
                        ev!("static_size_limit_enforced");
                    }
                    Err(e) => fail!("loan_failed_inside_limits", "loan_slice_uninit({}) failed with {:?} (strategy {}, max len so far {}, {} samples held)", len, e, cfg.strategy, max_len, held.len()),
                }
            }
            5..=7 => {
                let j = rng.below(cfg.nsub as u64) as usize;
                let borrowed = held.iter().filter(|h| h.0 == j).count();
                match subs[j].receive() {
                    Ok(Some(s)) => {
                        let Some((id, len)) = queues[j].pop_front() else {
                            fail!("unexpected_sample", "subscriber {} received a sample of {} bytes, the model has nothing queued", j, s.payload().len());
                        };
                        out.trace.push(format!("Recv{j}->#{id}"));
                        if s.payload().len() != len {
                            fail!("payload_corrupted", "sample #{} has {} elements, {} were sent", id, s.payload().len(), len);
                        }
                        if !verify(id, s.payload()) {
                            fail!("payload_corrupted", "sample #{} ({} bytes) does not carry the bytes that were written (offset resolved to the wrong memory?)", id, len);
                        }
                        if borrowed >= cfg.borrow {
                            fail!("limit_not_enforced", "borrowed beyond the limit");
                        }
                        held.push((j, id, len, s));
                        ev!("recv");
                    }
                    Ok(None) => {
                        out.trace.push(format!("Recv{j}->None"));
                        if !queues[j].is_empty() && borrowed < cfg.borrow {
                            fail!("sample_lost", "subscriber {} got None with {:?} queued", j, queues[j]);
                        }
                    }
                    Err(iceoryx2::port::ReceiveError::ExceedsMaxBorrows) => {
                        if borrowed < cfg.borrow {
                            fail!("limit_wrong_error", "ExceedsMaxBorrows with {} of {} borrowed", borrowed, cfg.borrow);
                        }
                    }
                    Err(e) => fail!("receive_failed", "{:?}", e),
                }
            }
            _ => {
                if !held.is_empty() {
                    let k = rng.below(held.len() as u64) as usize;
                    let (_, id, len, s) = held.remove(k);
                    if s.payload().len() != len || !verify(id, s.payload()) {
                        fail!("held_sample_changed", "sample #{} changed while it was held across segment growth", id);
                    }
                    out.trace.push(format!("Release(#{id})"));
                    ev!("release");
                }
            }
        }
        for (_, id, len, s) in &held {
            if s.payload().len() != *len || !verify(*id, s.payload()) {
                fail!("held_sample_changed", "sample #{} ({} bytes) changed or became unreadable while held", id, len);
            }
        }
    }
    // end: release everything, drain, then the publisher must still be able to loan its maximum
    held.clear();
    for (j, s) in subs.iter().enumerate() {
        while let Ok(Some(x)) = s.receive() {
            let Some((id, len)) = queues[j].pop_front() else {
                fail!("unexpected_sample", "final drain: extra sample");
            };
            if x.payload().len() != len || !verify(id, x.payload()) {
                fail!("payload_corrupted", "final drain: sample #{} corrupted", id);
            }
        }
        if !queues[j].is_empty() {
            fail!("sample_lost", "final drain: subscriber {} misses {:?}", j, queues[j]);
        }
    }
    let mut loans = Vec::new();
    for n in 0..2 {
        match publisher.loan_slice_uninit(max_len) {
            Ok(l) => loans.push(l),
            Err(e) => fail!("chunk_leaked", "after everything was released loan {} of 2 (len {}) failed with {:?}", n + 1, max_len, e),
        }
    }
    out
}
