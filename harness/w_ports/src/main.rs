//! Port-level workers (whole iceoryx2 stack, `local::Service` and `ipc::Service`).
mod dom;
mod drops;
mod ev;
mod grow;
mod ps;
mod ps_conc;
mod rr;
mod rr_conc;
mod svcrace;
mod bb;
mod limits;
mod ws;

use std::time::{Duration, Instant};
use vkit::{Args, Json, Report, Rng};

fn ps_campaign(args: &Args, prop: &str) -> Report {
    let seed = args.u64("seed", 1);
    let shard = args.u64("shard", 0);
    let secs = args.u64("secs", 5);
    let svc = args.str("svc", "local");
    let deadline = Instant::now() + Duration::from_secs(secs);
    let only = args.kv.get("only-hist").map(|s| s.parse::<u64>().unwrap());
    let max = args.u64("hists", u64::MAX);
    let mut rep = Report::new();
    dom::install_log_capture();
    let d = dom::Domain::new(&format!("{}{}", prop.to_lowercase(), shard));
    let mut i = 0u64;
    while i < max && Instant::now() < deadline {
        let hi = only.unwrap_or(i);
        let mut rng = Rng::derive(&[seed, shard, hi, vkit::fnv_str(prop)]);
        let cfg = ps::Cfg::random(&mut rng);
        let opts = ps::Opts {
            keep_held_past_subscriber: prop == "C02" && !args.flag("no-orphans"),
            adversarial: prop == "C08",
            end_saturation: prop != "C01",
            steps: if prop == "C01" { rng.range(20, 300) as usize } else { rng.range(10, 120) as usize },
        };
        let o = if svc == "ipc" { ps::run_history::<iceoryx2::service::ipc::Service>(&d.config, &mut rng, cfg, opts, prop) } else { ps::run_history::<iceoryx2::service::local::Service>(&d.config, &mut rng, cfg, opts, prop) };
        rep.execs += 1;
        rep.count("steps", o.steps as u64);
        for (k, v) in &o.events {
            rep.count(k, *v);
        }
        let e = |k: &str| *o.events.get(k).unwrap_or(&0);
        let nontrivial = match prop {
            "C01" => e("overflow_eviction") + e("late_joiner_with_history_request") + e("discard_on_full_buffer") + e("documented_loss_unseen_publisher") > 0 && e("recv") > 0,
            "C02" => e("steps_with_two_or_more_references") > 0 && e("saturation_probes") > 0,
            _ => e("limit_loans_enforced") + e("limit_borrows_enforced") + e("limit_publishers_enforced") + e("limit_subscribers_enforced") > 0,
        };
        if nontrivial {
            rep.nontrivial += 1;
            rep.distinct(o.shape);
        }
        if i < 2 {
            rep.sample(Json::obj().set("service", svc.as_str()).set("config", format!("{:?}", cfg)).set("history_prefix", o.trace_sample.join(" ")));
        }
        let bad = dom::drain_bad_logs(&[]);
        if let Some((rule, msg)) = o.mismatch {
            let w = Json::obj()
                .set("service", svc.as_str())
                .set("config", format!("{:?}", cfg))
                .set("replay_args", format!("{} --svc {} --seed {} --shard {} --only-hist {}{}", prop.to_lowercase(), svc, seed, shard, hi, if args.flag("no-orphans") { " --no-orphans" } else { "" }));
            rep.violation(&rule, format!("{}:ps:{}", prop, rule), msg, w);
        } else if !bad.is_empty() && prop != "C01" {
            let w = Json::obj().set("service", svc.as_str()).set("config", format!("{:?}", cfg)).set("replay_args", format!("{} --svc {} --seed {} --shard {} --only-hist {}", prop.to_lowercase(), svc, seed, shard, hi));
            rep.violation("error_logged_inside_contract", format!("{}:ps:error_logged", prop), bad[0].clone(), w);
        }
        let res = d.residue();
        // node + service are dropped at the end of run_history: nothing may remain
        if !res.is_empty() {
            rep.violation("residue", format!("{}:ps:residue", prop), format!("files left after all objects were dropped: {:?}", &res[..res.len().min(6)]), Json::obj().set("config", format!("{:?}", cfg)));
        }
        i += 1;
        if only.is_some() {
            break;
        }
    }
    rep.count("histories", i);
    rep
}

fn rr_campaign(args: &Args, prop: &str) -> Report {
    let seed = args.u64("seed", 1);
    let shard = args.u64("shard", 0);
    let secs = args.u64("secs", 5);
    let svc = args.str("svc", "local");
    let deadline = Instant::now() + Duration::from_secs(secs);
    let only = args.kv.get("only-hist").map(|s| s.parse::<u64>().unwrap());
    let mut rep = Report::new();
    dom::install_log_capture();
    let d = dom::Domain::new(&format!("{}r{}", prop.to_lowercase(), shard));
    let mut i = 0u64;
    while Instant::now() < deadline {
        let hi = only.unwrap_or(i);
        let mut rng = Rng::derive(&[seed, shard, hi, 11]);
        let cfg = rr::RCfg::random(&mut rng);
        let steps = rng.range(10, 150) as usize;
        let script = rr::gen_script(&mut rng, steps);
        let exec = |sc: &rr::Script| if svc == "ipc" { rr::run_history::<iceoryx2::service::ipc::Service>(&d.config, cfg, sc, "c11") } else { rr::run_history::<iceoryx2::service::local::Service>(&d.config, cfg, sc, "c11") };
        let mut o = exec(&script);
        if let Some((rule, _)) = o.mismatch.clone() {
            // shrink the history (greedy delta debugging on whole steps) so that the witness is minimal
            let mut cur = script.clone();
            let mut chunk = (cur.len() / 2).max(1);
            loop {
                let mut i = 0;
                while i < cur.len() {
                    let mut cand = cur.clone();
                    let end = (i + chunk).min(cand.len());
                    cand.drain(i..end);
                    let oc = exec(&cand);
                    if oc.mismatch.as_ref().map(|m| m.0 == rule).unwrap_or(false) {
                        cur = cand;
                        o = oc;
                    } else {
                        i += chunk;
                    }
                }
                if chunk == 1 {
                    break;
                }
                chunk /= 2;
            }
            let _ = dom::drain_bad_logs(&[]);
            rep.count("histories_shrunk", 1);
        }
        rep.execs += 1;
        rep.count("steps", o.steps as u64);
        for (k, v) in &o.events {
            rep.count(k, *v);
        }
        let e = |k: &str| *o.events.get(k).unwrap_or(&0);
        let nontrivial = if prop == "C08" {
            e("limit_active_requests_enforced") + e("limit_borrowed_responses_enforced") + e("limit_active_requests_at_server") > 0
        } else {
            e("pending_dropped_with_queued_responses") + e("response_sent_after_client_dropped") > 0 && e("response_received") > 0
        };
        if nontrivial {
            rep.nontrivial += 1;
            rep.distinct(o.shape);
        }
        if i < 2 {
            rep.sample(Json::obj().set("service", svc.as_str()).set("config", format!("{:?}", cfg)).set("history_prefix", o.trace_sample.join(" ")));
        }
        let bad = dom::drain_bad_logs(&[]);
        let w = Json::obj().set("service", svc.as_str()).set("config", format!("{:?}", cfg)).set("replay_args", format!("{} --svc {} --seed {} --shard {} --only-hist {}", if prop == "C08" { "c08r" } else { "c11" }, svc, seed, shard, hi));
        if let Some((rule, msg)) = o.mismatch {
            rep.violation(&rule, format!("{}:rr:{}", prop, rule), msg, w);
        } else if !bad.is_empty() {
            rep.violation("error_logged_inside_contract", format!("{}:rr:error_logged", prop), bad[0].clone(), w);
        }
        let res = d.residue();
        if !res.is_empty() {
            rep.violation("residue", format!("{}:rr:residue", prop), format!("files left after all objects were dropped: {:?}", &res[..res.len().min(6)]), Json::obj().set("config", format!("{:?}", cfg)));
        }
        i += 1;
        if only.is_some() {
            break;
        }
    }
    rep.count("histories", i);
    rep
}

fn grow_campaign(args: &Args) -> Report {
    let seed = args.u64("seed", 1);
    let shard = args.u64("shard", 0);
    let secs = args.u64("secs", 5);
    let svc = args.str("svc", "local");
    let deadline = Instant::now() + Duration::from_secs(secs);
    let only = args.kv.get("only-hist").map(|s| s.parse::<u64>().unwrap());
    let mut rep = Report::new();
    dom::install_log_capture();
    let d = dom::Domain::new(&format!("c15g{}", shard));
    let mut i = 0u64;
    while Instant::now() < deadline {
        let hi = only.unwrap_or(i);
        let mut rng = Rng::derive(&[seed, shard, hi, 1515]);
        let buf = rng.range(1, 3) as usize;
        let cfg = grow::GCfg { strategy: rng.below(5).min(2) as u8 % 3, initial_len: rng.range(1, 64) as usize, buf, borrow: rng.range(1, 3) as usize, hist: rng.below(buf as u64 + 1) as usize, overflow: rng.chance(1, 2), nsub: rng.range(1, 2) as usize };
        let steps = rng.range(20, 120) as usize;
        let o = if svc == "ipc" { grow::run::<iceoryx2::service::ipc::Service>(&d.config, &mut rng, cfg, steps, hi ^ (shard << 40)) } else { grow::run::<iceoryx2::service::local::Service>(&d.config, &mut rng, cfg, steps, hi ^ (shard << 40)) };
        rep.execs += 1;
        for (k, v) in &o.events {
            rep.count(k, *v);
        }
        if o.events.get("growth_while_samples_held").is_some() {
            rep.nontrivial += 1;
            rep.distinct(vkit::fnv_str(&format!("{:?}{:?}", cfg, o.events)));
        }
        if i < 1 {
            rep.sample(Json::obj().set("growth_config", format!("{:?}", cfg)).set("service", svc.as_str()).set("history_prefix", o.trace.iter().take(30).cloned().collect::<Vec<_>>().join(" ")));
        }
        let bad = dom::drain_bad_logs(&[]);
        let w = Json::obj().set("config", format!("{:?}", cfg)).set("replay_args", format!("c15g --svc {} --seed {} --shard {} --only-hist {}", svc, seed, shard, hi));
        if let Some((rule, msg)) = o.mismatch {
            rep.violation(&rule, format!("C15:growth:{}", rule), msg, w);
        } else if !bad.is_empty() {
            rep.violation("error_logged_inside_contract", "C15:growth:error_logged", bad[0].clone(), w);
        }
        let res = d.residue();
        if !res.is_empty() {
            rep.violation("residue", "C15:growth:residue", format!("segments left after all objects were dropped: {:?}", &res[..res.len().min(6)]), Json::obj().set("config", format!("{:?}", cfg)));
        }
        i += 1;
        if only.is_some() {
            break;
        }
    }
    rep
}

fn rr_concurrent(args: &Args) -> Report {
    use vkit::campaign::{campaign, Budget};
    let seed = args.u64("seed", 1);
    let shard = args.u64("shard", 0);
    let b = Budget::from_args(args);
    let mut rep = Report::new();
    dom::install_log_capture();
    let d = dom::Domain::new(&format!("c11c{}", shard));
    let mut i = 0u64;
    let mut tag = 0u64;
    while i < b.max_progs && !b.expired() {
        let pi = b.only_prog.unwrap_or(i);
        let mut rng = Rng::derive(&[seed, shard, pi, 1111]);
        let cfg = rr_conc::RcCfg { servers: rng.range(1, 2) as usize, requests: rng.range(1, 3) as usize, fire_and_forget: rng.chance(1, 2), responses: rng.range(1, 2) as usize };
        let desc = Json::obj().set("concurrent_request_response", format!("{:?}", cfg));
        let replay = format!("c11c --seed {} --shard {} --only-prog {}", seed, shard, pi);
        if i < 1 {
            rep.sample(desc.clone());
        }
        campaign(&mut rep, &mut rng, &b, "C11", &desc, &replay, vkit::fnv_str(&format!("{:?}", cfg)), &mut |m| {
            tag += 1;
            rr_conc::execute(&d.config, cfg, m, tag ^ (shard << 40))
        });
        let _ = dom::drain_bad_logs(&[]);
        i += 1;
        if b.only_prog.is_some() {
            break;
        }
    }
    rep.count("programs", i);
    rep
}

fn ev_campaign(args: &Args) -> Report {
    use vkit::campaign::{campaign, Budget};
    let seed = args.u64("seed", 1);
    let shard = args.u64("shard", 0);
    let b = Budget::from_args(args);
    let ipc = args.str("svc", "local") == "ipc";
    let mut rep = Report::new();
    dom::install_log_capture();
    let d = dom::Domain::new(&format!("c05{}", shard));
    let mut i = 0u64;
    let mut tag = 0u64;
    while i < b.max_progs && !b.expired() {
        let pi = b.only_prog.unwrap_or(i);
        let mut rng = Rng::derive(&[seed, shard, pi, 505]);
        let cfg = ev::ECfg { notifiers: rng.range(1, 3) as usize, rounds: rng.range(2, 4) as usize, ipc, seed: rng.next() };
        let desc = Json::obj().set("event_rounds", format!("{:?}", cfg));
        let replay = format!("c05 --svc {} --seed {} --shard {} --only-prog {}", if ipc { "ipc" } else { "local" }, seed, shard, pi);
        if i < 1 {
            rep.sample(desc.clone());
        }
        campaign(&mut rep, &mut rng, &b, "C05", &desc, &replay, vkit::fnv_str(&format!("{:?}", cfg)), &mut |m| {
            tag += 1;
            ev::execute(&d.config, cfg, m, tag ^ (shard << 40))
        });
        let _ = dom::drain_bad_logs(&[]);
        i += 1;
        if b.only_prog.is_some() {
            break;
        }
    }
    rep.count("programs", i);
    rep
}

fn ws_campaign(args: &Args) -> Report {
    let seed = args.u64("seed", 1);
    let shard = args.u64("shard", 0);
    let secs = args.u64("secs", 5);
    let svc = args.str("svc", "local");
    let deadline = Instant::now() + Duration::from_secs(secs);
    let only = args.kv.get("only-hist").map(|s| s.parse::<u64>().unwrap());
    let mut rep = Report::new();
    dom::install_log_capture();
    let d = dom::Domain::new(&format!("c20{}", shard));
    let mut i = 0u64;
    let mut tag = shard << 32;
    while Instant::now() < deadline {
        let hi = only.unwrap_or(i);
        let mut rng = Rng::derive(&[seed, shard, hi, 2020]);
        let nl = rng.range(1, 4) as usize;
        let ns = rng.range(1, 2).min(nl as u64) as usize;
        let len = rng.range(4, 40) as usize;
        let script: Vec<(u64, u64, u64)> = (0..len).map(|_| (rng.below(10), rng.next() >> 8, rng.next() >> 8)).collect();
        let mut exec = |sc: &[(u64, u64, u64)]| {
            tag += 1;
            if svc == "ipc" { ws::run::<iceoryx2::service::ipc::Service>(&d.config, sc, nl, ns, tag) } else { ws::run::<iceoryx2::service::local::Service>(&d.config, sc, nl, ns, tag) }
        };
        let mut o = exec(&script);
        rep.execs += 1;
        for (k, v) in &o.events {
            rep.count(k, *v);
        }
        if o.events.get("process_with_ready_attachments").is_some() && o.events.get("detach").is_some() {
            rep.nontrivial += 1;
            rep.distinct(vkit::fnv_str(&format!("{}{}{:?}", nl, ns, o.trace)));
        }
        if i < 1 {
            rep.sample(Json::obj().set("service", svc.as_str()).set("listeners", nl).set("services", ns).set("history", o.trace.join(" ")));
        }
        if let Some((rule, _)) = o.mismatch.clone() {
            let mut cur = script.clone();
            let mut chunk = (cur.len() / 2).max(1);
            loop {
                let mut k = 0;
                while k < cur.len() {
                    let mut cand = cur.clone();
                    let end = (k + chunk).min(cand.len());
                    cand.drain(k..end);
                    let oc = exec(&cand);
                    if oc.mismatch.as_ref().map(|m| m.0 == rule).unwrap_or(false) {
                        cur = cand;
                        o = oc;
                    } else {
                        k += chunk;
                    }
                }
                if chunk == 1 {
                    break;
                }
                chunk /= 2;
            }
            let (rule, msg) = o.mismatch.unwrap();
            rep.violation(&rule, format!("C20:{}:{}", svc, rule), msg, Json::obj().set("replay_args", format!("c20 --svc {} --seed {} --shard {} --only-hist {}", svc, seed, shard, hi)));
        }
        let _ = dom::drain_bad_logs(&[]);
        i += 1;
        if only.is_some() {
            break;
        }
    }
    rep.count("histories", i);
    rep
}

fn svc_campaign(args: &Args) -> Report {
    use vkit::campaign::{campaign, Budget};
    let seed = args.u64("seed", 1);
    let shard = args.u64("shard", 0);
    let b = Budget::from_args(args);
    let ipc = args.str("svc", "local") == "ipc";
    let mut rep = Report::new();
    dom::install_log_capture();
    let d = dom::Domain::new(&format!("c06{}", shard));
    // sequential compatibility grids first
    macro_rules! grids {
        ($S:ty) => {{
            let mut all = Vec::new();
            let mut n = 0;
            for (c, bad) in [svcrace::grid::<$S>(&d.config, shard), svcrace::grid_event::<$S>(&d.config, shard), svcrace::grid_reqres::<$S>(&d.config, shard), svcrace::grid_blackboard::<$S>(&d.config, shard)] {
                n += c;
                all.extend(bad);
            }
            (n, all)
        }};
    }
    let (ncases, bad) = if ipc { grids!(iceoryx2::service::ipc_threadsafe::Service) } else { grids!(iceoryx2::service::local_threadsafe::Service) };
    rep.execs += ncases;
    rep.nontrivial += ncases;
    rep.count("compatibility_grid_cases", ncases);
    for (rule, msg) in bad {
        rep.violation(&rule, format!("C06:grid:{}", rule), msg, Json::obj());
    }
    let leftovers = d.residue().into_iter().filter(|f| f.contains("service") || f.contains("dynamic")).collect::<Vec<_>>();
    if !leftovers.is_empty() {
        rep.violation("residue_after_last_user", "C06:grid:residue_after_last_user", format!("after the compatibility grids: {:?}", &leftovers[..leftovers.len().min(5)]), Json::obj());
    }
    let mut i = 0u64;
    let mut tag = shard << 32;
    while i < b.max_progs && !b.expired() {
        let pi = b.only_prog.unwrap_or(i);
        let mut rng = Rng::derive(&[seed, shard, pi, 606]);
        let n = rng.range(2, 4) as usize;
        let mut roles: Vec<svcrace::Role> = (0..n).map(|_| match rng.below(5) { 0 | 1 => svcrace::Role::Create, 2 | 3 => svcrace::Role::Open, _ => svcrace::Role::OpenOrCreate }).collect();
        if !roles.iter().any(|r| *r != svcrace::Role::Open) {
            roles[0] = svcrace::Role::Create;
        }
        let pat = [svcrace::Pat::PubSub, svcrace::Pat::Event, svcrace::Pat::ReqRes, svcrace::Pat::Blackboard][(pi % 4) as usize];
        let cfg = svcrace::RaceCfg { pat, roles };
        let desc = Json::obj().set("pattern", format!("{:?}", pat)).set("racers", format!("{:?}", cfg.roles)).set("service", if ipc { "ipc" } else { "local" });
        let replay = format!("c06 --svc {} --seed {} --shard {} --only-prog {}", if ipc { "ipc" } else { "local" }, seed, shard, pi);
        if i < 1 {
            rep.sample(desc.clone());
        }
        if pi % 3 == 2 {
            // every third program: the creator leaves as last user while 1-3 others are opening
            let openers = rng.range(1, 3) as usize;
            let desc = Json::obj().set("pattern", format!("{:?}", pat)).set("program", "last user drops while others open").set("openers", openers).set("service", if ipc { "ipc" } else { "local" });
            campaign(&mut rep, &mut rng, &b, "C06", &desc, &replay, vkit::fnv_str(&format!("drop{:?}{}", pat, openers)), &mut |m| {
                tag += 1;
                let res = || d.residue().into_iter().filter(|f| f.contains("service") || f.contains("dynamic")).collect::<Vec<_>>();
                if ipc { svcrace::execute_drop_race::<iceoryx2::service::ipc_threadsafe::Service>(&d.config, pat, openers, m, tag, &res) } else { svcrace::execute_drop_race::<iceoryx2::service::local_threadsafe::Service>(&d.config, pat, openers, m, tag, &res) }
            });
            rep.count("drop_race_programs", 1);
            let _ = dom::drain_bad_logs(&[]);
            i += 1;
            if b.only_prog.is_some() {
                break;
            }
            continue;
        }
        campaign(&mut rep, &mut rng, &b, "C06", &desc, &replay, vkit::fnv_str(&format!("{:?}{:?}", cfg.pat, cfg.roles)), &mut |m| {
            tag += 1;
            let res = || d.residue().into_iter().filter(|f| f.contains("service") || f.contains("dynamic")).collect::<Vec<_>>();
            if ipc { svcrace::execute::<iceoryx2::service::ipc_threadsafe::Service>(&d.config, &cfg, m, tag, &res) } else { svcrace::execute::<iceoryx2::service::local_threadsafe::Service>(&d.config, &cfg, m, tag, &res) }
        });
        let _ = dom::drain_bad_logs(&[]);
        i += 1;
        if b.only_prog.is_some() {
            break;
        }
    }
    rep.count("programs", i);
    rep
}

fn ps_concurrent(args: &Args, prop: &str) -> Report {
    use vkit::sched::Mode;
    let seed = args.u64("seed", 1);
    let shard = args.u64("shard", 0);
    let secs = args.u64("secs", 5);
    let deadline = Instant::now() + Duration::from_secs(secs);
    let only = args.kv.get("only-exec").map(|s| s.parse::<u64>().unwrap());
    let mut rep = Report::new();
    dom::install_log_capture();
    let d = dom::Domain::new(&format!("{}c{}", prop.to_lowercase(), shard));
    let mut i = 0u64;
    while Instant::now() < deadline {
        let ei = only.unwrap_or(i);
        let mut rng = Rng::derive(&[seed, shard, ei, 77]);
        let cfg = ps_conc::CCfg::random(&mut rng);
        let mode = match ei % 4 {
            0 => Mode::Off,
            1 => Mode::Random { seed: rng.next(), permille: 20 },
            2 => Mode::Random { seed: rng.next(), permille: 100 },
            _ => Mode::Random { seed: rng.next(), permille: 300 },
        };
        let o = ps_conc::run(&d.config, cfg, &mode, ei ^ (shard << 40));
        rep.execs += 1;
        rep.count("samples_sent", o.sent);
        rep.count("samples_received", o.received);
        rep.count("samples_evicted_or_discarded", o.evicted_or_discarded);
        if o.sig != 0 {
            rep.interleaving(vkit::mix(vkit::fnv_str(&format!("{:?}", cfg)), o.sig));
        }
        if o.concurrent {
            rep.nontrivial += 1;
            rep.distinct(vkit::mix(vkit::fnv_str(&format!("{:?}", cfg)), o.observed));
        }
        if i < 1 {
            rep.sample(Json::obj().set("concurrent_config", format!("{:?}", cfg)).set("mode", mode.describe()));
        }
        for (rule, msg) in o.violations {
            let w = Json::obj().set("config", format!("{:?}", cfg)).set("mode", mode.describe()).set("replay_args", format!("{}c --seed {} --shard {} --only-exec {}", prop.to_lowercase(), seed, shard, ei));
            rep.violation(&rule, format!("{}:psc:{}", prop, rule), msg, w);
        }
        let _ = dom::drain_bad_logs(&[]);
        i += 1;
        if only.is_some() && i >= 20 {
            break;
        }
    }
    rep
}

fn limits_table(args: &Args) -> Report {
    let shard = args.u64("shard", 0);
    let mut rep = Report::new();
    dom::install_log_capture();
    for (svc, which) in [("local", 0), ("ipc", 1)] {
        let d = dom::Domain::new(&format!("c08l{}{}", shard, which));
        let (cases, bad) = if which == 0 { limits::table::<iceoryx2::service::local::Service>(&d.config, shard) } else { limits::table::<iceoryx2::service::ipc::Service>(&d.config, shard) };
        rep.execs += cases;
        rep.nontrivial += cases;
        for c in 0..cases {
            rep.distinct(vkit::mix(vkit::fnv_str(svc), c));
        }
        rep.count("limit_table_cases", cases);
        for (rule, msg) in bad {
            rep.violation(&rule, format!("C08:limits:{}", rule), format!("{} service: {}", svc, msg), Json::obj().set("replay_args", "c08l"));
        }
        let rest: Vec<String> = d.residue();
        if !rest.is_empty() {
            rep.violation("residue", "C08:limits:residue", format!("{} service: after the table {:?}", svc, &rest[..rest.len().min(4)]), Json::obj());
        }
        let _ = dom::drain_bad_logs(&[]);
    }
    rep.sample(Json::obj().set("limits", "max_publishers, max_subscribers, max_notifiers, max_listeners, max_clients, max_servers, max_readers, single writer, max_nodes per pattern").set("values", "1..=3").set("services", "local, ipc"));
    rep
}

fn bb_campaign(args: &Args) -> Report {
    use vkit::campaign::{campaign, Budget};
    let seed = args.u64("seed", 1);
    let shard = args.u64("shard", 0);
    let b = Budget::from_args(args);
    let ipc = args.str("svc", "local") == "ipc";
    let mut rep = Report::new();
    dom::install_log_capture();
    let d = dom::Domain::new(&format!("c12p{}", shard));
    let mut i = 0u64;
    let mut tag = shard << 32;
    while i < b.max_progs && !b.expired() {
        let pi = b.only_prog.unwrap_or(i);
        let mut rng = Rng::derive(&[seed, shard, pi, 1212]);
        let prog = bb::Prog {
            updates: (0..rng.range(2, 8)).map(|_| (rng.below(3) as u8, rng.below(4) as u8)).collect(),
            readers: rng.range(1, 2) as usize,
            reads: rng.range(3, 12) as usize,
            contender_tries: rng.range(1, 4) as usize,
        };
        let desc = Json::obj().set("updates(key,style)", format!("{:?}", prog.updates)).set("readers", prog.readers).set("reads", prog.reads).set("service", if ipc { "ipc" } else { "local" });
        let replay = format!("c12p --svc {} --seed {} --shard {} --only-prog {}", if ipc { "ipc" } else { "local" }, seed, shard, pi);
        if i < 1 {
            rep.sample(desc.clone());
        }
        campaign(&mut rep, &mut rng, &b, "C12", &desc, &replay, vkit::fnv_str(&format!("{:?}", prog)), &mut |m| {
            tag += 1;
            if ipc { bb::execute::<iceoryx2::service::ipc_threadsafe::Service>(&d.config, &prog, m, tag) } else { bb::execute::<iceoryx2::service::local_threadsafe::Service>(&d.config, &prog, m, tag) }
        });
        let _ = dom::drain_bad_logs(&[]);
        i += 1;
        if b.only_prog.is_some() {
            break;
        }
    }
    rep.count("programs", i);
    rep
}

fn svc_proc_campaign(args: &Args) -> Report {
    let seed = args.u64("seed", 1);
    let shard = args.u64("shard", 0);
    let secs = args.u64("secs", 10);
    let only = args.kv.get("only-exec").map(|s| s.parse::<u64>().unwrap());
    let deadline = Instant::now() + Duration::from_secs(secs);
    let exe = std::env::current_exe().unwrap();
    let mut rep = Report::new();
    dom::install_log_capture();
    let d = dom::Domain::new(&format!("c06p{}", shard));
    let mut i = 0u64;
    while Instant::now() < deadline {
        let ei = only.unwrap_or(i);
        let mut rng = Rng::derive(&[seed, shard, ei, 6060]);
        let n = rng.range(2, 4) as usize;
        let mut roles: Vec<svcrace::Role> = (0..n).map(|_| match rng.below(5) { 0 | 1 => svcrace::Role::Create, 2 => svcrace::Role::Open, _ => svcrace::Role::OpenOrCreate }).collect();
        if !roles.iter().any(|r| *r != svcrace::Role::Open) {
            roles[0] = svcrace::Role::Create;
        }
        let pat = [svcrace::Pat::PubSub, svcrace::Pat::Event, svcrace::Pat::ReqRes, svcrace::Pat::Blackboard][(ei % 4) as usize];
        let cfg = svcrace::RaceCfg { pat, roles };
        let (notes, nontrivial, obs, inconclusive) = svcrace::proc_race(&exe, &d, &cfg, (shard << 32) + ei, vkit::mix(seed, ei));
        rep.execs += 1;
        rep.count("process_races", 1);
        if let Some(why) = inconclusive {
            rep.inconclusive += 1;
            rep.notes.push(why);
        } else {
            if nontrivial {
                rep.nontrivial += 1;
                rep.distinct(vkit::mix(vkit::fnv_str(&format!("{:?}{:?}", cfg.pat, cfg.roles)), obs));
            }
            if i < 2 {
                rep.sample(Json::obj().set("pattern", format!("{:?}", pat)).set("racer_processes", format!("{:?}", cfg.roles)));
            }
            for (rule, msg) in notes {
                rep.violation(&rule, format!("C06:procrace:{}", rule), format!("{:?} {:?}: {}", cfg.pat, cfg.roles, msg), Json::obj().set("replay_args", format!("c06p --seed {} --shard {} --only-exec {}", seed, shard, ei)));
            }
        }
        let _ = dom::drain_bad_logs(&[]);
        i += 1;
        if only.is_some() && i >= 10 {
            break;
        }
    }
    rep
}

fn main() {
    let args = Args::parse();
    if args.sub == "c06child" {
        let a: Vec<String> = std::env::args().skip(2).collect();
        svcrace::proc_child(&a);
        return;
    }
    let rep = match args.sub.as_str() {
        "c01" => ps_campaign(&args, "C01"),
        "c02" => ps_campaign(&args, "C02"),
        "c08" => ps_campaign(&args, "C08"),
        "c01c" => ps_concurrent(&args, "C01"),
        "c11" => rr_campaign(&args, "C11"),
        "c15g" => grow_campaign(&args),
        "c11c" => rr_concurrent(&args),
        "c05" => ev_campaign(&args),
        "c20" => ws_campaign(&args),
        "c06" => svc_campaign(&args),
        "c06p" => svc_proc_campaign(&args),
        "c12p" => bb_campaign(&args),
        "c08l" => limits_table(&args),
        "c17" => if args.str("svc", "local") == "ipc" { drops::campaign::<iceoryx2::service::ipc::Service>(&args, "ipc") } else { drops::campaign::<iceoryx2::service::local::Service>(&args, "local") },
        "c08r" => rr_campaign(&args, "C08"),
        "c02r" => rr_campaign(&args, "C02"),
        "warmup" => return,
        other => {
            eprintln!("unknown sub command {:?}", other);
            std::process::exit(2);
        }
    };
    rep.emit();
}
