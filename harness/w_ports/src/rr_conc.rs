//! C11 (concurrent) — a client thread sends requests while server threads poll, answer and the client
//! collects the responses; the request buffers are large enough that nothing may be discarded.
//! Executed under the stall sweep: every hooked atomic operation of every thread is a stall point.
use crate::ps::{check_payload, payload, P};
use iceoryx2::port::ReceiveError;
use iceoryx2::prelude::*;
use std::sync::atomic::{AtomicBool, Ordering::Relaxed};
use std::sync::Mutex;
use vkit::campaign::ExecResult;
use vkit::sched::{self, Mode};

type S = iceoryx2::service::local_threadsafe::Service;

#[derive(Clone, Copy, Debug)]
pub struct RcCfg {
    pub servers: usize,
    pub requests: usize,
    pub fire_and_forget: bool,
    pub responses: usize,
}

pub fn execute(config: &iceoryx2::config::Config, cfg: RcCfg, mode: &Mode, tag: u64) -> ExecResult {
    let node = NodeBuilder::new().config(config).create::<S>().unwrap();
    let name = format!("rrc_{}_{}", std::process::id(), tag);
    let svc = node
        .service_builder(&name.as_str().try_into().unwrap())
        .request_response::<P, P>()
        .max_clients(1)
        .max_servers(cfg.servers)
        .max_active_requests_per_client(cfg.requests)
        .max_response_buffer_size(cfg.responses)
        .max_borrowed_responses_per_pending_response(cfg.responses)
        .enable_safe_overflow_for_requests(false)
        .enable_safe_overflow_for_responses(false)
        .enable_fire_and_forget_requests(cfg.fire_and_forget)
        .create()
        .unwrap();
    let servers: Vec<_> = (0..cfg.servers).map(|_| svc.server_builder().backpressure_strategy(BackpressureStrategy::DiscardData).create().unwrap()).collect();
    let client = svc.client_builder().backpressure_strategy(BackpressureStrategy::DiscardData).create().unwrap();
    let sending_done = AtomicBool::new(false);
    let servers_done = std::sync::atomic::AtomicUsize::new(0);
    let gave_up = AtomicBool::new(false);
    let bad: Mutex<Vec<(String, String)>> = Mutex::new(Vec::new());
    let received: Mutex<Vec<Vec<u64>>> = Mutex::new(vec![Vec::new(); cfg.servers]);
    let got_responses: Mutex<Vec<(u64, Vec<u64>)>> = Mutex::new(Vec::new());
    let mut bodies: Vec<Box<dyn FnOnce() + Send>> = Vec::new();
    {
        let (client, bad, sending_done, got_responses, servers_done, gave_up) = (&client, &bad, &sending_done, &got_responses, &servers_done, &gave_up);
        bodies.push(Box::new(move || {
            let mut pend = Vec::new();
            for n in 1..=cfg.requests as u64 {
                match client.send_copy(payload(n)) {
                    Ok(p) => {
                        if p.number_of_server_connections() != cfg.servers {
                            bad.lock().unwrap().push(("request_not_delivered".into(), format!("request {} reached {} of {} servers although every buffer has room", n, p.number_of_server_connections(), cfg.servers)));
                        }
                        pend.push((n, p));
                    }
                    Err(e) => bad.lock().unwrap().push(("request_send_failed_inside_limits".into(), format!("request {}: {:?}", n, e))),
                }
            }
            sending_done.store(true, Relaxed);
            // collect responses until every server has answered every request (bounded by logical progress: servers are finite)
            let expected = cfg.servers * cfg.responses;
            let mut out: Vec<(u64, Vec<u64>)> = pend.iter().map(|(n, _)| (*n, Vec::new())).collect();
            // the pending responses stay alive until every server thread has finished (logical hand-shake, no
            // patience counter: a descheduled server is not a disconnect); the wall clock only guards the harness
            let t0 = std::time::Instant::now();
            let mut last_round = false;
            loop {
                let mut progress = false;
                for (i, (n, p)) in pend.iter().enumerate() {
                    loop {
                        match p.receive() {
                            Ok(Some(r)) => {
                                match check_payload(r.payload()) {
                                    Some(id) => {
                                        if id >> 32 != *n {
                                            bad.lock().unwrap().push(("response_to_wrong_request".into(), format!("pending response of request {} received a response answering request {}", n, id >> 32)));
                                        }
                                        out[i].1.push(id & 0xffff_ffff);
                                    }
                                    None => bad.lock().unwrap().push(("payload_corrupted".into(), format!("{:?}", r.payload()))),
                                }
                                progress = true;
                            }
                            Ok(None) => break,
                            Err(ReceiveError::ExceedsMaxBorrows) => break,
                            Err(e) => {
                                bad.lock().unwrap().push(("receive_failed".into(), format!("{:?}", e)));
                                break;
                            }
                        }
                    }
                }
                let _ = progress;
                if out.iter().all(|o| o.1.len() >= expected) || last_round {
                    break;
                }
                if servers_done.load(Relaxed) >= cfg.servers {
                    last_round = true; // one more drain after the last server left
                }
                if t0.elapsed().as_secs() > 30 {
                    gave_up.store(true, Relaxed);
                    break;
                }
                std::thread::yield_now();
            }
            *got_responses.lock().unwrap() = out;
            drop(pend);
        }));
    }
    for (si, server) in servers.iter().enumerate() {
        let (bad, sending_done, received, servers_done) = (&bad, &sending_done, &received, &servers_done);
        bodies.push(Box::new(move || {
            let mut mine = Vec::new();
            let mut idle_after_done = 0;
            loop {
                let done = sending_done.load(Relaxed);
                match server.receive() {
                    Ok(Some(a)) => {
                        match check_payload(a.payload()) {
                            Some(n) => {
                                mine.push(n);
                                if !a.is_connected() {
                                    bad.lock().unwrap().push(("disconnect_not_observed".into(), format!("server {} received request {} whose pending response is alive but is_connected() is false", si, n)));
                                }
                                for k in 1..=cfg.responses as u64 {
                                    let id = (n << 32) | ((si as u64) << 24) | k;
                                    if let Err(e) = a.send_copy(payload(id)) {
                                        bad.lock().unwrap().push(("response_send_failed".into(), format!("{:?}", e)));
                                    }
                                }
                            }
                            None => bad.lock().unwrap().push(("payload_corrupted".into(), format!("{:?}", a.payload()))),
                        }
                        idle_after_done = 0;
                    }
                    Ok(None) => {
                        if done {
                            idle_after_done += 1;
                            if idle_after_done > 3 {
                                break;
                            }
                        }
                        std::thread::yield_now();
                    }
                    Err(ReceiveError::ExceedsMaxBorrows) => {}
                    Err(e) => {
                        bad.lock().unwrap().push(("receive_failed".into(), format!("{:?}", e)));
                        break;
                    }
                }
            }
            received.lock().unwrap()[si] = mine;
            servers_done.fetch_add(1, Relaxed);
        }));
    }
    let stats = sched::run_threads(mode, bodies);
    let mut viol: Vec<(String, String, String)> = bad.into_inner().unwrap().into_iter().map(|(r, m)| (r.clone(), format!("rrc:{}", r), m)).collect();
    let mut v = |rule: &str, msg: String| viol.push((rule.to_string(), format!("rrc:{}", rule), msg));
    let received = received.into_inner().unwrap();
    let responses = got_responses.into_inner().unwrap();
    let all: Vec<u64> = (1..=cfg.requests as u64).collect();
    for (si, r) in received.iter().enumerate() {
        let mut s = r.clone();
        s.sort();
        s.dedup();
        if s.len() != r.len() {
            v("request_received_twice", format!("server {} received {:?}", si, r));
        }
        if r.windows(2).any(|w| w[1] <= w[0]) {
            v("request_order", format!("server {} received requests out of order: {:?}", si, r));
        }
        if s != all {
            v("request_lost", format!("server {} received requests {:?}, the client sent {:?} with live pending responses and room in every buffer", si, r, all));
        }
    }
    for (n, ks) in &responses {
        for si in 0..cfg.servers as u64 {
            let mine: Vec<u64> = ks.iter().filter(|k| (*k >> 24) == si).map(|k| k & 0xff_ffff).collect();
            let exp: Vec<u64> = (1..=cfg.responses as u64).collect();
            if mine != exp && received.get(si as usize).map(|r| r.contains(n)).unwrap_or(false) {
                v("response_lost_or_reordered", format!("request {}: responses of server {} arrived as {:?}, sent {:?} into a buffer with room", n, si, mine, exp));
            }
        }
    }
    let mut obs = 0u64;
    for r in &received {
        for x in r {
            obs = vkit::mix(obs, *x);
        }
    }
    let gu = gave_up.load(Relaxed);
    if gu {
        viol.clear(); // the harness watchdog fired: nothing observed in this execution is a verdict
    }
    ExecResult { stats, violations: viol, nontrivial: !gu, observed: obs, inconclusive: gu }
}
