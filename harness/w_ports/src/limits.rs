//! C08 — limit table: for every port/node limit of the four messaging patterns and every value 1..=3:
//! exactly `limit` objects can be created, the next one is refused with the specific documented error,
//! the refusal has no side effect (counts unchanged, the existing objects still work) and creation
//! succeeds again as soon as one object is dropped.
use iceoryx2::port::listener::ListenerCreateError;
use iceoryx2::port::notifier::NotifierCreateError;
use iceoryx2::port::publisher::PublisherCreateError;
use iceoryx2::port::reader::ReaderCreateError;
use iceoryx2::port::subscriber::SubscriberCreateError;
use iceoryx2::port::writer::WriterCreateError;
use iceoryx2::prelude::*;
use iceoryx2::service::builder::event::EventOpenError;
use iceoryx2::service::builder::publish_subscribe::PublishSubscribeOpenError;
use iceoryx2::service::builder::request_response::RequestResponseOpenError;
use iceoryx2::service::port_factory::client::ClientCreateError;
use iceoryx2::service::port_factory::server::ServerCreateError;
use iceoryx2::service::Service;

pub type Bad = Vec<(String, String)>;

macro_rules! port_limit {
    ($bad:ident, $cases:ident, $what:expr, $limit:expr, $create:expr, $err:pat, $count:expr, $works:expr) => {{
        $cases += 1;
        let mut held = Vec::new();
        for i in 0..$limit {
            match $create {
                Ok(p) => held.push(p),
                Err(e) => $bad.push(("creation_inside_limit_refused".to_string(), format!("{}: object {} of {} refused with {:?}", $what, i + 1, $limit, e))),
            }
        }
        let before = $count;
        for _ in 0..2 {
            match $create {
                Err($err) => {}
                Ok(_) => $bad.push(("limit_not_enforced".to_string(), format!("{}: object {} was created although the limit is {}", $what, $limit + 1, $limit))),
                Err(e) => $bad.push(("wrong_error_beyond_limit".to_string(), format!("{}: refusal beyond the limit {} came as {:?}", $what, $limit, e))),
            }
        }
        if $count != before {
            $bad.push(("refusal_has_side_effect".to_string(), format!("{}: the count changed from {} to {} through refused creations", $what, before, $count)));
        }
        if let Some(why) = $works(&held) {
            $bad.push(("refusal_has_side_effect".to_string(), format!("{}: after refused creations {}", $what, why)));
        }
        // freeing one unit makes room for exactly one
        held.pop();
        match $create {
            Ok(p) => held.push(p),
            Err(e) => $bad.push(("no_recovery_after_release".to_string(), format!("{}: after dropping one of {} objects the next creation failed with {:?}", $what, $limit, e))),
        }
        match $create {
            Err($err) => {}
            other => $bad.push(("limit_not_enforced".to_string(), format!("{}: after refilling, one more creation gave {:?}", $what, other.map(|_| "Ok")))),
        }
        drop(held);
        if $count != 0 {
            $bad.push(("release_not_exact".to_string(), format!("{}: {} objects counted after all were dropped", $what, $count)));
        }
    }};
}

pub fn table<S: Service>(config: &iceoryx2::config::Config, tag: u64) -> (u64, Bad) {
    let mut bad: Bad = Vec::new();
    let mut cases = 0u64;
    let node = NodeBuilder::new().config(config).create::<S>().unwrap();
    for limit in 1..=3usize {
        // ---------------- publish-subscribe
        {
            let n: ServiceName = format!("lim_ps_{}_{}_{}", std::process::id(), tag, limit).as_str().try_into().unwrap();
            let svc = node.service_builder(&n).publish_subscribe::<u64>().max_publishers(limit).max_subscribers(limit).max_nodes(limit).subscriber_max_buffer_size(2).create().unwrap();
            port_limit!(bad, cases, format!("publish-subscribe max_publishers={}", limit), limit, svc.publisher_builder().create(), PublisherCreateError::ExceedsMaxSupportedPublishers, svc.dynamic_config().number_of_publishers(), |held: &Vec<iceoryx2::port::publisher::Publisher<S, u64, ()>>| {
                let s = svc.subscriber_builder().create().unwrap();
                for (i, p) in held.iter().enumerate() {
                    if p.send_copy(i as u64) != Ok(1) || s.receive().ok().flatten().map(|x| *x) != Some(i as u64) {
                        return Some(format!("publisher {} no longer delivers", i));
                    }
                }
                None
            });
            port_limit!(bad, cases, format!("publish-subscribe max_subscribers={}", limit), limit, svc.subscriber_builder().create(), SubscriberCreateError::ExceedsMaxSupportedSubscribers, svc.dynamic_config().number_of_subscribers(), |held: &Vec<iceoryx2::port::subscriber::Subscriber<S, u64, ()>>| {
                let p = svc.publisher_builder().create().unwrap();
                if p.send_copy(5) != Ok(held.len()) {
                    return Some("a send does not reach all subscribers".to_string());
                }
                for s in held {
                    if s.receive().ok().flatten().map(|x| *x) != Some(5) {
                        return Some("a subscriber no longer receives".to_string());
                    }
                }
                None
            });
            // nodes: the creator's node counts as one
            cases += 1;
            let mut others = Vec::new();
            for i in 1..limit {
                let nd = NodeBuilder::new().config(config).create::<S>().unwrap();
                match nd.service_builder(&n).publish_subscribe::<u64>().open() {
                    Ok(h) => others.push((nd, h)),
                    Err(e) => bad.push(("creation_inside_limit_refused".into(), format!("publish-subscribe max_nodes={}: node {} refused with {:?}", limit, i + 1, e))),
                }
            }
            let extra = NodeBuilder::new().config(config).create::<S>().unwrap();
            match extra.service_builder(&n).publish_subscribe::<u64>().open() {
                Err(PublishSubscribeOpenError::ExceedsMaxNumberOfNodes) => {}
                other => bad.push(("limit_not_enforced".into(), format!("publish-subscribe max_nodes={}: node {} got {:?}", limit, limit + 1, other.map(|_| "Ok")))),
            }
            if svc.dynamic_config().number_of_publishers() != 0 {
                bad.push(("refusal_has_side_effect".into(), "refused node changed the port count".into()));
            }
            if let Some(x) = others.pop() {
                drop(x);
                if let Err(e) = extra.service_builder(&n).publish_subscribe::<u64>().open() {
                    bad.push(("no_recovery_after_release".into(), format!("publish-subscribe max_nodes={}: after one node left, the open failed with {:?}", limit, e)));
                }
            }
        }
        // ---------------- event
        {
            let n: ServiceName = format!("lim_ev_{}_{}_{}", std::process::id(), tag, limit).as_str().try_into().unwrap();
            let svc = node.service_builder(&n).event().max_notifiers(limit).max_listeners(limit).max_nodes(limit).create().unwrap();
            port_limit!(bad, cases, format!("event max_notifiers={}", limit), limit, svc.notifier_builder().create(), NotifierCreateError::ExceedsMaxSupportedNotifiers, svc.dynamic_config().number_of_notifiers(), |held: &Vec<iceoryx2::port::notifier::Notifier<S>>| {
                let l = svc.listener_builder().create().unwrap();
                for (i, nt) in held.iter().enumerate() {
                    let mut got = Vec::new();
                    if nt.notify_with_custom_event_id(EventId::new(i + 1)).is_err() || l.try_wait(|a| got.push(a.id.as_value())).is_err() || !got.contains(&(i + 1)) {
                        return Some(format!("notifier {} no longer reaches the listener", i));
                    }
                }
                None
            });
            port_limit!(bad, cases, format!("event max_listeners={}", limit), limit, svc.listener_builder().create(), ListenerCreateError::ExceedsMaxSupportedListeners, svc.dynamic_config().number_of_listeners(), |held: &Vec<iceoryx2::port::listener::Listener<S>>| {
                let nt = svc.notifier_builder().create().unwrap();
                if nt.notify_with_custom_event_id(EventId::new(2)).is_err() {
                    return Some("notify fails".to_string());
                }
                for l in held {
                    let mut got = Vec::new();
                    let _ = l.try_wait(|a| got.push(a.id.as_value()));
                    if !got.contains(&2) {
                        return Some("a listener no longer receives".to_string());
                    }
                }
                None
            });
            cases += 1;
            let mut others = Vec::new();
            for _ in 1..limit {
                let nd = NodeBuilder::new().config(config).create::<S>().unwrap();
                if let Ok(h) = nd.service_builder(&n).event().open() {
                    others.push((nd, h));
                }
            }
            let extra = NodeBuilder::new().config(config).create::<S>().unwrap();
            match extra.service_builder(&n).event().open() {
                Err(EventOpenError::ExceedsMaxNumberOfNodes) => {}
                other => bad.push(("limit_not_enforced".into(), format!("event max_nodes={}: node {} got {:?}", limit, limit + 1, other.map(|_| "Ok")))),
            }
        }
        // ---------------- request-response
        {
            let n: ServiceName = format!("lim_rr_{}_{}_{}", std::process::id(), tag, limit).as_str().try_into().unwrap();
            let svc = node.service_builder(&n).request_response::<u64, u64>().max_clients(limit).max_servers(limit).max_nodes(limit).create().unwrap();
            port_limit!(bad, cases, format!("request-response max_clients={}", limit), limit, svc.client_builder().create(), ClientCreateError::ExceedsMaxSupportedClients, svc.dynamic_config().number_of_clients(), |held: &Vec<iceoryx2::port::client::Client<S, u64, (), u64, ()>>| {
                let s = svc.server_builder().create().unwrap();
                for (i, c) in held.iter().enumerate() {
                    let p = c.send_copy(i as u64);
                    let a = s.receive().ok().flatten();
                    match (p, a) {
                        (Ok(p), Some(a)) if *a == i as u64 => {
                            if a.send_copy(9).is_err() || p.receive().ok().flatten().map(|r| *r) != Some(9) {
                                return Some(format!("client {} gets no response", i));
                            }
                        }
                        _ => return Some(format!("client {} no longer reaches the server", i)),
                    }
                }
                None
            });
            port_limit!(bad, cases, format!("request-response max_servers={}", limit), limit, svc.server_builder().create(), ServerCreateError::ExceedsMaxSupportedServers, svc.dynamic_config().number_of_servers(), |held: &Vec<iceoryx2::port::server::Server<S, u64, (), u64, ()>>| {
                let c = svc.client_builder().create().unwrap();
                let _p = match c.send_copy(3) {
                    Ok(p) => p,
                    Err(e) => return Some(format!("send fails with {:?}", e)),
                };
                for s in held {
                    if s.receive().ok().flatten().map(|a| *a) != Some(3) {
                        return Some("a server no longer receives".to_string());
                    }
                }
                None
            });
            cases += 1;
            let mut others = Vec::new();
            for _ in 1..limit {
                let nd = NodeBuilder::new().config(config).create::<S>().unwrap();
                if let Ok(h) = nd.service_builder(&n).request_response::<u64, u64>().open() {
                    others.push((nd, h));
                }
            }
            let extra = NodeBuilder::new().config(config).create::<S>().unwrap();
            match extra.service_builder(&n).request_response::<u64, u64>().open() {
                Err(RequestResponseOpenError::ExceedsMaxNumberOfNodes) => {}
                other => bad.push(("limit_not_enforced".into(), format!("request-response max_nodes={}: node {} got {:?}", limit, limit + 1, other.map(|_| "Ok")))),
            }
        }
        // ---------------- blackboard
        {
            let n: ServiceName = format!("lim_bb_{}_{}_{}", std::process::id(), tag, limit).as_str().try_into().unwrap();
            let svc = node.service_builder(&n).blackboard_creator::<u64>().max_readers(limit).max_nodes(limit).add::<u64>(1, 7).create().unwrap();
            port_limit!(bad, cases, format!("blackboard max_readers={}", limit), limit, svc.reader_builder().create(), ReaderCreateError::ExceedsMaxSupportedReaders, svc.dynamic_config().number_of_readers(), |held: &Vec<iceoryx2::port::reader::Reader<S, u64>>| {
                for r in held {
                    match r.entry::<u64>(&1) {
                        Ok(h) if *h.get() == 7 => {}
                        _ => return Some("a reader no longer reads the entry".to_string()),
                    }
                }
                None
            });
            let one = 1usize;
            port_limit!(bad, cases, "blackboard single writer".to_string(), one, svc.writer_builder().create(), WriterCreateError::ExceedsMaxSupportedWriters, svc.dynamic_config().number_of_writers(), |held: &Vec<iceoryx2::port::writer::Writer<S, u64>>| {
                match held[0].entry::<u64>(&1) {
                    Ok(h) => {
                        h.update_with_copy(7);
                        None
                    }
                    Err(e) => Some(format!("the writer cannot get its entry handle: {:?}", e)),
                }
            });
        }
    }
    (cases, bad)
}
