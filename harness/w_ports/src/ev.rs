//! C05 — events: no lost wake-up, no phantom event.
//!
//! Short rounds: notifier threads fire a burst of 1-2 ids and park at a barrier while the listener
//! waits concurrently; at the end of every round (all notifiers parked between notify calls) the
//! harness knows whether something is still undelivered and, if so, probes: a `timed_wait(1 s)` must
//! hand out the pending ids and must not have slept through (>= 0.9 s = it slept although an
//! undelivered notification existed and nobody was in flight).
//! Rules over the notify/wait log: P1 no phantom id, P2 delivered <= started on every prefix,
//! P3 counting conservation at quiescence (every successful notify of an id is followed by a delivery
//! of that id), P4 the quiescent wake-up probe.
use iceoryx2::prelude::*;
use std::sync::atomic::{AtomicU64, Ordering::Relaxed};
use std::sync::{Barrier, Mutex};
use std::time::Duration;
use vkit::campaign::ExecResult;
use vkit::sched::{self, Mode};
use vkit::ts;

#[derive(Clone, Copy, Debug)]
pub struct ECfg {
    pub notifiers: usize,
    pub rounds: usize,
    pub ipc: bool,
    pub seed: u64,
}

#[derive(Clone, Debug)]
enum Ev {
    Notify { id: usize, call: u64, ret: u64, ok: bool },
    Wait { kind: u8, call: u64, ret: u64, got: Vec<(usize, u64)> },
}

fn next(s: &mut u64) -> u64 {
    *s = s.wrapping_add(0x9E3779B97F4A7C15);
    let mut z = *s;
    z = (z ^ (z >> 30)).wrapping_mul(0xBF58476D1CE4E5B9);
    z = (z ^ (z >> 27)).wrapping_mul(0x94D049BB133111EB);
    z ^ (z >> 31)
}

static RQ_DELAY: Mutex<Vec<(u64, u64)>> = Mutex::new(Vec::new());

/// cumulative time the calling thread waited on a run queue (second field of /proc/thread-self/schedstat)
fn runqueue_wait_ns() -> u64 {
    std::fs::read_to_string("/proc/thread-self/schedstat").ok().and_then(|s| s.split_whitespace().nth(1).and_then(|x| x.parse().ok())).unwrap_or(0)
}

fn run_generic<S: iceoryx2::service::Service>(config: &iceoryx2::config::Config, cfg: ECfg, mode: &Mode, tag: u64) -> ExecResult {
    let name = format!("ev_{}_{}", std::process::id(), tag);
    let log: Mutex<Vec<Ev>> = Mutex::new(Vec::new());
    let done = AtomicU64::new(0);
    let oks = AtomicU64::new(0);
    let bar = Barrier::new(cfg.notifiers + 1);
    let ready = Barrier::new(cfg.notifiers + 1);
    let probes = AtomicU64::new(0);
    let mut bodies: Vec<Box<dyn FnOnce() + Send>> = Vec::new();
    {
        let (log, done, oks, bar, ready, name, probes) = (&log, &done, &oks, &bar, &ready, name.clone(), &probes);
        bodies.push(Box::new(move || {
            let mut rs = cfg.seed ^ 0xABCDEF;
            let node = NodeBuilder::new().config(config).create::<S>().unwrap();
            let ev = node.service_builder(&name.as_str().try_into().unwrap()).event().event_id_max_value(3).max_notifiers(4).max_nodes(8).open_or_create().unwrap();
            let l = ev.listener_builder().create().unwrap();
            ready.wait();
            let mut mine: Vec<Ev> = Vec::new();
            let mut delivered_total = 0i64;
            let do_wait = |kind: u8, mine: &mut Vec<Ev>, delivered_total: &mut i64| {
                let rq0 = runqueue_wait_ns();
                let call = ts::now();
                let mut got = Vec::new();
                let r = match kind {
                    0 => l.try_wait(|a| got.push((a.id.as_value(), a.count))),
                    1 => l.timed_wait(|a| got.push((a.id.as_value(), a.count)), Duration::from_micros(300)),
                    2 => l.timed_wait(|a| got.push((a.id.as_value(), a.count)), Duration::from_millis(3)),
                    _ => l.timed_wait(|a| got.push((a.id.as_value(), a.count)), Duration::from_secs(1)),
                };
                let _ = r;
                *delivered_total += got.iter().map(|x| x.1 as i64).sum::<i64>();
                let ret = ts::now();
                if kind == 9 {
                    // time this thread spent runnable-but-not-running during the probe: load, not sleep
                    RQ_DELAY.lock().unwrap().push((call, runqueue_wait_ns().saturating_sub(rq0) / 1_000_000));
                }
                mine.push(Ev::Wait { kind, call, ret, got });
            };
            for _round in 0..cfg.rounds {
                bar.wait();
                while done.load(Relaxed) < cfg.notifiers as u64 {
                    let k = (next(&mut rs) % 3) as u8;
                    do_wait(k, &mut mine, &mut delivered_total);
                }
                // quiescent: every notifier has returned and is parked
                let pending = oks.load(Relaxed) as i64 - delivered_total;
                if pending > 0 {
                    probes.fetch_add(1, Relaxed);
                    do_wait(9, &mut mine, &mut delivered_total);
                }
                do_wait(0, &mut mine, &mut delivered_total);
                done.store(0, Relaxed);
                bar.wait();
            }
            log.lock().unwrap().extend(mine);
        }));
    }
    for t in 0..cfg.notifiers {
        let (log, done, oks, bar, ready, name) = (&log, &done, &oks, &bar, &ready, name.clone());
        bodies.push(Box::new(move || {
            let mut rs = cfg.seed.wrapping_mul(31).wrapping_add(t as u64);
            let node = NodeBuilder::new().config(config).create::<S>().unwrap();
            let ev = node.service_builder(&name.as_str().try_into().unwrap()).event().event_id_max_value(3).max_notifiers(4).max_nodes(8).open_or_create().unwrap();
            let n = ev.notifier_builder().create().unwrap();
            ready.wait();
            let mut mine = Vec::new();
            for _round in 0..cfg.rounds {
                bar.wait();
                let burst = 1 + next(&mut rs) % 2;
                for _ in 0..burst {
                    let id = (next(&mut rs) % 3) as usize;
                    let call = ts::now();
                    let r = n.notify_with_custom_event_id(EventId::new(id));
                    if r.is_ok() {
                        oks.fetch_add(1, Relaxed);
                    }
                    mine.push(Ev::Notify { id, call, ret: ts::now(), ok: r.is_ok() });
                }
                done.fetch_add(1, Relaxed);
                bar.wait();
            }
            log.lock().unwrap().extend(mine);
        }));
    }
    let stats = sched::run_threads(mode, bodies);
    let log = log.into_inner().unwrap();
    let mut viol: Vec<(String, String, String)> = Vec::new();
    let variant = if cfg.ipc { "ipc" } else { "local" };
    let mut v = |rule: &str, msg: String| viol.push((rule.to_string(), format!("event:{}:{}", variant, rule), msg));
    let mut started = [0u64; 4];
    let mut okc = [0u64; 4];
    let mut delivered = [0u64; 4];
    let mut notifies = Vec::new();
    let mut waits = Vec::new();
    for e in &log {
        match e {
            Ev::Notify { id, call, ret, ok } => {
                started[*id] += 1;
                if *ok {
                    okc[*id] += 1;
                }
                notifies.push((*id, *call, *ret, *ok));
            }
            Ev::Wait { kind, call, ret, got } => {
                waits.push((*kind, *call, *ret, got.clone()));
                for (id, c) in got {
                    if *id > 3 {
                        v("phantom_event", format!("listener reported id {} which was never notified", id));
                    } else {
                        delivered[*id] += c;
                    }
                }
            }
        }
    }
    waits.sort_by_key(|w| w.1);
    for id in 0..4 {
        if delivered[id] > started[id] {
            v("more_deliveries_than_notifications", format!("id {}: delivered {} > notify calls started {}", id, delivered[id], started[id]));
        }
        if okc[id] > 0 && delivered[id] == 0 {
            v("notification_lost", format!("id {}: {} successful notifications, never delivered although the listener drained at quiescence", id, okc[id]));
        }
    }
    let mut cum = [0u64; 4];
    for w in &waits {
        for (id, c) in &w.3 {
            if *id > 3 {
                continue;
            }
            cum[*id] += c;
            let st = notifies.iter().filter(|n| n.0 == *id && n.1 < w.2.saturating_add(vkit::campaign::MARGIN)).count() as u64;
            if cum[*id] > st {
                v("phantom_event", format!("id {}: {} occurrences delivered by a wait that returned before {} notifications had even started", id, cum[*id], st));
            }
        }
    }
    // every successful notify must be followed by a delivery of its id that returned after the notify was called
    for n in notifies.iter().filter(|n| n.3) {
        if !waits.iter().any(|w| w.2 > n.1 && w.3.iter().any(|(id, _)| *id == n.0)) {
            v("notification_lost", format!("successful notify of id {} was never followed by a delivery of that id", n.0));
        }
    }
    let mut descheduled = 0u64;
    for w in waits.iter().filter(|w| w.0 == 9) {
        let got: u64 = w.3.iter().map(|x| x.1).sum();
        let ms = (w.2 - w.1) / 1_000_000;
        if got == 0 {
            v("pending_notification_not_delivered", format!("quiescent probe: undelivered notifications exist, no notifier in flight, timed_wait(1 s) returned nothing after {} ms", ms));
        } else if ms >= 900 && RQ_DELAY.lock().unwrap().iter().any(|(c, d)| *c == w.1 && *d >= 200) {
            descheduled += 1; // the thread was kept off the CPU for >= 200 ms of the probe: the duration says nothing
        } else if ms >= 900 {
            v("lost_wake_up", format!("quiescent probe: the wait slept {} ms (time-out branch) although an undelivered notification existed before it began and nobody was in flight", ms));
        }
    }
    let nprobes = probes.load(Relaxed);
    if std::env::var("VERIF_DEBUG").is_ok() {
        for w in waits.iter().filter(|w| w.0 == 9 || (w.2 - w.1) > 100_000_000) {
            eprintln!("wait kind {} took {} ms got {:?}", w.0, (w.2 - w.1) / 1_000_000, w.3);
        }
    }
    let mut obs = nprobes;
    for w in &waits {
        for (id, c) in &w.3 {
            obs = vkit::mix(obs, (*id as u64) << 32 | *c);
        }
    }
    RQ_DELAY.lock().unwrap().clear();
    ExecResult { stats, violations: viol, nontrivial: nprobes > 0 || waits.iter().any(|w| !w.3.is_empty()), observed: obs, inconclusive: descheduled > 0 }
}

pub fn execute(config: &iceoryx2::config::Config, cfg: ECfg, mode: &Mode, tag: u64) -> ExecResult {
    if cfg.ipc { run_generic::<iceoryx2::service::ipc::Service>(config, cfg, mode, tag) } else { run_generic::<iceoryx2::service::local::Service>(config, cfg, mode, tag) }
}
