//! C12 (port level) — blackboard through Writer / Reader / EntryHandle(Mut):
//! reads are atomic (self-checking values of 8, 40 and 200 bytes) and monotone per reader, at most one
//! writer port and one write handle per key exist, a refused second one does not disturb the first.
//!
//! Threads: the writer (creates the Writer, holds one EntryHandleMut per key, k updates alternating the
//! copy API and the loan-style two-step API, now and then a discarded loan and a refused second handle),
//! a contender (keeps trying to create a second Writer), 1-2 readers (own Reader + EntryHandle per key).
use iceoryx2::port::writer::{EntryHandleMutError, WriterCreateError};
use iceoryx2::prelude::*;
use iceoryx2::service::Service;
use std::sync::atomic::{AtomicBool, AtomicU64, Ordering::Relaxed, Ordering::SeqCst};
use std::sync::Mutex;
use vkit::campaign::{maybe_before, surely_before, ExecResult};
use vkit::sched::{self, Mode};
use vkit::ts;

fn byte(v: u64, i: usize) -> u8 {
    if i == 0 { v as u8 } else { (v.wrapping_mul(31).wrapping_add(i as u64 * 7).wrapping_add(v >> 3)) as u8 }
}
fn make<const N: usize>(v: u64) -> [u8; N] {
    let mut x = [0u8; N];
    for (i, b) in x.iter_mut().enumerate() {
        *b = byte(v, i);
    }
    x
}
fn decode(x: &[u8]) -> Result<u64, u8> {
    let v = x[0] as u64;
    for (i, b) in x.iter().enumerate() {
        if *b != byte(v, i) {
            return Err(x[0]);
        }
    }
    Ok(v)
}

#[derive(Clone, Debug)]
pub struct Prog {
    pub updates: Vec<(u8, u8)>, // (key index 0..3, style 0 copy / 1 loan / 2 loan+discard then copy / 3 second handle attempt then copy)
    pub readers: usize,
    pub reads: usize,
    pub contender_tries: usize,
}

pub fn execute<S: Service + 'static>(config: &iceoryx2::config::Config, p: &Prog, mode: &Mode, tag: u64) -> ExecResult
where
    S: Sync,
{
    let name = format!("bb_{}_{}", std::process::id(), tag);
    let sname: ServiceName = name.as_str().try_into().unwrap();
    let node = NodeBuilder::new().config(config).create::<S>().unwrap();
    let svc = node.service_builder(&sname).blackboard_creator::<u64>().max_readers(4).max_nodes(8).add::<[u8; 8]>(0, make::<8>(0)).add::<[u8; 40]>(1, make::<40>(0)).add::<[u8; 200]>(2, make::<200>(0)).create().unwrap();
    let notes: Mutex<Vec<(String, String)>> = Mutex::new(Vec::new());
    // (key, version, call, ret) of completed updates; loads: (reader, key, version or -1, call, ret)
    let stores: Mutex<Vec<(usize, u64, u64, u64)>> = Mutex::new(Vec::new());
    let loads: Mutex<Vec<(usize, usize, i64, u64, u64)>> = Mutex::new(Vec::new());
    // writer port holding interval and contender results
    let w_created = AtomicU64::new(0);
    let w_dropped = AtomicU64::new(u64::MAX);
    let contender: Mutex<Vec<(bool, u64, u64)>> = Mutex::new(Vec::new());
    let writer_done = AtomicBool::new(false);
    let mut bodies: Vec<Box<dyn FnOnce() + Send>> = Vec::new();
    {
        let (notes, stores, w_created, w_dropped, writer_done, sname) = (&notes, &stores, &w_created, &w_dropped, &writer_done, sname.clone());
        let updates = p.updates.clone();
        bodies.push(Box::new(move || {
            let node = NodeBuilder::new().config(config).create::<S>().unwrap();
            let svc = node.service_builder(&sname).blackboard_opener::<u64>().open().unwrap();
            // the contender may hold the single writer slot for a moment: retry while that is the answer
            let mut tries = 0;
            let w = loop {
                tries += 1;
                match svc.writer_builder().create() {
                    Ok(w) => break w,
                    Err(WriterCreateError::ExceedsMaxSupportedWriters) if tries < 20_000 => std::thread::yield_now(),
                    Err(e) => {
                        notes.lock().unwrap().push(("writer_create_failed".into(), format!("{:?} after {} attempts", e, tries)));
                        writer_done.store(true, SeqCst);
                        return;
                    }
                }
            };
            w_created.store(ts::now(), SeqCst);
            let mut h0 = Some(w.entry::<[u8; 8]>(&0).unwrap());
            let mut h1 = Some(w.entry::<[u8; 40]>(&1).unwrap());
            let mut h2 = Some(w.entry::<[u8; 200]>(&2).unwrap());
            let mut ver = [0u64; 3];
            for (k, style) in updates {
                let k = (k % 3) as usize;
                ver[k] += 1;
                let v = ver[k];
                if style == 3 {
                    // a second write handle for the same key must be refused and must not disturb the first
                    let r = match k {
                        0 => w.entry::<[u8; 8]>(&0).map(|_| ()),
                        1 => w.entry::<[u8; 40]>(&1).map(|_| ()),
                        _ => w.entry::<[u8; 200]>(&2).map(|_| ()),
                    };
                    if r != Err(EntryHandleMutError::HandleAlreadyExists) {
                        notes.lock().unwrap().push(("second_write_handle_not_refused".into(), format!("key {}: {:?}", k, r)));
                    }
                }
                let call = ts::now();
                macro_rules! upd {
                    ($h:ident, $n:literal) => {{
                        let h = $h.take().unwrap();
                        let h = match style {
                            1 => {
                                let mut u = h.loan_uninit();
                                u.value_mut().write(make::<$n>(v));
                                unsafe { u.assume_init_and_update() }
                            }
                            2 => {
                                let mut u = h.loan_uninit();
                                u.value_mut().write(make::<$n>(v + 100));
                                let h = u.discard();
                                h.update_with_copy(make::<$n>(v));
                                h
                            }
                            _ => {
                                h.update_with_copy(make::<$n>(v));
                                h
                            }
                        };
                        $h = Some(h);
                    }};
                }
                match k {
                    0 => upd!(h0, 8),
                    1 => upd!(h1, 40),
                    _ => upd!(h2, 200),
                }
                stores.lock().unwrap().push((k, v, call, ts::now()));
            }
            drop(h0);
            drop(h1);
            drop(h2);
            w_dropped.store(ts::now(), SeqCst);
            drop(w);
            writer_done.store(true, SeqCst);
        }));
    }
    {
        let (contender, writer_done, sname) = (&contender, &writer_done, sname.clone());
        let tries = p.contender_tries;
        bodies.push(Box::new(move || {
            let node = NodeBuilder::new().config(config).create::<S>().unwrap();
            let svc = node.service_builder(&sname).blackboard_opener::<u64>().open().unwrap();
            for _ in 0..tries {
                let call = ts::now();
                let r = svc.writer_builder().create();
                let ret = ts::now();
                let ok = match &r {
                    Ok(_) => true,
                    Err(WriterCreateError::ExceedsMaxSupportedWriters) => false,
                    Err(_) => false,
                };
                contender.lock().unwrap().push((ok, call, ret));
                drop(r);
                if writer_done.load(SeqCst) {
                    break;
                }
            }
        }));
    }
    for t in 0..p.readers {
        let (loads, notes, sname) = (&loads, &notes, sname.clone());
        let reads = p.reads;
        bodies.push(Box::new(move || {
            let node = NodeBuilder::new().config(config).create::<S>().unwrap();
            let svc = node.service_builder(&sname).blackboard_opener::<u64>().open().unwrap();
            let r = match svc.reader_builder().create() {
                Ok(r) => r,
                Err(e) => {
                    notes.lock().unwrap().push(("reader_create_failed".into(), format!("{:?}", e)));
                    return;
                }
            };
            let (e0, e1, e2) = (r.entry::<[u8; 8]>(&0).unwrap(), r.entry::<[u8; 40]>(&1).unwrap(), r.entry::<[u8; 200]>(&2).unwrap());
            let mut log = Vec::new();
            for i in 0..reads {
                let k = i % 3;
                let call = ts::now();
                let d = match k {
                    0 => decode(&*e0.get()),
                    1 => decode(&*e1.get()),
                    _ => decode(&*e2.get()),
                };
                log.push((t, k, d.map(|v| v as i64).unwrap_or(-1), call, ts::now()));
            }
            loads.lock().unwrap().extend(log);
        }));
    }
    let stats = sched::run_threads(mode, bodies);
    let mut viol: Vec<(String, String, String)> = notes.into_inner().unwrap().into_iter().map(|(r, m)| (r.clone(), format!("bb:{}", r), m)).collect();
    let mut v = |rule: &str, msg: String| viol.push((rule.to_string(), format!("bb:{}", rule), msg));
    let stores = stores.into_inner().unwrap();
    let loads = loads.into_inner().unwrap();
    let mut concurrent = false;
    for t in 0..p.readers {
        for k in 0..3 {
            let mut last = -1i64;
            for l in loads.iter().filter(|l| l.0 == t && l.1 == k) {
                if l.2 < 0 {
                    v("torn_read", format!("reader {} key {}: the value is a mixture of two writes", t, k));
                    continue;
                }
                if l.2 < last {
                    v("version_went_backwards", format!("reader {} key {}: version {} after {}", t, k, l.2, last));
                }
                last = l.2;
                if l.2 > 100 {
                    v("discarded_loan_became_visible", format!("reader {} key {}: saw version {} which was only written into a discarded loan", t, k, l.2));
                } else if l.2 > 0 && !stores.iter().any(|s| s.0 == k && s.1 as i64 == l.2 && maybe_before(s.2, l.4)) {
                    // the store is logged after it completed; a read may see it before: only values never written are invented
                    if l.2 as usize > p.updates.len() {
                        v("invented_value", format!("reader {} key {}: version {} was never written", t, k, l.2));
                    }
                }
                if let Some(newest) = stores.iter().filter(|s| s.0 == k && surely_before(s.3, l.3)).map(|s| s.1 as i64).max() {
                    if l.2 < newest {
                        v("stale_read", format!("reader {} key {}: got version {} although update {} had completed before the read began", t, k, l.2, newest));
                    }
                }
                if stores.iter().any(|s| s.0 == k && maybe_before(s.2, l.4) && !surely_before(s.3, l.3)) {
                    concurrent = true;
                }
            }
        }
    }
    let (wc, wd) = (w_created.load(SeqCst), w_dropped.load(SeqCst));
    for (ok, call, ret) in contender.into_inner().unwrap() {
        if ok && wc != 0 && surely_before(wc, call) && surely_before(ret, wd) {
            v("two_writers", "a second writer port was created while the first existed".into());
        }
        if ok {
            concurrent = true;
        }
    }
    // quiescent: final values are the newest versions, a writer can be created again, a second is refused
    {
        let r = svc.reader_builder().create().unwrap();
        let fin = [decode(&*r.entry::<[u8; 8]>(&0).unwrap().get()), decode(&*r.entry::<[u8; 40]>(&1).unwrap().get()), decode(&*r.entry::<[u8; 200]>(&2).unwrap().get())];
        for k in 0..3 {
            let newest = stores.iter().filter(|s| s.0 == k).map(|s| s.1).max().unwrap_or(0);
            match fin[k] {
                Ok(x) if x == newest => {}
                Ok(x) => v("final_value_wrong", format!("key {}: final version {} but the last update wrote {}", k, x, newest)),
                Err(_) => v("torn_read", format!("key {}: final value is torn", k)),
            }
        }
        match svc.writer_builder().create() {
            Ok(w1) => {
                if svc.writer_builder().create().is_ok() {
                    v("two_writers", "two writer ports exist at quiescence".into());
                }
                let h = w1.entry::<[u8; 8]>(&0);
                if h.is_err() {
                    v("write_handle_lost", format!("no write handle for key 0 after all handles were dropped: {:?}", h.err()));
                }
            }
            Err(e) => v("writer_slot_lost", format!("no writer can be created after the writer was dropped: {:?}", e)),
        }
    }
    let mut obs = 0u64;
    for l in &loads {
        obs = vkit::mix(obs, ((l.0 as u64) << 40) ^ ((l.1 as u64) << 32) ^ l.2 as u64);
    }
    let _ = Relaxed;
    ExecResult { stats, violations: viol, nontrivial: concurrent, observed: obs, inconclusive: false }
}
