//! C06 — service creation is atomic and its lifetime follows its users.
//!
//! One execution = one existence epoch of one service name: 2-4 racer threads (each with its own
//! node) create / open (polling) / open_or_create the same name with distinguishable settings while a
//! checker thread samples `does_exist`; handles are held over a barrier, then dropped, then the name
//! must be gone and creatable with other settings. Executed under the stall sweep.
use iceoryx2::prelude::*;
use iceoryx2::service::builder::publish_subscribe::{PublishSubscribeCreateError, PublishSubscribeOpenError};
use iceoryx2::service::Service;
use std::sync::atomic::{AtomicUsize, Ordering::Relaxed};
use std::sync::{Barrier, Mutex};
use vkit::campaign::ExecResult;
use vkit::sched::{self, Mode};

#[derive(Clone, Copy, Debug, PartialEq)]
pub enum Role {
    Create,
    Open,
    OpenOrCreate,
}

#[derive(Clone, Copy, Debug, PartialEq)]
pub enum Pat {
    PubSub,
    Event,
    ReqRes,
    Blackboard,
}

impl Pat {
    pub fn messaging_pattern(&self) -> MessagingPattern {
        match self {
            Pat::PubSub => MessagingPattern::PublishSubscribe,
            Pat::Event => MessagingPattern::Event,
            Pat::ReqRes => MessagingPattern::RequestResponse,
            Pat::Blackboard => MessagingPattern::Blackboard,
        }
    }
}

#[derive(Clone, Debug)]
pub struct RaceCfg {
    pub pat: Pat,
    pub roles: Vec<Role>,
}

type Got = (usize, bool, Box<dyn std::any::Any>);

/// one create / open / open_or_create call of one pattern; returns (distinguishing setting seen, usable, handle)
fn call<S: Service + 'static>(pat: Pat, role: Role, node: &Node<S>, sname: &ServiceName, mine: usize) -> Result<Got, String> {
    macro_rules! fin {
        ($r:expr, $set:ident, $port:ident) => {
            match $r {
                Ok(s) => {
                    let m = s.static_config().$set();
                    let usable = s.$port().create().is_ok();
                    Ok((m, usable, Box::new(s) as Box<dyn std::any::Any>))
                }
                Err(e) => Err(format!("{:?}", e)),
            }
        };
    }
    match (pat, role) {
        (Pat::PubSub, Role::Create) => fin!(node.service_builder(sname).publish_subscribe::<u64>().max_subscribers(mine).max_nodes(8).create(), max_subscribers, subscriber_builder),
        (Pat::PubSub, Role::OpenOrCreate) => fin!(node.service_builder(sname).publish_subscribe::<u64>().max_subscribers(mine).max_nodes(8).open_or_create(), max_subscribers, subscriber_builder),
        (Pat::PubSub, Role::Open) => fin!(node.service_builder(sname).publish_subscribe::<u64>().open(), max_subscribers, subscriber_builder),
        (Pat::Event, Role::Create) => fin!(node.service_builder(sname).event().max_listeners(mine).max_nodes(8).create(), max_listeners, listener_builder),
        (Pat::Event, Role::OpenOrCreate) => fin!(node.service_builder(sname).event().max_listeners(mine).max_nodes(8).open_or_create(), max_listeners, listener_builder),
        (Pat::Event, Role::Open) => fin!(node.service_builder(sname).event().open(), max_listeners, listener_builder),
        (Pat::ReqRes, Role::Create) => fin!(node.service_builder(sname).request_response::<u64, u64>().max_clients(mine).max_nodes(8).create(), max_clients, client_builder),
        (Pat::ReqRes, Role::OpenOrCreate) => fin!(node.service_builder(sname).request_response::<u64, u64>().max_clients(mine).max_nodes(8).open_or_create(), max_clients, client_builder),
        (Pat::ReqRes, Role::Open) => fin!(node.service_builder(sname).request_response::<u64, u64>().open(), max_clients, client_builder),
        // the blackboard has no open_or_create: the role degrades to create
        (Pat::Blackboard, Role::Create) | (Pat::Blackboard, Role::OpenOrCreate) => fin!(node.service_builder(sname).blackboard_creator::<u64>().max_readers(mine).max_nodes(8).add::<u64>(0, 0).create(), max_readers, reader_builder),
        (Pat::Blackboard, Role::Open) => fin!(node.service_builder(sname).blackboard_opener::<u64>().open(), max_readers, reader_builder),
    }
}

fn recreate<S: Service + 'static>(pat: Pat, node: &Node<S>, sname: &ServiceName) -> Result<usize, String> {
    match pat {
        Pat::PubSub => node.service_builder(sname).publish_subscribe::<u64>().max_subscribers(99).history_size(0).create().map(|s| s.static_config().max_subscribers()).map_err(|e| format!("{:?}", e)),
        Pat::Event => node.service_builder(sname).event().max_listeners(99).create().map(|s| s.static_config().max_listeners()).map_err(|e| format!("{:?}", e)),
        Pat::ReqRes => node.service_builder(sname).request_response::<u64, u64>().max_clients(99).create().map(|s| s.static_config().max_clients()).map_err(|e| format!("{:?}", e)),
        Pat::Blackboard => node.service_builder(sname).blackboard_creator::<u64>().max_readers(99).add::<u64>(0, 0).create().map(|s| s.static_config().max_readers()).map_err(|e| format!("{:?}", e)),
    }
}

#[derive(Debug, Clone)]
enum Out {
    Got(&'static str, usize, bool), // how, max_subscribers seen, usable
    Err(String),
}

pub fn execute<S: Service + 'static>(config: &iceoryx2::config::Config, cfg: &RaceCfg, mode: &Mode, tag: u64, residue: &(dyn Fn() -> Vec<String> + Sync)) -> ExecResult
where
    S: Sync,
{
    let name = format!("race_{}_{}", std::process::id(), tag);
    let n = cfg.roles.len();
    let outs: Mutex<Vec<(usize, Out)>> = Mutex::new(Vec::new());
    let creators_total = cfg.roles.iter().filter(|r| **r != Role::Open).count();
    let creators_done = AtomicUsize::new(0);
    let held_phase = Barrier::new(n + 1);
    let checked = Barrier::new(n + 1);
    let dropped = Barrier::new(n + 1);
    let checker_notes: Mutex<Vec<(String, String)>> = Mutex::new(Vec::new());
    let mut bodies: Vec<Box<dyn FnOnce() + Send>> = Vec::new();
    for (t, role) in cfg.roles.iter().copied().enumerate() {
        let (outs, creators_done, held_phase, checked, dropped, name) = (&outs, &creators_done, &held_phase, &checked, &dropped, name.clone());
        bodies.push(Box::new(move || {
            let node = NodeBuilder::new().config(config).create::<S>().unwrap();
            let sname: ServiceName = name.as_str().try_into().unwrap();
            let mine = 10 + t;
            let mut handle = None;
            let pat = cfg.pat;
            let out = match role {
                Role::Create | Role::OpenOrCreate => {
                    let how = if role == Role::Create || pat == Pat::Blackboard { "create" } else { "open_or_create" };
                    let r = call::<S>(pat, role, &node, &sname, mine);
                    creators_done.fetch_add(1, Relaxed);
                    match r {
                        Ok((m, usable, h)) => {
                            handle = Some(h);
                            Out::Got(how, m, usable)
                        }
                        Err(e) => Out::Err(format!("{}:{}", how, e)),
                    }
                }
                Role::Open => {
                    // poll for the whole race window: a single open would return DoesNotExist long before the creators are done
                    let mut tries = 0;
                    let mut seen_errors: Vec<String> = Vec::new();
                    loop {
                        tries += 1;
                        let fin = creators_done.load(Relaxed) >= creators_total;
                        match call::<S>(pat, role, &node, &sname, mine) {
                            Ok((m, usable, h)) => {
                                handle = Some(h);
                                break Out::Got("open", m, usable);
                            }
                            Err(e) => {
                                let es = format!("open:{}", e);
                                if !seen_errors.contains(&es) {
                                    seen_errors.push(es);
                                }
                                if fin || tries > 5000 {
                                    break Out::Err(seen_errors.join("|"));
                                }
                            }
                        }
                    }
                }
            };
            outs.lock().unwrap().push((t, out));
            held_phase.wait();
            checked.wait();
            drop(handle);
            drop(node);
            dropped.wait();
        }));
    }
    {
        let (held_phase, checked, dropped, outs, name, checker_notes) = (&held_phase, &checked, &dropped, &outs, name.clone(), &checker_notes);
        bodies.push(Box::new(move || {
            let sname: ServiceName = name.as_str().try_into().unwrap();
            held_phase.wait();
            let held = outs.lock().unwrap().iter().any(|o| matches!(o.1, Out::Got(..)));
            let exists = S::does_exist(&sname, config, cfg.pat.messaging_pattern());
            if exists != Ok(held) {
                checker_notes.lock().unwrap().push(("existence_wrong".into(), format!("handles held = {} but does_exist = {:?}", held, exists)));
            }
            if held {
                // a compatible open from a fresh node must succeed while a user exists
                let node = NodeBuilder::new().config(config).create::<S>().unwrap();
                if let Err(e) = call::<S>(cfg.pat, Role::Open, &node, &sname, 0) {
                    checker_notes.lock().unwrap().push(("open_of_existing_service_failed".into(), e));
                }
            }
            checked.wait();
            dropped.wait();
            let exists = S::does_exist(&sname, config, cfg.pat.messaging_pattern());
            if exists != Ok(false) {
                checker_notes.lock().unwrap().push(("service_outlives_last_user".into(), format!("does_exist = {:?} after every handle was dropped", exists)));
            }
            let rest = residue();
            if !rest.is_empty() {
                checker_notes.lock().unwrap().push(("residue_after_last_user".into(), format!("{:?}", &rest[..rest.len().min(5)])));
            }
            // the name is free: creating it with other settings must work
            let node = NodeBuilder::new().config(config).create::<S>().unwrap();
            match recreate::<S>(cfg.pat, &node, &sname) {
                Ok(m) => {
                    if m != 99 {
                        checker_notes.lock().unwrap().push(("stale_settings_after_recreation".into(), format!("re-created service shows setting {}", m)));
                    }
                }
                Err(e) => checker_notes.lock().unwrap().push(("name_not_reusable".into(), e)),
            }
        }));
    }
    let stats = sched::run_threads(mode, bodies);
    let outs = outs.into_inner().unwrap();
    let mut viol: Vec<(String, String, String)> = checker_notes.into_inner().unwrap().into_iter().map(|(r, m)| (r.clone(), format!("race:{}", r), m)).collect();
    for (r, m) in judge(cfg, &outs) {
        viol.push((r.clone(), format!("race:{}", r), m));
    }
    let creates: Vec<usize> = outs.iter().filter_map(|o| if let Out::Got("create", m, _) = o.1 { Some(m) } else { None }).collect();
    let seen: Vec<usize> = outs.iter().filter_map(|o| if let Out::Got(_, m, _) = o.1 { Some(m) } else { None }).collect();
    let mut obs = 0u64;
    for (t, o) in &outs {
        obs = vkit::mix(obs, (*t as u64) << 8 | matches!(o, Out::Got(..)) as u64);
    }
    ExecResult { stats, violations: viol, nontrivial: seen.len() >= 2 || (creates.len() == 1 && outs.iter().any(|o| matches!(&o.1, Out::Err(e) if e.contains("AlreadyExists") || e.contains("IsBeingCreated")))), observed: obs, inconclusive: false }
}

/// verdict over the outcomes of one existence epoch
fn judge(cfg: &RaceCfg, outs: &[(usize, Out)]) -> Vec<(String, String)> {
    let mut res: Vec<(String, String)> = Vec::new();
    let mut v = |rule: &str, msg: String| res.push((rule.to_string(), msg));
    let creates: Vec<usize> = outs.iter().filter_map(|o| if let Out::Got("create", m, _) = o.1 { Some(m) } else { None }).collect();
    if creates.len() > 1 {
        v("two_creations_succeeded", format!("{} create() calls succeeded in one existence epoch: {:?}", creates.len(), outs));
    }
    let seen: Vec<usize> = outs.iter().filter_map(|o| if let Out::Got(_, m, _) = o.1 { Some(m) } else { None }).collect();
    if let Some(first) = seen.first() {
        if seen.iter().any(|m| m != first) {
            v("openers_disagree_on_settings", format!("handles of one epoch show different settings: {:?}", outs));
        }
        let requested: Vec<usize> = cfg.roles.iter().enumerate().filter(|(_, r)| **r != Role::Open).map(|(t, _)| 10 + t).collect();
        if !requested.contains(first) {
            v("settings_of_nobody", format!("the service shows setting {} which no racer requested ({:?})", first, requested));
        }
        if creates.len() == 1 && creates[0] != *first {
            v("opener_saw_other_settings", format!("creator set {} but a handle shows {}", creates[0], first));
        }
    }
    for (t, o) in outs {
        match o {
            Out::Got(how, _, usable) => {
                if !*usable {
                    v("half_initialised_service", format!("thread {} obtained the service through {} but cannot create a port on it", t, how));
                }
            }
            Out::Err(e) => {
                for part in e.split('|') {
                    let ok = matches!(part, "create:AlreadyExists" | "create:IsBeingCreatedByAnotherInstance" | "open:DoesNotExist" | "open:IsMarkedForDestruction")
                        || (part.starts_with("open_or_create:") && part.contains("OpenError(DoesNotSupportRequestedAmountOf"));
                    if !ok {
                        v("undocumented_race_error", format!("thread {} ({:?}) failed with {} during the race", t, cfg.roles[*t], part));
                    }
                }
            }
        }
    }
    if cfg.roles.iter().any(|r| *r == Role::Create) && creates.is_empty() && !outs.iter().any(|o| matches!(o.1, Out::Got("open_or_create", ..))) {
        v("nobody_created", format!("creators raced and none succeeded: {:?}", outs));
    }
    res
}

/// sequential compatibility grid: creator settings x opener requirements -> documented result, service untouched
pub fn grid<S: Service>(config: &iceoryx2::config::Config, tag: u64) -> (u64, Vec<(String, String)>) {
    let mut bad = Vec::new();
    let node = NodeBuilder::new().config(config).create::<S>().unwrap();
    let name = format!("grid_{}_{}", std::process::id(), tag);
    let sname: ServiceName = name.as_str().try_into().unwrap();
    let creator = node.service_builder(&sname).publish_subscribe::<u64>().max_subscribers(3).max_publishers(2).history_size(2).subscriber_max_buffer_size(4).subscriber_max_borrowed_samples(3).enable_safe_overflow(true).max_nodes(4).create().unwrap();
    let p = creator.publisher_builder().create().unwrap();
    let s = creator.subscriber_builder().create().unwrap();
    let node2 = NodeBuilder::new().config(config).create::<S>().unwrap();
    macro_rules! expect {
        ($desc:expr, $b:expr, $exp:pat) => {{
            let r = $b.open();
            match &r {
                $exp => {}
                other => bad.push(("wrong_open_result".to_string(), format!("{}: got {:?}", $desc, other.as_ref().map(|_| "Ok").map_err(|e| format!("{:?}", e))))),
            }
            drop(r);
            // the refused / granted open must not disturb the service
            if creator.static_config().max_subscribers() != 3 || creator.static_config().history_size() != 2 {
                bad.push(("service_disturbed_by_open".to_string(), format!("{}: static config changed", $desc)));
            }
            if p.send_copy(7) != Ok(1) || s.receive().ok().flatten().map(|x| *x) != Some(7) {
                bad.push(("service_disturbed_by_open".to_string(), format!("{}: the creator's ports stopped working", $desc)));
            }
        }};
    }
    let b = || node2.service_builder(&sname).publish_subscribe::<u64>();
    expect!("unspecified requirements", b(), Ok(_));
    expect!("max_subscribers equal", b().max_subscribers(3), Ok(_));
    expect!("max_subscribers smaller", b().max_subscribers(2), Ok(_));
    expect!("max_subscribers larger", b().max_subscribers(4), Err(PublishSubscribeOpenError::DoesNotSupportRequestedAmountOfSubscribers));
    expect!("max_publishers larger", b().max_publishers(3), Err(PublishSubscribeOpenError::DoesNotSupportRequestedAmountOfPublishers));
    expect!("max_publishers smaller", b().max_publishers(1), Ok(_));
    expect!("history_size larger", b().history_size(3), Err(PublishSubscribeOpenError::DoesNotSupportRequestedMinHistorySize));
    expect!("history_size smaller", b().history_size(1), Ok(_));
    expect!("buffer size larger", b().subscriber_max_buffer_size(5), Err(PublishSubscribeOpenError::DoesNotSupportRequestedMinBufferSize));
    expect!("buffer size smaller", b().subscriber_max_buffer_size(3), Ok(_));
    expect!("borrowed samples larger", b().subscriber_max_borrowed_samples(4), Err(PublishSubscribeOpenError::DoesNotSupportRequestedMinSubscriberBorrowedSamples));
    expect!("overflow mismatch", b().enable_safe_overflow(false), Err(PublishSubscribeOpenError::IncompatibleOverflowBehavior));
    expect!("overflow equal", b().enable_safe_overflow(true), Ok(_));
    expect!("max_nodes larger", b().max_nodes(5), Err(PublishSubscribeOpenError::DoesNotSupportRequestedAmountOfNodes));
    {
        let r = node2.service_builder(&sname).publish_subscribe::<u32>().open();
        if !matches!(r, Err(PublishSubscribeOpenError::IncompatibleTypes)) {
            bad.push(("wrong_open_result".into(), format!("payload type u32 on a u64 service: {:?}", r.as_ref().map(|_| "Ok").map_err(|e| format!("{:?}", e)))));
        }
        let r = node2.service_builder(&sname).publish_subscribe::<u64>().user_header::<u16>().open();
        if !matches!(r, Err(PublishSubscribeOpenError::IncompatibleTypes)) {
            bad.push(("wrong_open_result".into(), format!("user header u16 on a service without: {:?}", r.as_ref().map(|_| "Ok").map_err(|e| format!("{:?}", e)))));
        }
        let r = node2.service_builder(&sname).event().open();
        if r.is_ok() {
            bad.push(("wrong_open_result".into(), "opening a publish-subscribe service as event service succeeded".into()));
        }
        let r = node2.service_builder(&sname).publish_subscribe::<u64>().create();
        if !matches!(r, Err(PublishSubscribeCreateError::AlreadyExists)) {
            bad.push(("wrong_create_result".into(), format!("second create: {:?}", r.as_ref().map(|_| "Ok").map_err(|e| format!("{:?}", e)))));
        }
        if p.send_copy(9) != Ok(1) || s.receive().ok().flatten().map(|x| *x) != Some(9) {
            bad.push(("service_disturbed_by_open".into(), "after type-mismatch opens the creator's ports stopped working".into()));
        }
    }
    (18, bad)
}

macro_rules! gcase {
    ($bad:ident, $desc:expr, $r:expr, $exp:pat, $undisturbed:expr) => {{
        let r = $r;
        match &r {
            $exp => {}
            other => $bad.push(("wrong_open_result".to_string(), format!("{}: got {:?}", $desc, other.as_ref().map(|_| "Ok").map_err(|e| format!("{:?}", e))))),
        }
        drop(r);
        if let Some(why) = $undisturbed() {
            $bad.push(("service_disturbed_by_open".to_string(), format!("{}: {}", $desc, why)));
        }
    }};
}

/// event services: creator settings x opener requirements
pub fn grid_event<S: Service>(config: &iceoryx2::config::Config, tag: u64) -> (u64, Vec<(String, String)>) {
    use core::time::Duration;
    use iceoryx2::service::builder::event::{EventCreateError, EventOpenError};
    let mut bad = Vec::new();
    let node = NodeBuilder::new().config(config).create::<S>().unwrap();
    let node2 = NodeBuilder::new().config(config).create::<S>().unwrap();
    let name = format!("gride_{}_{}", std::process::id(), tag);
    let sname: ServiceName = name.as_str().try_into().unwrap();
    let creator = node
        .service_builder(&sname)
        .event()
        .max_listeners(3)
        .max_notifiers(2)
        .max_nodes(4)
        .event_id_max_value(9)
        .deadline(Duration::from_secs(100))
        .notifier_created_event(EventId::new(5))
        .disable_notifier_dropped_event()
        .disable_notifier_dead_event()
        .create()
        .unwrap();
    let l = creator.listener_builder().create().unwrap();
    let n = creator.notifier_builder().create().unwrap();
    let _ = l.try_wait(|_| {});
    let und = || -> Option<String> {
        let sc = creator.static_config();
        if sc.max_listeners() != 3 || sc.max_notifiers() != 2 || sc.event_id_max_value() != 9 || sc.notifier_created_event() != Some(EventId::new(5)) {
            return Some("static config changed".into());
        }
        if n.notify_with_custom_event_id(EventId::new(7)).is_err() {
            return Some("the creator's notifier stopped working".into());
        }
        let mut got = Vec::new();
        let r = l.try_wait(|a| got.push(a.id.as_value()));
        if r.is_ok() && got == vec![7] {
            None
        } else {
            Some(format!("the creator's listener got {:?} ({:?}) instead of the notified id 7", got, r))
        }
    };
    let b = || node2.service_builder(&sname).event();
    let mut cases = 0u64;
    macro_rules! c { ($d:expr, $r:expr, $e:pat) => {{ cases += 1; gcase!(bad, $d, $r, $e, und) }}; }
    c!("unspecified", b().open(), Ok(_));
    c!("max_listeners equal", b().max_listeners(3).open(), Ok(_));
    c!("max_listeners smaller", b().max_listeners(1).open(), Ok(_));
    c!("max_listeners larger", b().max_listeners(4).open(), Err(EventOpenError::DoesNotSupportRequestedAmountOfListeners));
    c!("max_notifiers smaller", b().max_notifiers(1).open(), Ok(_));
    c!("max_notifiers larger", b().max_notifiers(3).open(), Err(EventOpenError::DoesNotSupportRequestedAmountOfNotifiers));
    c!("max_nodes larger", b().max_nodes(5).open(), Err(EventOpenError::DoesNotSupportRequestedAmountOfNodes));
    c!("max_nodes smaller", b().max_nodes(2).open(), Ok(_));
    c!("event id max larger", b().event_id_max_value(10).open(), Err(EventOpenError::DoesNotSupportRequestedMaxEventId));
    c!("event id max smaller", b().event_id_max_value(8).open(), Ok(_));
    c!("deadline equal", b().deadline(Duration::from_secs(100)).open(), Ok(_));
    c!("deadline other", b().deadline(Duration::from_secs(101)).open(), Err(EventOpenError::IncompatibleDeadline));
    c!("deadline disabled", b().disable_deadline().open(), Err(EventOpenError::IncompatibleDeadline));
    c!("created event equal", b().notifier_created_event(EventId::new(5)).open(), Ok(_));
    c!("created event other", b().notifier_created_event(EventId::new(6)).open(), Err(EventOpenError::IncompatibleNotifierCreatedEvent));
    c!("created event disabled", b().disable_notifier_created_event().open(), Err(EventOpenError::IncompatibleNotifierCreatedEvent));
    c!("dropped event required", b().notifier_dropped_event(EventId::new(1)).open(), Err(EventOpenError::IncompatibleNotifierDroppedEvent));
    c!("dropped event disabled", b().disable_notifier_dropped_event().open(), Ok(_));
    c!("dead event required", b().notifier_dead_event(EventId::new(1)).open(), Err(EventOpenError::IncompatibleNotifierDeadEvent));
    c!("as publish-subscribe", node2.service_builder(&sname).publish_subscribe::<u64>().open(), Err(_));
    c!("second create", b().create(), Err(EventCreateError::AlreadyExists));
    c!("open_or_create incompatible", b().max_listeners(4).open_or_create(), Err(_));
    (cases, bad)
}

/// request-response services: creator settings x opener requirements
pub fn grid_reqres<S: Service>(config: &iceoryx2::config::Config, tag: u64) -> (u64, Vec<(String, String)>) {
    use iceoryx2::service::builder::request_response::{RequestResponseCreateError, RequestResponseOpenError as E};
    let mut bad = Vec::new();
    let node = NodeBuilder::new().config(config).create::<S>().unwrap();
    let node2 = NodeBuilder::new().config(config).create::<S>().unwrap();
    let name = format!("gridr_{}_{}", std::process::id(), tag);
    let sname: ServiceName = name.as_str().try_into().unwrap();
    let creator = node
        .service_builder(&sname)
        .request_response::<u64, u32>()
        .max_clients(3)
        .max_servers(2)
        .max_nodes(4)
        .max_active_requests_per_client(2)
        .max_loaned_requests(2)
        .max_response_buffer_size(3)
        .max_borrowed_responses_per_pending_response(2)
        .enable_safe_overflow_for_requests(true)
        .enable_safe_overflow_for_responses(false)
        .enable_fire_and_forget_requests(false)
        .create()
        .unwrap();
    let cl = creator.client_builder().create().unwrap();
    let sv = creator.server_builder().create().unwrap();
    let und = || -> Option<String> {
        let sc = creator.static_config();
        if sc.max_clients() != 3 || sc.max_servers() != 2 || sc.max_active_requests_per_client() != 2 || sc.max_response_buffer_size() != 3 {
            return Some("static config changed".into());
        }
        let p = match cl.send_copy(41) {
            Ok(p) => p,
            Err(e) => return Some(format!("the creator's client stopped working: {:?}", e)),
        };
        let a = match sv.receive() {
            Ok(Some(a)) if *a == 41 => a,
            other => return Some(format!("the creator's server got {:?}", other.map(|o| o.map(|a| *a)))),
        };
        if a.send_copy(42).is_err() {
            return Some("response could not be sent".into());
        }
        match p.receive() {
            Ok(Some(r)) if *r == 42 => None,
            other => Some(format!("the creator's client got response {:?}", other.map(|o| o.map(|r| *r)))),
        }
    };
    let b = || node2.service_builder(&sname).request_response::<u64, u32>();
    let mut cases = 0u64;
    macro_rules! c { ($d:expr, $r:expr, $e:pat) => {{ cases += 1; gcase!(bad, $d, $r, $e, und) }}; }
    c!("unspecified", b().open(), Ok(_));
    c!("max_clients equal", b().max_clients(3).open(), Ok(_));
    c!("max_clients larger", b().max_clients(4).open(), Err(E::DoesNotSupportRequestedAmountOfClients));
    c!("max_clients smaller", b().max_clients(1).open(), Ok(_));
    c!("max_servers larger", b().max_servers(3).open(), Err(E::DoesNotSupportRequestedAmountOfServers));
    c!("max_servers smaller", b().max_servers(1).open(), Ok(_));
    c!("max_nodes larger", b().max_nodes(5).open(), Err(E::DoesNotSupportRequestedAmountOfNodes));
    c!("active requests larger", b().max_active_requests_per_client(3).open(), Err(E::DoesNotSupportRequestedAmountOfActiveRequestsPerClient));
    c!("active requests smaller", b().max_active_requests_per_client(1).open(), Ok(_));
    c!("loaned requests larger", b().max_loaned_requests(3).open(), Err(E::DoesNotSupportRequestedAmountOfClientRequestLoans));
    c!("loaned requests smaller", b().max_loaned_requests(1).open(), Ok(_));
    c!("response buffer larger", b().max_response_buffer_size(4).open(), Err(E::DoesNotSupportRequestedResponseBufferSize));
    c!("response buffer smaller", b().max_response_buffer_size(2).open(), Ok(_));
    c!("borrowed responses larger", b().max_borrowed_responses_per_pending_response(3).open(), Err(E::DoesNotSupportRequestedAmountOfBorrowedResponsesPerPendingResponse));
    c!("borrowed responses smaller", b().max_borrowed_responses_per_pending_response(1).open(), Ok(_));
    c!("request overflow equal", b().enable_safe_overflow_for_requests(true).open(), Ok(_));
    c!("request overflow other", b().enable_safe_overflow_for_requests(false).open(), Err(E::IncompatibleOverflowBehaviorForRequests));
    c!("response overflow equal", b().enable_safe_overflow_for_responses(false).open(), Ok(_));
    c!("response overflow other", b().enable_safe_overflow_for_responses(true).open(), Err(E::IncompatibleOverflowBehaviorForResponses));
    c!("fire and forget other", b().enable_fire_and_forget_requests(true).open(), Err(E::IncompatibleBehaviorForFireAndForgetRequests));
    c!("fire and forget equal", b().enable_fire_and_forget_requests(false).open(), Ok(_));
    c!("request type other", node2.service_builder(&sname).request_response::<u32, u32>().open(), Err(E::IncompatibleRequestOrResponseType));
    c!("response type other", node2.service_builder(&sname).request_response::<u64, u64>().open(), Err(E::IncompatibleRequestOrResponseType));
    c!("request header other", b().request_user_header::<u16>().open(), Err(E::IncompatibleRequestOrResponseType));
    c!("response header other", b().response_user_header::<u16>().open(), Err(E::IncompatibleRequestOrResponseType));
    c!("as event", node2.service_builder(&sname).event().open(), Err(_));
    c!("second create", b().create(), Err(RequestResponseCreateError::AlreadyExists));
    (cases, bad)
}

/// blackboard services: creator settings x opener requirements
pub fn grid_blackboard<S: Service>(config: &iceoryx2::config::Config, tag: u64) -> (u64, Vec<(String, String)>) {
    use iceoryx2::service::builder::blackboard::{BlackboardCreateError, BlackboardOpenError as E};
    let mut bad = Vec::new();
    let node = NodeBuilder::new().config(config).create::<S>().unwrap();
    let node2 = NodeBuilder::new().config(config).create::<S>().unwrap();
    let name = format!("gridb_{}_{}", std::process::id(), tag);
    let sname: ServiceName = name.as_str().try_into().unwrap();
    let creator = node.service_builder(&sname).blackboard_creator::<u64>().max_readers(3).max_nodes(4).add::<u32>(1, 11).add::<u64>(2, 22).create().unwrap();
    let w = creator.writer_builder().create().unwrap();
    let r = creator.reader_builder().create().unwrap();
    let wh = w.entry::<u32>(&1).unwrap();
    let rh = r.entry::<u32>(&1).unwrap();
    let ctr = core::cell::Cell::new(100u32);
    let und = || -> Option<String> {
        let sc = creator.static_config();
        if sc.max_readers() != 3 || sc.max_nodes() != 4 {
            return Some("static config changed".into());
        }
        ctr.set(ctr.get() + 1);
        wh.update_with_copy(ctr.get());
        if *rh.get() != ctr.get() {
            return Some(format!("the creator's reader sees {} after writing {}", *rh.get(), ctr.get()));
        }
        None
    };
    let mut cases = 0u64;
    macro_rules! c { ($d:expr, $r:expr, $e:pat) => {{ cases += 1; gcase!(bad, $d, $r, $e, und) }}; }
    let b = || node2.service_builder(&sname).blackboard_opener::<u64>();
    c!("unspecified", b().open(), Ok(_));
    c!("max_readers equal", b().max_readers(3).open(), Ok(_));
    c!("max_readers smaller", b().max_readers(2).open(), Ok(_));
    c!("max_readers larger", b().max_readers(4).open(), Err(E::DoesNotSupportRequestedAmountOfReaders));
    c!("max_nodes larger", b().max_nodes(5).open(), Err(E::DoesNotSupportRequestedAmountOfNodes));
    c!("max_nodes smaller", b().max_nodes(1).open(), Ok(_));
    c!("key type other", node2.service_builder(&sname).blackboard_opener::<u32>().open(), Err(E::IncompatibleKeys));
    c!("as event", node2.service_builder(&sname).event().open(), Err(_));
    c!("second create", node2.service_builder(&sname).blackboard_creator::<u64>().add::<u32>(1, 0).create(), Err(BlackboardCreateError::AlreadyExists));
    c!("create without entries", node2.service_builder(&format!("{}x", name).as_str().try_into().unwrap()).blackboard_creator::<u64>().create(), Err(BlackboardCreateError::NoEntriesProvided));
    // a creation that fails half-way (after the static config was written) must leave nothing: the name stays free
    {
        let fname = format!("{}f", name);
        let fsn: ServiceName = fname.as_str().try_into().unwrap();
        let r = node2.service_builder(&fsn).blackboard_creator::<u64>().add::<u32>(5, 1).add::<u32>(5, 2).create();
        cases += 1;
        if r.is_ok() {
            bad.push(("wrong_create_result".into(), "a blackboard with the same key twice was created".into()));
        }
        drop(r);
        let exists = S::does_exist(&fsn, config, MessagingPattern::Blackboard);
        if exists != Ok(false) {
            bad.push(("failed_creation_left_a_service".into(), format!("after a failed create (duplicate key) does_exist = {:?}", exists)));
        }
        match node2.service_builder(&fsn).blackboard_opener::<u64>().open() {
            Err(E::DoesNotExist) => {}
            other => bad.push(("failed_creation_left_a_service".into(), format!("after a failed create, open answers {:?} instead of DoesNotExist", other.as_ref().map(|_| "Ok").map_err(|e| format!("{:?}", e))))),
        }
        match node2.service_builder(&fsn).blackboard_creator::<u64>().max_readers(7).add::<u32>(5, 3).create() {
            Ok(svc) => {
                if svc.static_config().max_readers() != 7 {
                    bad.push(("stale_settings_after_recreation".into(), "the service created after a failed creation shows other settings".into()));
                }
            }
            Err(e) => bad.push(("name_not_reusable".into(), format!("after a failed create (duplicate key) the name cannot be created: {:?}", e))),
        }
        let exists = S::does_exist(&fsn, config, MessagingPattern::Blackboard);
        if exists != Ok(false) {
            bad.push(("service_outlives_last_user".into(), format!("does_exist = {:?} after the only handle was dropped", exists)));
        }
    }
    (cases, bad)
}

// ---------------------------------------------------------------------------------------------
// process-level race: every racer is its own process (ipc services only)

fn parse_pat(s: &str) -> Pat {
    match s {
        "PubSub" => Pat::PubSub,
        "Event" => Pat::Event,
        "ReqRes" => Pat::ReqRes,
        _ => Pat::Blackboard,
    }
}

fn wait_file(p: &str, ms: u64) -> bool {
    let t0 = std::time::Instant::now();
    while !std::path::Path::new(p).exists() {
        if t0.elapsed().as_millis() as u64 > ms {
            return false;
        }
        std::thread::sleep(std::time::Duration::from_micros(50));
    }
    true
}

/// `c06child <root> <prefix> <syncdir> <name> <pat> <role> <t> <creators_total> <seed>`
pub fn proc_child(a: &[String]) {
    use std::io::Write;
    let (root, prefix, sync, name) = (&a[0], &a[1], &a[2], &a[3]);
    let pat = parse_pat(&a[4]);
    let role = match a[5].as_str() {
        "Create" => Role::Create,
        "Open" => Role::Open,
        _ => Role::OpenOrCreate,
    };
    let t: usize = a[6].parse().unwrap();
    let creators_total: usize = a[7].parse().unwrap();
    let seed: u64 = a[8].parse().unwrap();
    let d = crate::dom::Domain::with(root, prefix);
    let config = d.config.clone();
    std::mem::forget(d); // the parent owns the directory
    type S = iceoryx2::service::ipc::Service;
    let node = NodeBuilder::new().config(&config).create::<S>().unwrap();
    let sname: ServiceName = name.as_str().try_into().unwrap();
    let say = |s: String| {
        let mut o = std::io::stdout().lock();
        let _ = writeln!(o, "{}", s);
        let _ = o.flush();
    };
    say("ready".into());
    if !wait_file(&format!("{}/go", sync), 10_000) {
        say("err=never_started".into());
        return;
    }
    sched::begin(&Mode::Random { seed: vkit::mix(seed, t as u64), permille: if seed % 3 == 0 { 0 } else { 200 } }, 1);
    sched::enter(0);
    let mine = 10 + t;
    let mut handle = None;
    let line = match role {
        Role::Create | Role::OpenOrCreate => {
            let how = if role == Role::Create || pat == Pat::Blackboard { "create" } else { "open_or_create" };
            let r = call::<S>(pat, role, &node, &sname, mine);
            let _ = std::fs::write(format!("{}/cd_{}", sync, t), b"");
            match r {
                Ok((m, usable, h)) => {
                    handle = Some(h);
                    format!("got={}:{}:{}", how, m, usable)
                }
                Err(e) => format!("err={}:{}", how, e),
            }
        }
        Role::Open => {
            let mut seen: Vec<String> = Vec::new();
            let mut tries = 0;
            loop {
                tries += 1;
                let fin = std::fs::read_dir(sync).map(|rd| rd.flatten().filter(|e| e.file_name().to_string_lossy().starts_with("cd_")).count()).unwrap_or(0) >= creators_total;
                match call::<S>(pat, role, &node, &sname, mine) {
                    Ok((m, usable, h)) => {
                        handle = Some(h);
                        break format!("got=open:{}:{}", m, usable);
                    }
                    Err(e) => {
                        let es = format!("open:{}", e);
                        if !seen.contains(&es) {
                            seen.push(es);
                        }
                        if fin || tries > 20_000 {
                            break format!("err={}", seen.join("|"));
                        }
                    }
                }
            }
        }
    };
    sched::leave();
    sched::end();
    say(line);
    wait_file(&format!("{}/drop", sync), 20_000);
    drop(handle);
    drop(node);
    say("dropped".into());
}

/// one process-level race; returns (violations, nontrivial, observed hash, inconclusive)
pub fn proc_race(exe: &std::path::Path, d: &crate::dom::Domain, cfg: &RaceCfg, tag: u64, seed: u64) -> (Vec<(String, String)>, bool, u64, Option<String>) {
    use std::io::{BufRead, BufReader};
    use std::process::{Command, Stdio};
    type S = iceoryx2::service::ipc::Service;
    let name = format!("prace_{}_{}", std::process::id(), tag);
    let sync = format!("{}/sync_{}", d.root, tag);
    let _ = std::fs::create_dir_all(&sync);
    let creators_total = cfg.roles.iter().filter(|r| **r != Role::Open).count();
    let mut kids = Vec::new();
    for (t, role) in cfg.roles.iter().enumerate() {
        let child = Command::new(exe)
            .args(["c06child", &d.root, &d.prefix, &sync, &name, &format!("{:?}", cfg.pat), &format!("{:?}", role), &t.to_string(), &creators_total.to_string(), &seed.to_string()])
            .stdout(Stdio::piped())
            .stderr(Stdio::null())
            .spawn()
            .unwrap();
        kids.push(child);
    }
    let mut readers: Vec<BufReader<std::process::ChildStdout>> = kids.iter_mut().map(|k| BufReader::new(k.stdout.take().unwrap())).collect();
    let mut read = |i: usize| -> String {
        let mut l = String::new();
        let _ = readers[i].read_line(&mut l);
        l.trim().to_string()
    };
    let mut inconclusive = None;
    for i in 0..kids.len() {
        if read(i) != "ready" {
            inconclusive = Some(format!("child {} did not get ready", i));
        }
    }
    let _ = std::fs::write(format!("{}/go", sync), b"");
    let mut outs: Vec<(usize, Out)> = Vec::new();
    for i in 0..kids.len() {
        let l = read(i);
        if let Some(g) = l.strip_prefix("got=") {
            let p: Vec<&str> = g.split(':').collect();
            let how: &'static str = match p[0] {
                "create" => "create",
                "open" => "open",
                _ => "open_or_create",
            };
            outs.push((i, Out::Got(how, p[1].parse().unwrap_or(0), p[2] == "true")));
        } else if let Some(e) = l.strip_prefix("err=") {
            outs.push((i, Out::Err(e.to_string())));
        } else {
            inconclusive = Some(format!("child {} said {:?}", i, l));
        }
    }
    let mut notes: Vec<(String, String)> = Vec::new();
    let sname: ServiceName = name.as_str().try_into().unwrap();
    let held = outs.iter().any(|o| matches!(o.1, Out::Got(..)));
    if inconclusive.is_none() {
        let exists = S::does_exist(&sname, &d.config, cfg.pat.messaging_pattern());
        if exists != Ok(held) {
            notes.push(("existence_wrong".into(), format!("handles held = {} but does_exist = {:?}", held, exists)));
        }
        if held {
            let node = NodeBuilder::new().config(&d.config).create::<S>().unwrap();
            if let Err(e) = call::<S>(cfg.pat, Role::Open, &node, &sname, 0) {
                notes.push(("open_of_existing_service_failed".into(), e));
            }
        }
    }
    let _ = std::fs::write(format!("{}/drop", sync), b"");
    for (i, k) in kids.iter_mut().enumerate() {
        let l = read(i);
        let st = k.wait();
        if l != "dropped" || !st.as_ref().map(|s| s.success()).unwrap_or(false) {
            if inconclusive.is_none() {
                notes.push(("racer_process_failed".into(), format!("racer {} ({:?}) ended with {:?} / {:?}", i, cfg.roles[i], l, st)));
            }
        }
    }
    let _ = std::fs::remove_dir_all(&sync);
    if inconclusive.is_none() {
        let exists = S::does_exist(&sname, &d.config, cfg.pat.messaging_pattern());
        if exists != Ok(false) {
            notes.push(("service_outlives_last_user".into(), format!("does_exist = {:?} after every racer process dropped its handle", exists)));
        }
        let rest: Vec<String> = d.residue().into_iter().filter(|f| f.contains("service") || f.contains("dynamic")).collect();
        if !rest.is_empty() {
            notes.push(("residue_after_last_user".into(), format!("{:?}", &rest[..rest.len().min(5)])));
        }
        let node = NodeBuilder::new().config(&d.config).create::<S>().unwrap();
        match recreate::<S>(cfg.pat, &node, &sname) {
            Ok(99) => {}
            Ok(m) => notes.push(("stale_settings_after_recreation".into(), format!("re-created service shows setting {}", m))),
            Err(e) => notes.push(("name_not_reusable".into(), e)),
        }
        notes.extend(judge(cfg, &outs));
    }
    let mut obs = 0u64;
    for (t, o) in &outs {
        obs = vkit::mix(obs, (*t as u64) << 8 | matches!(o, Out::Got(..)) as u64);
    }
    let nontrivial = outs.iter().filter(|o| matches!(o.1, Out::Got(..))).count() >= 2 || outs.iter().any(|o| matches!(&o.1, Out::Err(e) if e.contains("AlreadyExists") || e.contains("IsBeingCreated")));
    (notes, nontrivial, obs, inconclusive)
}

// ---------------------------------------------------------------------------------------------
// last user leaves while others open: the service must not vanish under somebody who obtained it

pub fn execute_drop_race<S: Service + 'static>(config: &iceoryx2::config::Config, pat: Pat, openers: usize, mode: &Mode, tag: u64, residue: &(dyn Fn() -> Vec<String> + Sync)) -> ExecResult
where
    S: Sync,
{
    use std::sync::atomic::{AtomicBool, Ordering::SeqCst};
    let name = format!("drace_{}_{}", vkit::proc_token(), tag);
    let created = AtomicBool::new(false);
    let creator_gone = AtomicBool::new(false);
    let start = Barrier::new(openers + 1);
    let finish = Barrier::new(openers + 1);
    let notes: Mutex<Vec<(String, String)>> = Mutex::new(Vec::new());
    let outcomes: Mutex<Vec<String>> = Mutex::new(Vec::new());
    let saw_corrupted = AtomicUsize::new(0);
    let mut bodies: Vec<Box<dyn FnOnce() + Send>> = Vec::new();
    {
        let (created, creator_gone, start, finish, notes, name) = (&created, &creator_gone, &start, &finish, &notes, name.clone());
        bodies.push(Box::new(move || {
            // set-up is not part of the race: no stall positions there
            let node = sched::unhooked(|| NodeBuilder::new().config(config).create::<S>().unwrap());
            let sname: ServiceName = name.as_str().try_into().unwrap();
            let h = sched::unhooked(|| match call::<S>(pat, Role::Create, &node, &sname, 10) {
                Ok((_, _, h)) => Some(h),
                Err(e) => {
                    notes.lock().unwrap().push(("creation_failed".into(), e));
                    None
                }
            });
            created.store(true, SeqCst);
            start.wait();
            // the last (so far only) user leaves while the others are opening
            drop(h);
            drop(node);
            creator_gone.store(true, SeqCst);
            finish.wait();
        }));
    }
    for t in 0..openers {
        let (created, creator_gone, start, finish, notes, outcomes, name, saw_corrupted) = (&created, &creator_gone, &start, &finish, &notes, &outcomes, name.clone(), &saw_corrupted);
        bodies.push(Box::new(move || {
            let node = sched::unhooked(|| NodeBuilder::new().config(config).create::<S>().unwrap());
            let witness_node = sched::unhooked(|| NodeBuilder::new().config(config).create::<S>().unwrap());
            let sname: ServiceName = name.as_str().try_into().unwrap();
            while !created.load(SeqCst) {
                std::thread::yield_now();
            }
            start.wait();
            let mut handle = None;
            let mut last_err = String::new();
            for _ in 0..2000 {
                let gone = creator_gone.load(SeqCst);
                match call::<S>(pat, Role::Open, &node, &sname, 0) {
                    Ok((m, usable, h)) => {
                        // somebody who obtained the service is a user: it must exist, be complete and be openable by others
                        if m != 10 || !usable {
                            notes.lock().unwrap().push(("half_initialised_service".into(), format!("opener {} got setting {} usable {}", t, m, usable)));
                        }
                        let exists = S::does_exist(&sname, config, pat.messaging_pattern());
                        if exists != Ok(true) {
                            notes.lock().unwrap().push(("service_vanished_under_user".into(), format!("opener {} holds the service (open returned Ok while the last other user was leaving) but does_exist = {:?}", t, exists)));
                        }
                        if let Err(e) = call::<S>(pat, Role::Open, &witness_node, &sname, 0) {
                            notes.lock().unwrap().push(("service_vanished_under_user".into(), format!("opener {} holds the service but a further node cannot open it: {}", t, e)));
                        }
                        handle = Some(h);
                        break;
                    }
                    Err(e) => {
                        // ServiceInCorruptedState ("resources missing") is what an opener reports that finds the static
                        // config still there while the leaving last user has already removed the pattern's resources
                        // (seen with the blackboard): a documented error of the enum, no handle is handed out
                        if e == "ServiceInCorruptedState" {
                            saw_corrupted.fetch_add(1, Relaxed);
                        } else if !(e == "DoesNotExist" || e == "IsMarkedForDestruction") {
                            notes.lock().unwrap().push(("undocumented_race_error".into(), format!("opener {} racing the last user's drop: {}", t, e)));
                            break;
                        }
                        last_err = e;
                        if gone {
                            break;
                        }
                    }
                }
            }
            outcomes.lock().unwrap().push(if handle.is_some() { "Ok".to_string() } else { last_err });
            finish.wait();
            drop(handle);
            drop(witness_node);
            drop(node);
        }));
    }
    let stats = sched::run_threads(mode, bodies);
    let mut viol: Vec<(String, String, String)> = notes.into_inner().unwrap().into_iter().map(|(r, m)| (r.clone(), format!("droprace:{}", r), m)).collect();
    let sname: ServiceName = name.as_str().try_into().unwrap();
    let exists = S::does_exist(&sname, config, pat.messaging_pattern());
    if exists != Ok(false) {
        viol.push(("service_outlives_last_user".into(), "droprace:service_outlives_last_user".into(), format!("does_exist = {:?} after every handle was dropped", exists)));
    }
    let rest = residue();
    if !rest.is_empty() {
        viol.push(("residue_after_last_user".into(), "droprace:residue_after_last_user".into(), format!("{:?}", &rest[..rest.len().min(5)])));
    }
    let node = NodeBuilder::new().config(config).create::<S>().unwrap();
    match recreate::<S>(pat, &node, &sname) {
        Ok(99) => {}
        Ok(m) => viol.push(("stale_settings_after_recreation".into(), "droprace:stale_settings_after_recreation".into(), format!("re-created service shows setting {}", m))),
        Err(e) => viol.push(("name_not_reusable".into(), "droprace:name_not_reusable".into(), e)),
    }
    let outs = outcomes.into_inner().unwrap();
    let mut obs = 0u64;
    for o in &outs {
        obs = vkit::mix(obs, vkit::fnv_str(o));
    }
    // non-trivial: the race was a race (somebody got in, or somebody was turned away by the destruction mark)
    let nontrivial = outs.iter().any(|o| o == "Ok") || outs.iter().any(|o| o == "IsMarkedForDestruction") || saw_corrupted.load(Relaxed) > 0;
    ExecResult { stats, violations: viol, nontrivial, observed: vkit::mix(obs, saw_corrupted.load(Relaxed) as u64), inconclusive: false }
}
