//! C11 — request-response: responses reach exactly the request they answer.
//!
//! Sequential histories over 1..2 clients x 1..2 servers with overlapping requests, biased to
//! the reuse pattern "pending response dropped while responses are still queued, next request
//! takes the same channel".  Every request and response carries a unique id + checksum; the
//! monitor checks after every step:
//!   R1 a response obtained through a pending response answers exactly that request
//!   R2 per (request, server) stream responses are in order, at most once
//!   R3 a server receives a request at most once, unaltered, per-client in order
//!   R4 (quiescent) no request with a live pending response and no response with both ends alive
//!      and free buffer space is lost
//!   R5 dropping either end is observed by the other (`is_connected`)
//!   R7 limits: active requests per client, borrowed responses, response buffer
use crate::ps::{check_payload, payload, P};
use iceoryx2::active_request::ActiveRequest;
use iceoryx2::pending_response::PendingResponse;
use iceoryx2::port::client::{Client, RequestSendError};
use iceoryx2::port::server::Server;
use iceoryx2::port::ReceiveError;
use iceoryx2::prelude::*;
use iceoryx2::response::Response;
use iceoryx2::service::Service;
use std::collections::BTreeMap;
use vkit::Rng;

#[derive(Debug, Clone, Copy)]
pub struct RCfg {
    pub clients: usize,
    pub servers: usize,
    pub max_active: usize,
    pub resp_buf: usize,
    pub borrow: usize,
    pub overflow_resp: bool,
    pub fire_and_forget: bool,
}

impl RCfg {
    pub fn random(rng: &mut Rng) -> RCfg {
        RCfg {
            clients: rng.range(1, 2) as usize,
            servers: rng.range(1, 2) as usize,
            max_active: rng.range(1, 3) as usize,
            resp_buf: rng.range(1, 4) as usize,
            borrow: rng.range(1, 3) as usize,
            overflow_resp: rng.chance(1, 2),
            fire_and_forget: rng.chance(1, 3),
        }
    }
    pub fn key(&self) -> String {
        format!("c{}s{}a{}r{}b{}o{}f{}", self.clients, self.servers, self.max_active, self.resp_buf, self.borrow, self.overflow_resp as u8, self.fire_and_forget as u8)
    }
}

fn resp_id(rid: u64, server: usize, k: u64) -> u64 {
    // rid = client(8) | n(24)   -> resp = rid(32) | server(8) | k(24)
    (rid << 32) | ((server as u64) << 24) | k
}

struct Pend<S: Service> {
    rid: u64,
    /// response channel of this request (parsed from the Debug output of the request header)
    ch: u64,
    client: usize,
    p: PendingResponse<S, P, (), P, ()>,
    /// last k received per server
    last_k: BTreeMap<usize, u64>,
    received: u64,
    borrowed: usize,
    servers_at_send: usize,
}
struct Act<S: Service> {
    rid: u64,
    server: usize,
    a: ActiveRequest<S, P, (), P, ()>,
    next_k: u64,
    /// responses sent while the pending response was alive
    sent_live: u64,
}

pub struct ROutcome {
    pub steps: usize,
    pub events: BTreeMap<&'static str, u64>,
    pub mismatch: Option<(String, String)>,
    pub trace_sample: Vec<String>,
    pub shape: u64,
}

pub type Script = Vec<(u64, u64, u64)>;

pub fn gen_script(rng: &mut Rng, steps: usize) -> Script {
    (0..steps).map(|_| (rng.below(100), rng.next() >> 8, rng.next() >> 8)).collect()
}

static SVC_CTR: std::sync::atomic::AtomicU64 = std::sync::atomic::AtomicU64::new(0);

pub fn run_history<S: Service>(config: &iceoryx2::config::Config, cfg: RCfg, script: &Script, tag: &str) -> ROutcome {
    let mut events: BTreeMap<&'static str, u64> = BTreeMap::new();
    let mut out = ROutcome { steps: 0, events: BTreeMap::new(), mismatch: None, trace_sample: Vec::new(), shape: 0 };
    let mut trace: Vec<String> = Vec::new();
    macro_rules! ev {
        ($k:expr) => {
            *events.entry($k).or_default() += 1
        };
    }
    macro_rules! fail {
        ($rule:expr, $($a:tt)*) => {{
            let t0 = trace.len().saturating_sub(std::env::var("VERIF_TRACE_TAIL").ok().and_then(|v| v.parse().ok()).unwrap_or(30));
            out.mismatch = Some(($rule.to_string(), format!("cfg {:?} step {}: {} | trace tail: {}", cfg, trace.len(), format!($($a)*), trace[t0..].join(" "))));
            out.steps = trace.len();
            out.events = events;
            return out;
        }};
    }
    let node = NodeBuilder::new().config(config).create::<S>().unwrap();
    let name = format!("rr_{}_{}_{}", tag, std::process::id(), SVC_CTR.fetch_add(1, std::sync::atomic::Ordering::Relaxed));
    let svc = match node
        .service_builder(&name.as_str().try_into().unwrap())
        .request_response::<P, P>()
        .max_clients(cfg.clients)
        .max_servers(cfg.servers)
        .max_active_requests_per_client(cfg.max_active)
        .max_response_buffer_size(cfg.resp_buf)
        .max_borrowed_responses_per_pending_response(cfg.borrow)
        .enable_safe_overflow_for_responses(cfg.overflow_resp)
        .enable_safe_overflow_for_requests(false)
        .enable_fire_and_forget_requests(cfg.fire_and_forget)
        .create()
    {
        Ok(s) => s,
        Err(e) => {
            out.mismatch = Some(("service_create_failed".into(), format!("cfg {:?}: {:?}", cfg, e)));
            return out;
        }
    };
    let servers: Vec<Server<S, P, (), P, ()>> = (0..cfg.servers).map(|_| svc.server_builder().backpressure_strategy(BackpressureStrategy::DiscardData).max_loaned_responses_per_request(2).create().unwrap()).collect();
    let clients: Vec<Client<S, P, (), P, ()>> = (0..cfg.clients).map(|_| svc.client_builder().backpressure_strategy(BackpressureStrategy::DiscardData).create().unwrap()).collect();
    let mut next_n: Vec<u64> = vec![0; cfg.clients];
    let mut pend: Vec<Pend<S>> = Vec::new();
    let mut act: Vec<Act<S>> = Vec::new();
    let mut held: Vec<(u64, usize, Response<S, P, ()>)> = Vec::new(); // (rid, pend index is unstable -> store rid), client
    // requests a server must still receive: (rid, server) -> still owed
    let mut owed: BTreeMap<(u64, usize), bool> = BTreeMap::new();
    // model of the request buffers (capacity max_active per client/server pair, dead entries stay
    // until the server's receive reaches them) and of the responses queued per (request, server)
    let mut req_q: BTreeMap<(usize, usize), Vec<u64>> = BTreeMap::new();
    // physical content of every response channel buffer: (client, channel, server) -> [(request, k)];
    // entries of requests whose pending response is gone are stale: they stay (and occupy space) until a
    // receive on the channel's next owner skips them
    let mut chan_q: BTreeMap<(usize, u64, usize), std::collections::VecDeque<(u64, u64)>> = BTreeMap::new();
    // queues whose stale entries may or may not have been skipped already (several servers)
    let mut chan_uncertain: std::collections::BTreeSet<(usize, u64, usize)> = std::collections::BTreeSet::new();
    let mut resp_borrowed: BTreeMap<(u64, usize), usize> = BTreeMap::new();
    let mut partially_delivered: Vec<u64> = Vec::new();
    // after a partial delivery the model no longer knows which request buffers hold what
    let mut uncertain: std::collections::BTreeSet<(usize, usize)> = std::collections::BTreeSet::new();
    let mut seen_by_server: BTreeMap<(u64, usize), u64> = BTreeMap::new();
    let mut last_n_per_pair: BTreeMap<(usize, usize), u64> = BTreeMap::new();
    // responses in flight per (rid, server): sent while both alive and not yet received
    let mut in_flight: BTreeMap<(u64, usize), Vec<u64>> = BTreeMap::new();

    for (op, r1, r2) in script.iter().copied() {
        let _ = r2;
        match op {
            0..=24 => {
                // client sends a request
                let c = (r1 % cfg.clients as u64) as usize;
                let active = pend.iter().filter(|p| p.client == c).count();
                next_n[c] += 1;
                let rid = ((c as u64 + 1) << 24) | next_n[c];
                let r = clients[c].send_copy(payload(rid));
                match r {
                    Ok(p) => {
                        if active >= cfg.max_active {
                            fail!("limit_not_enforced", "request {} of client {} accepted with {} active requests (max {})", next_n[c], c, active, cfg.max_active);
                        }
                        let nsrv = p.number_of_server_connections();
                        let certainly_free = (0..cfg.servers).filter(|s| !uncertain.contains(&(c, *s)) && req_q.get(&(c, *s)).map(|q| q.len()).unwrap_or(0) < cfg.max_active).count();
                        if nsrv > cfg.servers || nsrv < certainly_free {
                            fail!("request_not_delivered", "request #{:x} reached {} servers; {} of {} servers certainly had buffer space", rid, nsrv, certainly_free, cfg.servers);
                        }
                        trace.push(format!("Send{c}(#{:x})->{}", rid, nsrv));
                        if nsrv == cfg.servers {
                            for s in 0..cfg.servers {
                                owed.insert((rid, s), true);
                                req_q.entry((c, s)).or_default().push(rid);
                            }
                        } else {
                            // discarded at some server with a full request buffer (documented discard); which one is not observable
                            partially_delivered.push(rid);
                            for s in 0..cfg.servers {
                                uncertain.insert((c, s));
                            }
                            ev!("request_discarded_on_full_server_buffer");
                        }
                        let hdr = format!("{:?}", p.header());
                        let ch = hdr.split("channel_id: ChannelId(").nth(1).and_then(|x| x.split(')').next()).and_then(|x| x.trim().parse::<u64>().ok());
                        let ch = match ch {
                            Some(v) => v,
                            None => fail!("harness_cannot_read_channel_id", "request header debug output has no channel id: {}", hdr),
                        };
                        if let Some(other) = pend.iter().find(|q| q.client == c && q.ch == ch) {
                            fail!("channel_shared_by_two_requests", "request #{:x} got response channel {} which the live request #{:x} still uses", rid, ch, other.rid);
                        }
                        pend.push(Pend { rid, ch, client: c, p, last_k: BTreeMap::new(), received: 0, borrowed: 0, servers_at_send: nsrv });
                        ev!("request_sent");
                    }
                    Err(RequestSendError::ExceedsMaxActiveRequests) => {
                        trace.push(format!("Send{c}->ExceedsMaxActiveRequests"));
                        if active < cfg.max_active {
                            fail!("limit_wrong_error", "request refused with ExceedsMaxActiveRequests at {} of {} active requests", active, cfg.max_active);
                        }
                        ev!("limit_active_requests_enforced");
                    }
                    Err(RequestSendError::SendError(iceoryx2::port::SendError::LoanError(iceoryx2::port::LoanError::OutOfMemory))) if active >= cfg.max_active => {
                        fail!("out_of_memory_instead_of_exceeds_max_active_requests", "request beyond the active-request limit ({} of {}) was refused with LoanError::OutOfMemory instead of ExceedsMaxActiveRequests", active, cfg.max_active)
                    }
                    Err(e) => fail!("request_send_failed_inside_limits", "send_copy failed with {:?} ({} active of max {})", e, active, cfg.max_active),
                }
            }
            25..=44 => {
                // server receives a request
                let s = (r1 % cfg.servers as u64) as usize;
                match servers[s].receive() {
                    Ok(Some(a)) => {
                        let rid = match check_payload(a.payload()) {
                            Some(v) => v,
                            None => fail!("payload_corrupted", "server {} received a corrupted request {:?}", s, a.payload()),
                        };
                        trace.push(format!("SrvRecv{s}->#{:x}", rid));
                        let c = ((rid >> 24) as usize).wrapping_sub(1);
                        if c >= cfg.clients || (rid & 0xff_ffff) > next_n[c] || (rid & 0xff_ffff) == 0 {
                            fail!("invented_request", "server {} received request #{:x} that was never sent", s, rid);
                        }
                        let cnt = seen_by_server.entry((rid, s)).or_default();
                        *cnt += 1;
                        if *cnt > 1 {
                            fail!("request_received_twice", "server {} received request #{:x} twice", s, rid);
                        }
                        let last = last_n_per_pair.entry((c, s)).or_default();
                        if (rid & 0xff_ffff) <= *last {
                            fail!("request_order", "server {} received request #{:x} after #{:x} of the same client", s, rid, *last);
                        }
                        *last = rid & 0xff_ffff;
                        owed.remove(&(rid, s));
                        if !partially_delivered.contains(&rid) && !uncertain.contains(&(c, s)) {
                            let q = req_q.entry((c, s)).or_default();
                            match q.iter().position(|x| *x == rid) {
                                None => fail!("invented_request", "server {} received request #{:x} which the model does not have in that connection", s, rid),
                                Some(pos) => {
                                    // everything skipped must be a request whose pending response is gone
                                    for skipped in q.drain(..=pos).take(pos) {
                                        if pend.iter().any(|p| p.rid == skipped) {
                                            fail!("request_lost", "server {} skipped request #{:x} although its pending response is alive", s, skipped);
                                        }
                                    }
                                }
                            }
                        }
                        let alive = pend.iter().any(|p| p.rid == rid);
                        if a.is_connected() != alive {
                            fail!("disconnect_not_observed", "active request #{:x}: is_connected() = {} but the pending response is {}", rid, a.is_connected(), if alive { "alive" } else { "dropped" });
                        }
                        act.push(Act { rid, server: s, a, next_k: 0, sent_live: 0 });
                        ev!("request_received");
                    }
                    Ok(None) => {
                        trace.push(format!("SrvRecv{s}->None"));
                        // a request whose pending response is alive must not be lost
                        if let Some(((rid, _), _)) = owed.iter().find(|((rid, srv), _)| *srv == s && pend.iter().any(|p| p.rid == *rid)) {
                            fail!("request_lost", "server {} has nothing to receive but request #{:x} (pending response alive) never reached it", s, rid);
                        }
                        if cfg.fire_and_forget {
                            if let Some(((rid, _), _)) = owed.iter().find(|((_, srv), _)| *srv == s) {
                                fail!("request_lost", "fire-and-forget: server {} has nothing to receive but request #{:x} never reached it", s, rid);
                            }
                        }
                        for c in 0..cfg.clients {
                            req_q.remove(&(c, s));
                            uncertain.remove(&(c, s));
                        }
                        owed.retain(|(_, srv), _| *srv != s);
                    }
                    Err(ReceiveError::ExceedsMaxBorrows) => {
                        trace.push(format!("SrvRecv{s}->ExceedsMaxBorrows"));
                        ev!("limit_active_requests_at_server");
                        // legitimate only if the server holds max_active active requests of some client
                        let mut per_client: BTreeMap<usize, usize> = BTreeMap::new();
                        for a in act.iter().filter(|a| a.server == s) {
                            *per_client.entry(((a.rid >> 24) as usize) - 1).or_default() += 1;
                        }
                        if !per_client.values().any(|n| *n >= cfg.max_active) {
                            fail!("limit_wrong_error", "server receive refused with ExceedsMaxBorrows but it holds {:?} active requests per client (max {})", per_client, cfg.max_active);
                        }
                    }
                    Err(e) => fail!("receive_failed", "server receive: {:?}", e),
                }
            }
            45..=64 => {
                // server sends a response on one of its active requests
                if act.is_empty() {
                    continue;
                }
                let i = (r1 % act.len() as u64) as usize;
                let (rid, s) = (act[i].rid, act[i].server);
                act[i].next_k += 1;
                let k = act[i].next_k;
                let id = resp_id(rid, s, k);
                let alive = pend.iter().any(|p| p.rid == rid);
                let r = if r2 % 3 == 0 {
                    match act[i].a.loan_uninit() {
                        Ok(l) => l.write_payload(payload(id)).send(),
                        Err(e) => fail!("loan_failed_inside_limits", "response loan failed: {:?}", e),
                    }
                } else {
                    act[i].a.send_copy(payload(id))
                };
                trace.push(format!("Resp{s}(#{:x},k{k}){}", rid, if r.is_ok() { "" } else { "->Err" }));
                if let Err(e) = &r {
                    fail!("response_send_failed", "sending a response failed: {:?} (pending response alive: {})", e, alive);
                }
                if alive {
                    act[i].sent_live += 1;
                    let q = in_flight.entry((rid, s)).or_default();
                    q.push(k);
                    let (pc, pch) = pend.iter().find(|p| p.rid == rid).map(|p| (p.client, p.ch)).unwrap();
                    let key = (pc, pch, s);
                    let mut must_be_visible = false;
                    if !chan_uncertain.contains(&key) {
                        let rq = chan_q.entry(key).or_default();
                        if rq.len() == cfg.resp_buf {
                            if cfg.overflow_resp {
                                rq.pop_front();
                                rq.push_back((rid, k));
                                must_be_visible = true;
                                ev!("response_overflow_eviction");
                            } else {
                                ev!("response_discarded_on_full_buffer");
                                if rq.iter().any(|e| e.0 != rid) {
                                    ev!("response_discarded_because_of_stale_responses_in_reused_channel");
                                }
                            }
                        } else {
                            rq.push_back((rid, k));
                            must_be_visible = true;
                        }
                    }
                    ev!("response_sent");
                    if must_be_visible {
                        if let Some(p) = pend.iter().find(|p| p.rid == rid) {
                            if !p.p.has_response() {
                                fail!("response_lost", "request #{:x}: response k{} of server {} was queued but has_response() is false right afterwards", rid, k, s);
                            }
                        }
                    }
                } else {
                    ev!("response_sent_after_client_dropped");
                }
            }
            65..=84 => {
                // client receives on one of its pending responses
                if pend.is_empty() {
                    continue;
                }
                let i = (r1 % pend.len() as u64) as usize;
                let rid = pend[i].rid;
                let r = pend[i].p.receive();
                match r {
                    Ok(Some(resp)) => {
                        let id = match check_payload(resp.payload()) {
                            Some(v) => v,
                            None => fail!("payload_corrupted", "pending response #{:x} received a corrupted response {:?}", rid, resp.payload()),
                        };
                        let (r_rid, r_srv, r_k) = (id >> 32, ((id >> 24) & 0xff) as usize, id & 0xff_ffff);
                        trace.push(format!("CliRecv(#{:x})->(#{:x},s{},k{})", rid, r_rid, r_srv, r_k));
                        if r_rid != rid {
                            fail!("response_to_wrong_request", "pending response of request #{:x} received a response that answers request #{:x}", rid, r_rid);
                        }
                        let last = pend[i].last_k.entry(r_srv).or_default();
                        if r_k <= *last {
                            fail!("response_order_or_duplicate", "request #{:x}: response k{} of server {} after k{}", rid, r_k, r_srv, *last);
                        }
                        *last = r_k;
                        if let Some(q) = in_flight.get_mut(&(rid, r_srv)) {
                            if !q.contains(&r_k) {
                                fail!("invented_response", "request #{:x}: response k{} of server {} was never sent (or sent before this request existed)", rid, r_k, r_srv);
                            }
                            q.retain(|x| *x > r_k);
                        } else {
                            fail!("invented_response", "request #{:x}: response from server {} which never answered it", rid, r_srv);
                        }
                        let (pc, pch) = (pend[i].client, pend[i].ch);
                        let key = (pc, pch, r_srv);
                        if !chan_uncertain.contains(&key) {
                            let q = chan_q.entry(key).or_default();
                            while q.front().map(|e| e.0 != rid).unwrap_or(false) {
                                q.pop_front();
                                ev!("stale_response_skipped_in_reused_channel");
                            }
                            match q.pop_front() {
                                Some(head) if head == (rid, r_k) => {}
                                other => fail!("response_order_or_loss", "request #{:x}: received k{} of server {} but the model head of that stream is {:?}", rid, r_k, r_srv, other),
                            }
                        }
                        // stale heads in the channel queues of other servers may or may not have been skipped on the way
                        for s2 in 0..cfg.servers {
                            if s2 != r_srv && chan_q.get(&(pc, pch, s2)).map(|q| q.front().map(|e| e.0 != rid).unwrap_or(false)).unwrap_or(false) {
                                chan_uncertain.insert((pc, pch, s2));
                            }
                        }
                        pend[i].received += 1;
                        let b = resp_borrowed.entry((rid, r_srv)).or_default();
                        if *b >= cfg.borrow {
                            fail!("limit_not_enforced", "response borrowed beyond max_borrowed_responses_per_pending_response={} on one connection", cfg.borrow);
                        }
                        *b += 1;
                        pend[i].borrowed += 1;
                        held.push((rid, pend[i].client, resp));
                        ev!("response_received");
                    }
                    Ok(None) => {
                        trace.push(format!("CliRecv(#{:x})->None", rid));
                        let (pc, pch) = (pend[i].client, pend[i].ch);
                        for s2 in 0..cfg.servers {
                            let key = (pc, pch, s2);
                            if !chan_uncertain.contains(&key) {
                                if let Some(q) = chan_q.get(&key) {
                                    if let Some(e) = q.iter().find(|e| e.0 == rid) {
                                        fail!("response_lost", "request #{:x}: receive returned None but response k{} of server {} is queued in the model", rid, e.1, s2);
                                    }
                                }
                            }
                            // None means the channel is drained: stale entries were skipped, nothing else is left
                            chan_q.remove(&key);
                            chan_uncertain.remove(&key);
                        }
                    }
                    Err(ReceiveError::ExceedsMaxBorrows) => {
                        trace.push(format!("CliRecv(#{:x})->ExceedsMaxBorrows", rid));
                        let (pc, pch) = (pend[i].client, pend[i].ch);
                        let has = |s2: usize| chan_uncertain.contains(&(pc, pch, s2)) || chan_q.get(&(pc, pch, s2)).map(|q| q.iter().any(|e| e.0 == rid)).unwrap_or(false);
                        let blocked = (0..cfg.servers).any(|s2| has(s2) && *resp_borrowed.get(&(rid, s2)).unwrap_or(&0) >= cfg.borrow);
                        if !blocked {
                            fail!("limit_wrong_error", "ExceedsMaxBorrows although no connection with queued responses is at its borrow limit ({} borrowed in total, limit {} per connection)", pend[i].borrowed, cfg.borrow);
                        }
                        ev!("limit_borrowed_responses_enforced");
                    }
                    Err(e) => fail!("receive_failed", "pending response receive: {:?}", e),
                }
            }
            85..=89 => {
                // release a held response
                if !held.is_empty() {
                    let k = (r1 % held.len() as u64) as usize;
                    let (rid, _, resp) = held.remove(k);
                    if check_payload(resp.payload()).map(|x| x >> 32) != Some(rid) {
                        fail!("held_response_changed", "a held response of request #{:x} changed: {:?}", rid, resp.payload());
                    }
                    let srv = check_payload(resp.payload()).map(|x| ((x >> 24) & 0xff) as usize).unwrap_or(0);
                    drop(resp);
                    if let Some(p) = pend.iter_mut().find(|p| p.rid == rid) {
                        p.borrowed -= 1;
                        if let Some(b) = resp_borrowed.get_mut(&(rid, srv)) {
                            *b -= 1;
                        }
                    }
                    trace.push(format!("Release(#{:x})", rid));
                }
            }
            90..=95 => {
                // client drops a pending response (possibly with responses still queued): the reuse pattern
                if pend.is_empty() {
                    continue;
                }
                let i = (r1 % pend.len() as u64) as usize;
                let p = pend.remove(i);
                let queued: usize = in_flight.iter().filter(|((r, _), _)| *r == p.rid).map(|(_, q)| q.len()).sum();
                trace.push(format!("DropPending(#{:x},queued{})", p.rid, queued));
                if queued > 0 {
                    ev!("pending_dropped_with_queued_responses");
                }
                in_flight.retain(|(r, _), _| *r != p.rid);
                resp_borrowed.retain(|(r, _), _| *r != p.rid);
                held.retain(|h| h.0 != p.rid);
                let rid = p.rid;
                drop(p);
                for a in act.iter().filter(|a| a.rid == rid) {
                    if a.a.is_connected() {
                        fail!("disconnect_not_observed", "active request #{:x} still reports is_connected() after its pending response was dropped", rid);
                    }
                }
                ev!("pending_dropped");
            }
            _ => {
                // server drops an active request
                if act.is_empty() {
                    continue;
                }
                let i = (r1 % act.len() as u64) as usize;
                let a = act.remove(i);
                trace.push(format!("DropActive(#{:x},s{})", a.rid, a.server));
                let (rid, srv) = (a.rid, a.server);
                drop(a);
                ev!("active_dropped");
                let others = act.iter().any(|x| x.rid == rid);
                let _ = srv;
                let unreceived = partially_delivered.contains(&rid) || (0..cfg.servers).any(|s| seen_by_server.get(&(rid, s)).copied().unwrap_or(0) == 0);
                if let Some(p) = pend.iter().find(|p| p.rid == rid) {
                    let queued: usize = in_flight.iter().filter(|((r, _), _)| *r == rid).map(|(_, q)| q.len()).sum();
                    if !others && !unreceived && queued == 0 && p.p.is_connected() && p.servers_at_send > 0 {
                        fail!("disconnect_not_observed", "pending response #{:x} still reports is_connected() although every server dropped its active request and nothing is queued", rid);
                    }
                }
            }
        }
        for (rid, _, r) in &held {
            if check_payload(r.payload()).map(|x| x >> 32) != Some(*rid) {
                fail!("held_response_changed", "a held response of request #{:x} changed after the step: {:?}", rid, r.payload());
            }
        }
        // the request chunk an ActiveRequest refers to must not change while it is held (C02 for request payloads)
        for a in &act {
            if check_payload(a.a.payload()) != Some(a.rid) {
                fail!("held_request_changed", "the request #{:x} held by server {} through its ActiveRequest changed after step '{}': {:?}", a.rid, a.server, trace.last().cloned().unwrap_or_default(), a.a.payload());
            }
        }
        // a queued response must stay queued until it is received or its pending response is dropped
        for p in &pend {
            let queued = (0..cfg.servers).any(|s2| !chan_uncertain.contains(&(p.client, p.ch, s2)) && chan_q.get(&(p.client, p.ch, s2)).map(|q| q.iter().any(|e| e.0 == p.rid)).unwrap_or(false));
            if queued && !p.p.has_response() {
                fail!("queued_response_vanished", "request #{:x}: the model holds queued responses but has_response() turned false after step '{}'", p.rid, trace.last().cloned().unwrap_or_default());
            }
        }
    }
    // ---- quiescent drain: every owed request reaches its server, every in-flight response its request ----
    for s in 0..cfg.servers {
        let mut guard = 0;
        loop {
            guard += 1;
            if guard > 200 {
                break;
            }
            match servers[s].receive() {
                Ok(Some(a)) => {
                    let rid = check_payload(a.payload()).unwrap_or(0);
                    let cnt = seen_by_server.entry((rid, s)).or_default();
                    *cnt += 1;
                    if *cnt > 1 {
                        fail!("request_received_twice", "final drain: server {} received request #{:x} twice", s, rid);
                    }
                    owed.remove(&(rid, s));
                    drop(a);
                }
                Ok(None) => break,
                Err(ReceiveError::ExceedsMaxBorrows) => {
                    // release this server's active requests and continue
                    act.retain(|a| a.server != s);
                }
                Err(e) => fail!("receive_failed", "final drain server receive: {:?}", e),
            }
        }
        if let Some(((rid, _), _)) = owed.iter().find(|((rid, srv), _)| *srv == s && pend.iter().any(|p| p.rid == *rid)) {
            fail!("request_lost", "final drain: request #{:x} (pending response alive) never reached server {}", rid, s);
        }
    }
    held.clear();
    for p in pend.iter_mut() {
        p.borrowed = 0;
        let _ = p.received;
        let mut got = 0usize;
        let expected: usize = in_flight.iter().filter(|((r, _), _)| *r == p.rid).map(|(_, q)| q.len()).sum();
        loop {
            match p.p.receive() {
                Ok(Some(resp)) => {
                    let id = check_payload(resp.payload()).unwrap_or(0);
                    if id >> 32 != p.rid {
                        fail!("response_to_wrong_request", "final drain: pending response of #{:x} received a response answering #{:x}", p.rid, id >> 32);
                    }
                    let (srv, k) = (((id >> 24) & 0xff) as usize, id & 0xff_ffff);
                    let last = p.last_k.entry(srv).or_default();
                    if k <= *last {
                        fail!("response_order_or_duplicate", "final drain: request #{:x} response k{} after k{}", p.rid, k, *last);
                    }
                    *last = k;
                    got += 1;
                }
                Ok(None) => break,
                Err(e) => fail!("receive_failed", "final drain: {:?}", e),
            }
        }
        let certain = (0..cfg.servers).all(|s2| !chan_uncertain.contains(&(p.client, p.ch, s2)));
        let model: usize = (0..cfg.servers).map(|s2| chan_q.get(&(p.client, p.ch, s2)).map(|q| q.iter().filter(|e| e.0 == p.rid).count()).unwrap_or(0)).sum();
        if certain && got != model {
            fail!("response_lost", "final drain: request #{:x}: the model holds {} queued responses ({} were sent while both ends were alive), {} arrived", p.rid, model, expected, got);
        }
    }
    out.steps = trace.len();
    out.trace_sample = trace.iter().take(40).cloned().collect();
    let mut sh = vkit::fnv_str(&cfg.key());
    for (k, v) in &events {
        sh = vkit::mix(sh, vkit::fnv_str(k) ^ (*v).min(3));
    }
    out.shape = sh;
    out.events = events;
    out
}
