//! Concurrent publish-subscribe executions over one service (C01 pairwise delivery on logs; the
//! same binary under TSan gives happens-before evidence for payload publication).
use crate::ps::{check_payload, payload, P};
use iceoryx2::port::ReceiveError;
use iceoryx2::prelude::*;
use std::sync::atomic::{AtomicBool, AtomicUsize, Ordering::Relaxed};
use std::sync::Mutex;
use vkit::sched::{self, Mode};
use vkit::Rng;

#[derive(Debug, Clone, Copy)]
pub struct CCfg {
    pub buf: usize,
    pub hist: usize,
    pub overflow: bool,
    pub npub: usize,
    pub nsub: usize,
    pub sends: usize,
    pub loan_style: bool,
    pub borrow: usize,
}

impl CCfg {
    pub fn random(rng: &mut Rng) -> CCfg {
        let buf = rng.range(1, 4) as usize;
        CCfg { buf, hist: rng.below(buf as u64 + 1) as usize, overflow: rng.chance(1, 2), npub: rng.range(1, 2) as usize, nsub: rng.range(1, 2) as usize, sends: rng.range(5, 40) as usize, loan_style: rng.chance(1, 2), borrow: rng.range(1, 2) as usize }
    }
}

pub struct COutcome {
    pub violations: Vec<(String, String)>,
    pub sent: u64,
    pub received: u64,
    pub evicted_or_discarded: u64,
    pub concurrent: bool,
    pub sig: u64,
    pub observed: u64,
}

type S = iceoryx2::service::local_threadsafe::Service;

pub fn run(config: &iceoryx2::config::Config, cfg: CCfg, mode: &Mode, tag: u64) -> COutcome {
    let mut out = COutcome { violations: Vec::new(), sent: 0, received: 0, evicted_or_discarded: 0, concurrent: false, sig: 0, observed: 0 };
    let node = NodeBuilder::new().config(config).create::<S>().unwrap();
    let name = format!("psc_{}_{}", std::process::id(), tag);
    let svc = node
        .service_builder(&name.as_str().try_into().unwrap())
        .publish_subscribe::<P>()
        .subscriber_max_buffer_size(cfg.buf)
        .history_size(cfg.hist)
        .subscriber_max_borrowed_samples(cfg.borrow)
        .enable_safe_overflow(cfg.overflow)
        .max_publishers(cfg.npub)
        .max_subscribers(cfg.nsub)
        .create()
        .unwrap();
    let subs: Vec<_> = (0..cfg.nsub).map(|_| svc.subscriber_builder().create().unwrap()).collect();
    let pubs: Vec<_> = (0..cfg.npub).map(|_| svc.publisher_builder().backpressure_strategy(BackpressureStrategy::DiscardData).max_loaned_samples(2).create().unwrap()).collect();
    let done = AtomicUsize::new(0);
    let stop = AtomicBool::new(false);
    // per publisher: (id, recipients); per subscriber: received ids in order (with timestamps)
    let sent_log: Mutex<Vec<Vec<(u64, usize, u64, u64)>>> = Mutex::new(vec![Vec::new(); cfg.npub]);
    let recv_log: Mutex<Vec<Vec<(u64, u64, u64)>>> = Mutex::new(vec![Vec::new(); cfg.nsub]);
    let bad: Mutex<Vec<(String, String)>> = Mutex::new(Vec::new());
    let sigs: Mutex<Vec<u64>> = Mutex::new(Vec::new());
    let n = cfg.npub + cfg.nsub;
    sched::begin(mode, n);
    let bar = std::sync::Barrier::new(n);
    std::thread::scope(|sc| {
        let mut pub_handles = Vec::new();
        let mut sub_handles = Vec::new();
        for (pi, p) in pubs.into_iter().enumerate() {
            let (bar, done, sent_log, bad, sigs) = (&bar, &done, &sent_log, &bad, &sigs);
            pub_handles.push(sc.spawn(move || {
                bar.wait();
                sched::enter(pi);
                let mut log = Vec::new();
                for s in 1..=cfg.sends as u64 {
                    let id = ((pi as u64 + 1) << 32) | s;
                    let call = vkit::ts::now();
                    let r = if cfg.loan_style && s % 2 == 0 {
                        match p.loan_uninit() {
                            Ok(l) => l.write_payload(payload(id)).send(),
                            Err(e) => {
                                bad.lock().unwrap().push(("loan_failed_inside_limits".into(), format!("{:?}", e)));
                                break;
                            }
                        }
                    } else {
                        p.send_copy(payload(id))
                    };
                    match r {
                        Ok(nrec) => log.push((id, nrec, call, vkit::ts::now())),
                        Err(e) => {
                            bad.lock().unwrap().push(("send_failed_inside_limits".into(), format!("{:?}", e)));
                            break;
                        }
                    }
                }
                sigs.lock().unwrap().push(sched::leave().1);
                done.fetch_add(1, Relaxed);
                sent_log.lock().unwrap()[pi] = log;
                // the port is handed back: it must stay alive until the subscribers have drained
                p
            }));
        }
        for (si, sub) in subs.into_iter().enumerate() {
            let (bar, stop, recv_log, bad, sigs) = (&bar, &stop, &recv_log, &bad, &sigs);
            sub_handles.push(sc.spawn(move || {
                bar.wait();
                sched::enter(cfg.npub + si);
                let mut log = Vec::new();
                let mut held = Vec::new();
                loop {
                    let fin = stop.load(Relaxed);
                    let call = vkit::ts::now();
                    let rr = sub.receive();
                    match rr {
                        Ok(Some(s)) => {
                            match check_payload(s.payload()) {
                                Some(id) => log.push((id, call, vkit::ts::now())),
                                None => bad.lock().unwrap().push(("payload_corrupted".into(), format!("{:?}", s.payload()))),
                            }
                            held.push(s);
                            if held.len() >= cfg.borrow {
                                // re-verify before release: a borrowed sample must never change
                                for h in held.drain(..) {
                                    if check_payload(h.payload()).is_none() {
                                        bad.lock().unwrap().push(("held_sample_changed".into(), format!("{:?}", h.payload())));
                                    }
                                }
                            }
                        }
                        Ok(None) => {
                            if fin {
                                break;
                            }
                            std::thread::yield_now();
                        }
                        Err(ReceiveError::ExceedsMaxBorrows) => {
                            held.clear();
                        }
                        Err(e) => {
                            bad.lock().unwrap().push(("receive_failed".into(), format!("{:?}", e)));
                            break;
                        }
                    }
                }
                sigs.lock().unwrap().push(sched::leave().1);
                recv_log.lock().unwrap()[si] = log;
            }));
        }
        // stopper: when all publishers are done the subscribers do their final drain
        while done.load(Relaxed) < cfg.npub {
            std::thread::yield_now();
        }
        stop.store(true, Relaxed);
        for h in sub_handles {
            let _ = h.join();
        }
        let ports: Vec<_> = pub_handles.into_iter().map(|h| h.join()).collect();
        drop(ports);
    });
    let (reached, effective) = sched::end();
    let _ = (reached, effective);
    let mut sg = sigs.into_inner().unwrap();
    sg.sort();
    out.sig = sg.iter().fold(0, |a, b| vkit::mix(a, *b));
    let sent_log = sent_log.into_inner().unwrap();
    let recv_log = recv_log.into_inner().unwrap();
    out.violations = bad.into_inner().unwrap();
    let mut v = |rule: &str, msg: String| out.violations.push((rule.to_string(), msg));
    let mut total_recipients = 0u64;
    for (pi, sl) in sent_log.iter().enumerate() {
        out.sent += sl.len() as u64;
        total_recipients += sl.iter().map(|x| x.1 as u64).sum::<u64>();
        for x in sl {
            if x.1 > cfg.nsub {
                v("recipient_count", format!("send reported {} recipients with {} subscribers", x.1, cfg.nsub));
            }
            if cfg.overflow && x.1 != cfg.nsub {
                v("recipient_count", format!("safe overflow: send #{:x} reported {} recipients, {} subscribers are connected", x.0, x.1, cfg.nsub));
            }
        }
        for (si, rl) in recv_log.iter().enumerate() {
            let ids: Vec<u64> = rl.iter().filter(|r| (r.0 >> 32) as usize == pi + 1).map(|r| r.0).collect();
            if ids.windows(2).any(|w| w[1] <= w[0]) {
                v("order_or_duplicate", format!("subscriber {} received from publisher {} out of order or twice: {:x?}", si, pi, ids));
            }
            for id in &ids {
                if !sl.iter().any(|x| x.0 == *id) && (*id & 0xffff_ffff) as usize > cfg.sends {
                    v("never_sent", format!("subscriber {} received #{:x} which was never sent", si, id));
                }
            }
            if cfg.overflow {
                // the newest sample always survives: the last id sent must have been received
                if let Some(last) = sl.last() {
                    if !ids.contains(&last.0) {
                        v("newest_sample_lost", format!("safe overflow: subscriber {} never received the last sample #{:x} of publisher {} (got {:x?})", si, last.0, pi, &ids[ids.len().saturating_sub(5)..]));
                    }
                }
            } else if sl.len() == cfg.sends && sl.iter().all(|x| x.1 == cfg.nsub) {
                // nothing was discarded: nothing may be missing
                if ids.len() != sl.len() {
                    v("sample_lost", format!("no send reported a discard but subscriber {} received {} of {} samples of publisher {}", si, ids.len(), sl.len(), pi));
                }
            }
        }
    }
    out.received = recv_log.iter().map(|r| r.len() as u64).sum();
    if !cfg.overflow && out.received != total_recipients {
        v("recipient_count", format!("without overflow: sends reported {} deliveries in total, subscribers received {}", total_recipients, out.received));
    }
    if cfg.overflow && out.received > total_recipients {
        v("duplicate_delivery", format!("subscribers received {} samples, sends reported only {} deliveries", out.received, total_recipients));
    }
    out.evicted_or_discarded = (out.sent * cfg.nsub as u64).saturating_sub(out.received);
    // a receive overlapped a send in time
    'o: for sl in &sent_log {
        for s in sl {
            for rl in &recv_log {
                for r in rl {
                    if s.2 < r.2 && r.1 < s.3 {
                        out.concurrent = true;
                        break 'o;
                    }
                }
            }
        }
    }
    for rl in &recv_log {
        for r in rl {
            out.observed = vkit::mix(out.observed, r.0);
        }
    }
    out
}
