//! C17 — orderly shutdown in any order leaves nothing behind.
//!
//! Object graphs (publish-subscribe, event + wait set, request-response) are built on one service
//! name and dropped in every admissible permutation; after every single drop each survivor is
//! exercised actively and must work or fail with its documented "peer is gone" result; after the last
//! drop nothing may remain and the same names must be usable again with different settings.
use crate::dom;
use iceoryx2::prelude::*;
use iceoryx2::service::Service;
use std::any::Any;
use vkit::{Json, Report, Rng};

pub fn permutations(n: usize) -> Vec<Vec<usize>> {
    let mut out = Vec::new();
    let mut a: Vec<usize> = (0..n).collect();
    fn heap(k: usize, a: &mut Vec<usize>, out: &mut Vec<Vec<usize>>) {
        if k == 1 {
            out.push(a.clone());
            return;
        }
        heap(k - 1, a, out);
        for i in 0..k - 1 {
            if k % 2 == 0 {
                a.swap(i, k - 1);
            } else {
                a.swap(0, k - 1);
            }
            heap(k - 1, a, out);
        }
    }
    heap(n, &mut a, &mut out);
    out
}

type Objs = Vec<Option<Box<dyn Any>>>;
fn get<T: 'static>(o: &Objs, i: usize) -> Option<&T> {
    o.get(i).and_then(|x| x.as_ref()).and_then(|b| b.downcast_ref::<T>())
}

const PS_NAMES: [&str; 7] = ["node", "service", "publisher", "subscriber", "loaned sample", "received sample", "second node+service+subscriber"];

fn ps_perm<S: Service + 'static>(cfg: &iceoryx2::config::Config, perm: &[usize], name: &str) -> Result<(), (String, String)> {
    use iceoryx2::port::publisher::Publisher;
    use iceoryx2::port::subscriber::Subscriber;
    use iceoryx2::sample::Sample;
    use iceoryx2::sample_mut::SampleMut;
    let e = |r: &str, m: String| (r.to_string(), m);
    let sname: ServiceName = name.try_into().unwrap();
    let node = NodeBuilder::new().config(cfg).create::<S>().map_err(|x| e("setup_failed", format!("{x:?}")))?;
    let svc = node.service_builder(&sname).publish_subscribe::<u64>().history_size(1).subscriber_max_buffer_size(3).subscriber_max_borrowed_samples(4).max_subscribers(2).max_publishers(2).max_nodes(3).create().map_err(|x| e("setup_failed", format!("{x:?}")))?;
    let p = svc.publisher_builder().max_loaned_samples(4).create().map_err(|x| e("setup_failed", format!("{x:?}")))?;
    let s = svc.subscriber_builder().create().map_err(|x| e("setup_failed", format!("{x:?}")))?;
    let node2 = NodeBuilder::new().config(cfg).create::<S>().map_err(|x| e("setup_failed", format!("{x:?}")))?;
    let svc2 = node2.service_builder(&sname).publish_subscribe::<u64>().open().map_err(|x| e("setup_failed", format!("{x:?}")))?;
    let s2 = svc2.subscriber_builder().create().map_err(|x| e("setup_failed", format!("{x:?}")))?;
    p.send_copy(41).map_err(|x| e("setup_failed", format!("{x:?}")))?;
    let loan = p.loan_uninit().map_err(|x| e("setup_failed", format!("{x:?}")))?.write_payload(77);
    let recv = s.receive().map_err(|x| e("setup_failed", format!("{x:?}")))?.ok_or(e("setup_failed", "nothing received".into()))?;
    let mut objs: Objs = vec![Some(Box::new(node)), Some(Box::new(svc)), Some(Box::new(p)), Some(Box::new(s)), Some(Box::new(loan)), Some(Box::new(recv)), Some(Box::new((s2, svc2, node2)))];
    let mut dropped: Vec<&str> = Vec::new();
    let mut v = 100u64;
    for i in perm {
        drop(objs[*i].take());
        dropped.push(PS_NAMES[*i]);
        let ctx = |what: &str| format!("{} after dropping [{}]", what, dropped.join(", "));
        if let Some(p) = get::<Publisher<S, u64, ()>>(&objs, 2) {
            v += 1;
            if let Err(x) = p.send_copy(v) {
                return Err(e("survivor_failed:publisher_send", ctx(&format!("publisher.send_copy failed with {x:?}"))));
            }
            let l1 = p.loan_uninit();
            let l2 = p.loan_uninit();
            if l1.is_err() || l2.is_err() {
                return Err(e("survivor_failed:publisher_loan", ctx(&format!("two simultaneous loans (limit 4, one held) gave {:?} / {:?}", l1.as_ref().err(), l2.as_ref().err()))));
            }
        }
        if let Some(s) = get::<Subscriber<S, u64, ()>>(&objs, 3) {
            match s.receive() {
                Ok(_) => {}
                Err(x) => return Err(e("survivor_failed:subscriber_receive", ctx(&format!("subscriber.receive failed with {x:?}")))),
            }
        }
        if let Some(t) = get::<(Subscriber<S, u64, ()>, iceoryx2::service::port_factory::publish_subscribe::PortFactory<S, u64, ()>, Node<S>)>(&objs, 6) {
            if let Err(x) = t.0.receive() {
                return Err(e("survivor_failed:subscriber_receive", ctx(&format!("second subscriber.receive failed with {x:?}"))));
            }
        }
        if let Some(smp) = get::<Sample<S, u64, ()>>(&objs, 5) {
            if **smp != 41 {
                let rule = if dropped.contains(&"subscriber") { "received_sample_changed_after_its_subscriber_was_dropped" } else { "received_sample_changed" };
                return Err(e(rule, ctx(&format!("the received sample reads {} instead of 41", **smp))));
            }
        }
        if let Some(l) = get::<SampleMut<S, u64, ()>>(&objs, 4) {
            if *l.payload() != 77 {
                return Err(e("loaned_sample_changed", ctx(&format!("the loaned sample reads {} instead of 77", l.payload()))));
            }
        }
    }
    Ok(())
}

const RR_NAMES: [&str; 7] = ["node", "service", "client", "server", "pending response", "active request", "received response"];

fn rr_perm<S: Service + 'static>(cfg: &iceoryx2::config::Config, perm: &[usize], name: &str) -> Result<(), (String, String)> {
    use iceoryx2::active_request::ActiveRequest;
    use iceoryx2::pending_response::PendingResponse;
    use iceoryx2::port::client::Client;
    use iceoryx2::port::server::Server;
    use iceoryx2::response::Response;
    let e = |r: &str, m: String| (r.to_string(), m);
    let sname: ServiceName = name.try_into().unwrap();
    let node = NodeBuilder::new().config(cfg).create::<S>().map_err(|x| e("setup_failed", format!("{x:?}")))?;
    let svc = node.service_builder(&sname).request_response::<u64, u64>().max_active_requests_per_client(4).max_response_buffer_size(4).max_borrowed_responses_per_pending_response(4).create().map_err(|x| e("setup_failed", format!("{x:?}")))?;
    let client = svc.client_builder().create().map_err(|x| e("setup_failed", format!("{x:?}")))?;
    let server = svc.server_builder().create().map_err(|x| e("setup_failed", format!("{x:?}")))?;
    let pending = client.send_copy(5).map_err(|x| e("setup_failed", format!("{x:?}")))?;
    let active = server.receive().map_err(|x| e("setup_failed", format!("{x:?}")))?.ok_or(e("setup_failed", "no request".into()))?;
    active.send_copy(6).map_err(|x| e("setup_failed", format!("{x:?}")))?;
    active.send_copy(7).map_err(|x| e("setup_failed", format!("{x:?}")))?;
    let resp = pending.receive().map_err(|x| e("setup_failed", format!("{x:?}")))?.ok_or(e("setup_failed", "no response".into()))?;
    let mut objs: Objs = vec![Some(Box::new(node)), Some(Box::new(svc)), Some(Box::new(client)), Some(Box::new(server)), Some(Box::new(pending)), Some(Box::new(active)), Some(Box::new(resp))];
    let mut dropped: Vec<&str> = Vec::new();
    for i in perm {
        drop(objs[*i].take());
        dropped.push(RR_NAMES[*i]);
        let ctx = |what: &str| format!("{} after dropping [{}]", what, dropped.join(", "));
        if let Some(c) = get::<Client<S, u64, (), u64, ()>>(&objs, 2) {
            match c.send_copy(9) {
                Ok(p) => drop(p),
                Err(iceoryx2::port::client::RequestSendError::ExceedsMaxActiveRequests) => {}
                Err(x) => return Err(e("survivor_failed:client_send", ctx(&format!("client.send_copy failed with {x:?}")))),
            }
        }
        if let Some(s) = get::<Server<S, u64, (), u64, ()>>(&objs, 3) {
            if let Err(x) = s.receive().map(|r| drop(r)) {
                return Err(e("survivor_failed:server_receive", ctx(&format!("server.receive failed with {x:?}"))));
            }
        }
        if let Some(a) = get::<ActiveRequest<S, u64, (), u64, ()>>(&objs, 5) {
            if let Err(x) = a.send_copy(8) {
                return Err(e("survivor_failed:active_request_send", ctx(&format!("active_request.send_copy failed with {x:?}"))));
            }
            if **a != 5 {
                return Err(e("request_payload_changed", ctx("the active request's payload changed")));
            }
        }
        if let Some(p) = get::<PendingResponse<S, u64, (), u64, ()>>(&objs, 4) {
            if let Err(x) = p.receive().map(|r| drop(r)) {
                return Err(e("survivor_failed:pending_response_receive", ctx(&format!("pending_response.receive failed with {x:?}"))));
            }
        }
        if let Some(r) = get::<Response<S, u64, ()>>(&objs, 6) {
            if **r != 6 {
                return Err(e("received_response_changed", ctx(&format!("the received response reads {} instead of 6", **r))));
            }
        }
    }
    Ok(())
}

const EV_NAMES: [&str; 6] = ["node", "service", "notifier", "listener", "wait set", "wait set guard"];

fn ev_perm<S: Service + 'static>(cfg: &iceoryx2::config::Config, perm: &[usize], name: &str) -> Result<(), (String, String)>
where
    iceoryx2::port::listener::Listener<S>: iceoryx2_bb_posix::file_descriptor_set::SynchronousMultiplexing,
{
    use iceoryx2::port::listener::Listener;
    use iceoryx2::port::notifier::Notifier;
    use iceoryx2::waitset::{WaitSet, WaitSetGuard};
    let e = |r: &str, m: String| (r.to_string(), m);
    let sname: ServiceName = name.try_into().unwrap();
    let node = NodeBuilder::new().config(cfg).create::<S>().map_err(|x| e("setup_failed", format!("{x:?}")))?;
    let svc = node.service_builder(&sname).event().create().map_err(|x| e("setup_failed", format!("{x:?}")))?;
    let notifier = svc.notifier_builder().create().map_err(|x| e("setup_failed", format!("{x:?}")))?;
    // listener and wait set are boxed so that the guard (which borrows both) can be stored next to them;
    // permutations that would drop the guard after one of them are not admissible and are skipped by the caller
    let listener: Box<Listener<S>> = Box::new(svc.listener_builder().create().map_err(|x| e("setup_failed", format!("{x:?}")))?);
    let ws: Box<WaitSet<S>> = Box::new(WaitSetBuilder::new().create::<S>().map_err(|x| e("setup_failed", format!("{x:?}")))?);
    let guard: WaitSetGuard<'static, 'static, S> = unsafe { core::mem::transmute(ws.attach_notification(&*listener).map_err(|x| e("setup_failed", format!("{x:?}")))?) };
    let mut objs: Objs = vec![Some(Box::new(node)), Some(Box::new(svc)), Some(Box::new(notifier)), Some(listener), Some(ws), Some(Box::new(guard))];
    let mut dropped: Vec<&str> = Vec::new();
    for i in perm {
        drop(objs[*i].take());
        dropped.push(EV_NAMES[*i]);
        let ctx = |what: &str| format!("{} after dropping [{}]", what, dropped.join(", "));
        if let Some(n) = get::<Notifier<S>>(&objs, 2) {
            if let Err(x) = n.notify() {
                return Err(e("survivor_failed:notifier_notify", ctx(&format!("notifier.notify failed with {x:?}"))));
            }
        }
        if let (Some(w), Some(g)) = (get::<WaitSet<S>>(&objs, 4), get::<WaitSetGuard<'static, 'static, S>>(&objs, 5)) {
            let mut hit = false;
            let r = w.wait_and_process_once_with_timeout(
                |id| {
                    hit |= id.has_event_from(g);
                    CallbackProgression::Continue
                },
                core::time::Duration::ZERO,
            );
            if r.is_err() {
                return Err(e("survivor_failed:waitset_process", ctx(&format!("wait set processing failed with {:?}", r.err()))));
            }
            if get::<Notifier<S>>(&objs, 2).is_some() && !hit {
                return Err(e("survivor_failed:waitset_missed_event", ctx("the attached listener was notified but the wait set did not report it")));
            }
        }
        if let Some(l) = get::<Listener<S>>(&objs, 3) {
            let mut n = 0;
            if let Err(x) = l.try_wait(|_| n += 1) {
                return Err(e("survivor_failed:listener_wait", ctx(&format!("listener.try_wait failed with {x:?}"))));
            }
            if get::<Notifier<S>>(&objs, 2).is_some() && n == 0 {
                return Err(e("survivor_failed:listener_missed_event", ctx("the notifier notified but the listener received nothing")));
            }
        }
    }
    Ok(())
}

fn reuse<S: Service>(cfg: &iceoryx2::config::Config, name: &str, graph: &str) -> Result<(), String> {
    let sname: ServiceName = name.try_into().unwrap();
    let node = NodeBuilder::new().config(cfg).create::<S>().map_err(|x| format!("node: {x:?}"))?;
    match graph {
        "ps" => {
            let svc = node.service_builder(&sname).publish_subscribe::<u64>().history_size(0).subscriber_max_buffer_size(7).create().map_err(|x| format!("service: {x:?}"))?;
            let p = svc.publisher_builder().create().map_err(|x| format!("publisher: {x:?}"))?;
            let s = svc.subscriber_builder().create().map_err(|x| format!("subscriber: {x:?}"))?;
            p.send_copy(3).map_err(|x| format!("{x:?}"))?;
            if s.receive().map_err(|x| format!("{x:?}"))?.map(|x| *x) != Some(3) {
                return Err("traffic".into());
            }
        }
        "rr" => {
            let svc = node.service_builder(&sname).request_response::<u64, u64>().max_clients(5).create().map_err(|x| format!("service: {x:?}"))?;
            let _c = svc.client_builder().create().map_err(|x| format!("client: {x:?}"))?;
            let _s = svc.server_builder().create().map_err(|x| format!("server: {x:?}"))?;
        }
        _ => {
            let svc = node.service_builder(&sname).event().max_listeners(9).create().map_err(|x| format!("service: {x:?}"))?;
            let _n = svc.notifier_builder().create().map_err(|x| format!("notifier: {x:?}"))?;
            let _l = svc.listener_builder().create().map_err(|x| format!("listener: {x:?}"))?;
        }
    }
    Ok(())
}

pub fn campaign<S: Service + 'static>(args: &vkit::Args, svc_name: &str) -> Report
where
    iceoryx2::port::listener::Listener<S>: iceoryx2_bb_posix::file_descriptor_set::SynchronousMultiplexing,
{
    std::panic::set_hook(Box::new(|_| {}));
    let seed = args.u64("seed", 1);
    let shard = args.usize("shard", 0);
    let nshards = args.usize("nshards", 1);
    let sample_every = args.usize("every", 1);
    let graph = args.str("graph", "ps");
    let secs = args.u64("secs", 600);
    let deadline = std::time::Instant::now() + std::time::Duration::from_secs(secs);
    let mut rep = Report::new();
    dom::install_log_capture();
    let (n, names): (usize, &[&str]) = match graph.as_str() {
        "ps" => (7, &PS_NAMES),
        "rr" => (7, &RR_NAMES),
        _ => (6, &EV_NAMES),
    };
    let mut perms = permutations(n);
    if graph == "ev" {
        // the guard (5) borrows the listener (3) and the wait set (4): it has to go first
        perms.retain(|p| {
            let pos = |x: usize| p.iter().position(|y| *y == x).unwrap();
            pos(5) < pos(3) && pos(5) < pos(4)
        });
    }
    let mut rng = Rng::derive(&[seed, 17]);
    let offset = rng.below(sample_every as u64) as usize;
    let total = perms.len();
    let mut complete = true;
    for (pi, perm) in perms.iter().enumerate() {
        if pi % nshards != shard || (pi / nshards) % sample_every != offset {
            continue;
        }
        if std::time::Instant::now() > deadline {
            complete = false;
            break;
        }
        let d = dom::Domain::new(&format!("c17{}{}x{}", &graph[..1], shard, pi));
        let name = "shutdown_svc";
        let r = std::panic::catch_unwind(std::panic::AssertUnwindSafe(|| match graph.as_str() {
            "ps" => ps_perm::<S>(&d.config, perm, name),
            "rr" => rr_perm::<S>(&d.config, perm, name),
            _ => ev_perm::<S>(&d.config, perm, name),
        }));
        rep.execs += 1;
        rep.nontrivial += 1;
        rep.distinct(vkit::fnv_str(&format!("{}{}{:?}", svc_name, graph, perm)));
        let order: Vec<&str> = perm.iter().map(|i| names[*i]).collect();
        let w = Json::obj().set("service", svc_name).set("graph", graph.as_str()).set("drop_order", order.clone());
        let bad_logs = dom::drain_bad_logs(&[]);
        match r {
            Err(p) => {
                let what = p.downcast_ref::<String>().cloned().or(p.downcast_ref::<&str>().map(|s| s.to_string())).unwrap_or_default();
                rep.violation("drop_panicked", format!("C17:{}:drop_panicked", graph), format!("panic with drop order {:?}: {}", order, what.chars().take(300).collect::<String>()), w);
            }
            Ok(Err((rule, msg))) => {
                rep.violation(&rule, format!("C17:{}:{}", graph, rule), format!("drop order {:?}: {}", order, msg), w);
            }
            Ok(Ok(())) => {
                let mut res = d.residue();
                // an empty per-node directory is its own class (and must not hide what the reuse check finds)
                if !res.is_empty() && res.iter().all(|f| f.starts_with("nodes/") && f.ends_with('/')) {
                    let node_first = order.iter().position(|o| *o == "node").unwrap_or(usize::MAX);
                    rep.violation(
                        "residue_empty_node_directory",
                        format!("C17:{}:residue_empty_node_directory", graph),
                        format!("drop order {:?} (node handle dropped at position {} of {}) left the empty directory {:?}", order, node_first + 1, order.len(), &res[..res.len().min(3)]),
                        w.clone(),
                    );
                    for f in &res {
                        let _ = std::fs::remove_dir(format!("{}/{}", d.root, f));
                    }
                    res = d.residue();
                }
                if !res.is_empty() {
                    rep.violation("residue", format!("C17:{}:residue", graph), format!("drop order {:?} left {:?}", order, &res[..res.len().min(5)]), w);
                } else if let Err(x) = reuse::<S>(&d.config, name, &graph) {
                    rep.violation("names_not_reusable", format!("C17:{}:names_not_reusable", graph), format!("after drop order {:?} the names cannot be used again with other settings: {}", order, x), w);
                } else if !bad_logs.is_empty() {
                    rep.violation("error_logged", format!("C17:{}:error_logged", graph), format!("drop order {:?} logged: {}", order, bad_logs[0]), w);
                } else if !d.residue().is_empty() {
                    rep.violation("residue", format!("C17:{}:residue_after_reuse", graph), format!("after reuse following drop order {:?}: {:?}", order, d.residue()), w);
                }
            }
        }
        if rep.samples.is_empty() {
            rep.sample(Json::obj().set("graph", graph.as_str()).set("service", svc_name).set("objects", names.to_vec()).set("example_drop_order", order).set("admissible_permutations", total));
        }
    }
    rep.count("permutations_total", total as u64);
    rep.count("box_complete", complete as u64);
    rep
}
