//! C20 — WaitSet dispatch is exact: every ready attachment reported, nothing else.
//!
//! Sequential histories over {attach notification / deadline(far|short) for listener l, attach interval
//! (far|short), drop guard, notify service, drain listener, process with zero timeout} with an exact
//! model: the wait set is level triggered (a notified listener is reported by every processing call
//! until the listener itself is drained); deadlines are either far (1 h: never expected) or short
//! (1 us followed by a 3 ms pause before processing: always expected), so no clock enters the oracle.
use iceoryx2::port::listener::Listener;
use iceoryx2::port::notifier::Notifier;
use iceoryx2::prelude::*;
use iceoryx2::service::Service;
use iceoryx2::waitset::{WaitSetAttachmentError, WaitSetGuard};
use std::collections::BTreeMap;
use std::time::Duration;

#[derive(Clone, Copy, Debug, PartialEq)]
enum Kind {
    Notification(usize),
    Deadline(usize, bool), // listener, short?
    Interval(bool),
}

pub struct WOutcome {
    pub events: BTreeMap<&'static str, u64>,
    pub mismatch: Option<(String, String)>,
    pub trace: Vec<String>,
}

enum G<'w, 'a, S: Service> {
    L(WaitSetGuard<'w, 'a, S>),
    I(WaitSetGuard<'w, 'static, S>),
}

pub fn run<S: Service + 'static>(config: &iceoryx2::config::Config, script: &[(u64, u64, u64)], nlisteners: usize, nservices: usize, tag: u64) -> WOutcome
where
    Listener<S>: iceoryx2_bb_posix::file_descriptor_set::SynchronousMultiplexing,
{
    let mut out = WOutcome { events: BTreeMap::new(), mismatch: None, trace: Vec::new() };
    let node = NodeBuilder::new().config(config).create::<S>().unwrap();
    let services: Vec<_> = (0..nservices)
        .map(|j| node.service_builder(&format!("ws_{}_{}_{}", std::process::id(), tag, j).as_str().try_into().unwrap()).event().max_listeners(8).max_notifiers(4).create().unwrap())
        .collect();
    let notifiers: Vec<Notifier<S>> = services.iter().map(|s| s.notifier_builder().create().unwrap()).collect();
    // listener l belongs to service l % nservices
    let listeners: Vec<Listener<S>> = (0..nlisteners).map(|l| services[l % nservices].listener_builder().create().unwrap()).collect();
    let ws = WaitSetBuilder::new().create::<S>().unwrap();
    let mut guards: Vec<(Kind, G<S>)> = Vec::new();
    let mut pending = vec![false; nlisteners];
    macro_rules! ev { ($k:expr) => { *out.events.entry($k).or_default() += 1 }; }
    macro_rules! fail {
        ($rule:expr, $($a:tt)*) => {{
            out.mismatch = Some(($rule.to_string(), format!("{} listeners on {} services: {} | history: {}", nlisteners, nservices, format!($($a)*), out.trace.join(" "))));
            drop(guards);
            return out;
        }};
    }
    let far = Duration::from_secs(3600);
    let short = Duration::from_micros(1);
    for (op, r1, r2) in script.iter().copied() {
        match op % 10 {
            0 | 1 | 2 => {
                let l = (r1 % nlisteners as u64) as usize;
                let attached = guards.iter().any(|g| matches!(g.0, Kind::Notification(x) | Kind::Deadline(x, _) if x == l));
                let len_before = ws.len();
                let (kind, r) = if op % 10 == 2 {
                    let is_short = r2 % 2 == 0;
                    (Kind::Deadline(l, is_short), ws.attach_deadline(&listeners[l], if is_short { short } else { far }))
                } else {
                    (Kind::Notification(l), ws.attach_notification(&listeners[l]))
                };
                out.trace.push(format!("Attach({:?})->{}", kind, match &r { Ok(_) => "Ok".to_string(), Err(e) => format!("{:?}", e) }));
                match r {
                    Ok(g) => {
                        if attached {
                            fail!("double_attach_succeeded", "listener {} was attached a second time", l);
                        }
                        guards.push((kind, G::L(g)));
                        ev!("attach");
                    }
                    Err(WaitSetAttachmentError::AlreadyAttached) => {
                        if !attached {
                            fail!("attach_refused", "attach of listener {} refused with AlreadyAttached although it is not attached", l);
                        }
                        if ws.len() != len_before {
                            fail!("refused_attach_has_side_effect", "len() changed from {} to {} by a refused attach", len_before, ws.len());
                        }
                        ev!("double_attach_refused");
                    }
                    Err(e) => fail!("attach_failed", "attach failed with {:?}", e),
                }
            }
            3 => {
                let is_short = r2 % 3 == 0;
                match ws.attach_interval(if is_short { Duration::from_micros(500) } else { far }) {
                    Ok(g) => {
                        guards.push((Kind::Interval(is_short), G::I(g)));
                        out.trace.push(format!("AttachInterval({})", if is_short { "short" } else { "far" }));
                        ev!("attach");
                    }
                    Err(e) => fail!("attach_failed", "attach_interval failed with {:?}", e),
                }
            }
            4 => {
                if !guards.is_empty() {
                    let i = (r1 % guards.len() as u64) as usize;
                    let (k, g) = guards.remove(i);
                    drop(g);
                    out.trace.push(format!("DropGuard({:?})", k));
                    ev!("detach");
                }
            }
            5 | 6 => {
                let j = (r1 % nservices as u64) as usize;
                if notifiers[j].notify().is_err() {
                    fail!("notify_failed", "notify failed");
                }
                for l in 0..nlisteners {
                    if l % nservices == j {
                        pending[l] = true;
                    }
                }
                out.trace.push(format!("Notify(service {})", j));
                ev!("notify");
            }
            7 => {
                let l = (r1 % nlisteners as u64) as usize;
                let _ = listeners[l].try_wait(|_| {});
                pending[l] = false;
                out.trace.push(format!("Drain(listener {})", l));
            }
            _ => {
                // process: let every short deadline / interval expire first so that expectations are logical
                std::thread::sleep(Duration::from_millis(3));
                let mut hits: Vec<(usize, bool, bool)> = Vec::new(); // (guard index, event, missed deadline)
                let mut unknown = 0;
                let mut notify_inside = None;
                let r = ws.wait_and_process_once_with_timeout(
                    |id| {
                        let mut matched = false;
                        for (i, (_, g)) in guards.iter().enumerate() {
                            let (e, m) = match g {
                                G::L(g) => (id.has_event_from(g), id.has_missed_deadline(g)),
                                G::I(g) => (id.has_event_from(g), id.has_missed_deadline(g)),
                            };
                            if e || m {
                                hits.push((i, e, m));
                                matched = true;
                            }
                        }
                        if !matched {
                            unknown += 1;
                        }
                        // an event that arrives while the wait set is processing must be reported by the next call
                        if notify_inside.is_none() && r2 % 4 == 0 {
                            let j = (r1 % nservices as u64) as usize;
                            let _ = notifiers[j].notify();
                            notify_inside = Some(j);
                        }
                        CallbackProgression::Continue
                    },
                    Duration::ZERO,
                );
                out.trace.push(format!("Process->{:?}", hits));
                if guards.is_empty() {
                    if !format!("{:?}", r).contains("NoAttachments") {
                        fail!("process_failed", "processing an empty wait set returned {:?} instead of NoAttachments", r);
                    }
                    continue;
                }
                if r.is_err() {
                    fail!("process_failed", "wait_and_process_once_with_timeout failed: {:?}", r.err());
                }
                if unknown > 0 {
                    fail!("foreign_or_dropped_attachment_reported", "{} callback invocations carried an id that belongs to no live guard", unknown);
                }
                for (i, (k, _)) in guards.iter().enumerate() {
                    let got_event = hits.iter().filter(|h| h.0 == i && h.1).count();
                    let got_missed = hits.iter().filter(|h| h.0 == i && h.2).count();
                    if got_event > 1 || got_missed > 1 {
                        fail!("attachment_reported_twice", "attachment {:?} was reported {} + {} times in one processing call", k, got_event, got_missed);
                    }
                    match k {
                        Kind::Notification(l) => {
                            if (got_event == 1) != pending[*l] {
                                fail!(if pending[*l] { "ready_attachment_not_reported" } else { "idle_attachment_reported" }, "notification attachment of listener {} (pending = {}) reported = {}", l, pending[*l], got_event == 1);
                            }
                            if got_missed > 0 {
                                fail!("idle_attachment_reported", "notification attachment reported a missed deadline");
                            }
                        }
                        Kind::Deadline(l, is_short) => {
                            if (got_event == 1) != pending[*l] {
                                fail!(if pending[*l] { "ready_attachment_not_reported" } else { "idle_attachment_reported" }, "deadline attachment of listener {} (pending = {}) has_event_from = {}", l, pending[*l], got_event == 1);
                            }
                            if !*is_short && got_missed > 0 {
                                fail!("idle_attachment_reported", "a deadline of one hour was reported as missed");
                            }
                            if *is_short && !pending[*l] && got_missed == 0 {
                                fail!("expired_deadline_not_reported", "a deadline of 1 us on idle listener {} was not reported as missed after 3 ms", l);
                            }
                        }
                        Kind::Interval(is_short) => {
                            if *is_short && got_event == 0 {
                                fail!("expired_deadline_not_reported", "an interval of 500 us was not reported after 3 ms");
                            }
                            if !*is_short && got_event + got_missed > 0 {
                                fail!("idle_attachment_reported", "an interval of one hour was reported");
                            }
                        }
                    }
                }
                if let Some(j) = notify_inside {
                    for l in 0..nlisteners {
                        if l % nservices == j {
                            pending[l] = true;
                        }
                    }
                    out.trace.push(format!("NotifyInsideCallback(service {})", j));
                    ev!("notify_during_processing");
                }
                ev!("process");
                if !hits.is_empty() {
                    ev!("process_with_ready_attachments");
                }
            }
        }
        if ws.len() != guards.len() {
            fail!("len_wrong", "len() = {} with {} live guards", ws.len(), guards.len());
        }
    }
    drop(guards);
    if ws.len() != 0 || !ws.is_empty() {
        out.mismatch = Some(("len_wrong".into(), format!("len() = {} after every guard was dropped", ws.len())));
    }
    out
}
