//! Generates `errmap_gen.rs`: for every `impl IntoCInt for T` of the C binding, ALL values of the Rust
//! type T are enumerated mechanically from T's *definition* in the repository sources (unit variants,
//! tuple variants expanded recursively through the enums they carry), together with the C enum the
//! conversion targets and its `*_string` function. Re-run whenever the sources change.
use std::collections::BTreeMap;
use std::fmt::Write as _;
use std::path::{Path, PathBuf};

const REPO: &str = "/repo";

fn rs_files(dir: &Path, out: &mut Vec<PathBuf>) {
    if let Ok(rd) = std::fs::read_dir(dir) {
        for e in rd.flatten() {
            let p = e.path();
            let n = e.file_name().to_string_lossy().to_string();
            if p.is_dir() {
                if n != "target" && n != "tests" && n != "examples" && n != "benches" && !n.starts_with('.') {
                    rs_files(&p, out);
                }
            } else if n.ends_with(".rs") {
                out.push(p);
            }
        }
    }
}

fn strip_comments(s: &str) -> String {
    let mut out = String::new();
    for l in s.lines() {
        let l = match l.find("//") {
            Some(i) => &l[..i],
            None => l,
        };
        out.push_str(l);
        out.push('\n');
    }
    out
}

/// body of the first `{ ... }` block starting at or after `from` (balanced)
fn block(s: &str, from: usize) -> Option<(usize, usize)> {
    let b = s.as_bytes();
    let start = s[from..].find('{')? + from;
    let mut depth = 0;
    for i in start..b.len() {
        match b[i] {
            b'{' => depth += 1,
            b'}' => {
                depth -= 1;
                if depth == 0 {
                    return Some((start + 1, i));
                }
            }
            _ => {}
        }
    }
    None
}

#[derive(Clone, Debug)]
struct EnumDef {
    file: PathBuf,
    variants: Vec<(String, Option<String>)>, // name, carried type (single tuple field)
}

fn parse_enum(src: &str, name: &str) -> Option<Vec<(String, Option<String>)>> {
    let pat = format!("pub enum {}", name);
    let mut at = 0;
    loop {
        let i = src[at..].find(&pat)? + at;
        let after = src[i + pat.len()..].chars().next().unwrap_or(' ');
        if after.is_alphanumeric() || after == '_' {
            at = i + pat.len();
            continue;
        }
        let (a, b) = block(src, i)?;
        let body = &src[a..b];
        // remove attributes
        let mut clean = String::new();
        let mut depth = 0i32;
        let mut chars = body.chars().peekable();
        while let Some(c) = chars.next() {
            if c == '#' && chars.peek() == Some(&'[') {
                let mut d = 0;
                for c2 in chars.by_ref() {
                    if c2 == '[' {
                        d += 1;
                    } else if c2 == ']' {
                        d -= 1;
                        if d == 0 {
                            break;
                        }
                    }
                }
                continue;
            }
            clean.push(c);
        }
        let mut vars = Vec::new();
        let mut cur = String::new();
        for c in clean.chars() {
            match c {
                '(' | '{' | '<' => {
                    depth += 1;
                    cur.push(c)
                }
                ')' | '}' | '>' => {
                    depth -= 1;
                    cur.push(c)
                }
                ',' if depth == 0 => {
                    vars.push(cur.trim().to_string());
                    cur.clear();
                }
                _ => cur.push(c),
            }
        }
        if !cur.trim().is_empty() {
            vars.push(cur.trim().to_string());
        }
        let mut out = Vec::new();
        for v in vars {
            let v = v.split('=').next().unwrap().trim().to_string();
            if v.is_empty() {
                continue;
            }
            if let Some(p) = v.find('(') {
                let inner = v[p + 1..v.rfind(')').unwrap()].trim().to_string();
                out.push((v[..p].trim().to_string(), Some(inner)));
            } else if v.contains('{') {
                out.push((v[..v.find('{').unwrap()].trim().to_string(), Some("{struct}".into())));
            } else {
                out.push((v, None));
            }
        }
        return Some(out);
    }
}

/// `crate::module::path` of a source file
fn module_path(file: &Path) -> String {
    // find the crate root (directory with Cargo.toml)
    let mut dir = file.parent().unwrap().to_path_buf();
    loop {
        if dir.join("Cargo.toml").exists() {
            break;
        }
        dir = dir.parent().unwrap().to_path_buf();
    }
    let toml = std::fs::read_to_string(dir.join("Cargo.toml")).unwrap();
    let name = toml.lines().find(|l| l.trim_start().starts_with("name")).unwrap().split('"').nth(1).unwrap().replace('-', "_");
    let rel = file.strip_prefix(dir.join("src")).unwrap();
    let mut parts: Vec<String> = rel.iter().map(|p| p.to_string_lossy().to_string()).collect();
    let last = parts.pop().unwrap();
    let stem = last.trim_end_matches(".rs");
    if stem != "mod" && stem != "lib" {
        parts.push(stem.to_string());
    }
    let mut p = name;
    for x in parts {
        p.push_str("::");
        p.push_str(&x);
    }
    p
}

/// resolves `ty` through the `use` declarations of `src` (file at `file`); falls back to the defining module
fn resolve_use(src: &str, ty: &str, own_crate: &str, own_mod: &str) -> Option<String> {
    // flatten `use a::b::{c, d::{e}};` declarations
    let mut i = 0;
    while let Some(p) = src[i..].find("use ") {
        let s = i + p;
        let prev = if s == 0 { '\n' } else { src[..s].chars().last().unwrap() };
        let end = match src[s..].find(';') {
            Some(e) => s + e,
            None => break,
        };
        i = end + 1;
        if !(prev == '\n' || prev == ' ' || prev == ')') {
            continue;
        }
        let decl: String = src[s + 4..end].split_whitespace().collect();
        let mut found = None;
        fn walk(prefix: &str, rest: &str, ty: &str, found: &mut Option<String>) {
            // rest is either `a::b::{...}` / `a::b::C` / `{...}`
            if let Some(b) = rest.find('{') {
                let head = &rest[..b];
                let inner = &rest[b + 1..rest.rfind('}').unwrap_or(rest.len())];
                let mut depth = 0;
                let mut cur = String::new();
                let mut items = Vec::new();
                for c in inner.chars() {
                    match c {
                        '{' => {
                            depth += 1;
                            cur.push(c)
                        }
                        '}' => {
                            depth -= 1;
                            cur.push(c)
                        }
                        ',' if depth == 0 => {
                            items.push(cur.clone());
                            cur.clear()
                        }
                        _ => cur.push(c),
                    }
                }
                if !cur.is_empty() {
                    items.push(cur);
                }
                for it in items {
                    walk(&format!("{}{}", prefix, head), &it, ty, found);
                }
            } else {
                let full = format!("{}{}", prefix, rest);
                let last = full.rsplit("::").next().unwrap_or("");
                if last == ty {
                    *found = Some(full);
                }
            }
        }
        walk("", &decl, ty, &mut found);
        if let Some(f) = found {
            let parent = own_mod.rsplit_once("::").map(|x| x.0).unwrap_or(own_mod);
            let first = f.split("::").next().unwrap_or("");
            let f = if let Some(r) = f.strip_prefix("crate::") {
                format!("{}::{}", own_crate, r)
            } else if let Some(r) = f.strip_prefix("super::") {
                format!("{}::{}", parent, r)
            } else if let Some(r) = f.strip_prefix("self::") {
                format!("{}::{}", own_mod, r)
            } else if first.starts_with("iceoryx2") || first == "core" || first == "alloc" || first == "std" {
                f
            } else {
                format!("{}::{}", own_mod, f) // path relative to the current module (child module)
            };
            return Some(f);
        }
    }
    None
}

fn main() {
    println!("cargo:rerun-if-changed=build.rs");
    for d in ["iceoryx2/src", "iceoryx2-cal/src", "iceoryx2-bb", "iceoryx2-ffi/c/src/api"] {
        println!("cargo:rerun-if-changed={}/{}", REPO, d);
    }
    let mut files = Vec::new();
    for d in ["iceoryx2/src", "iceoryx2-cal/src", "iceoryx2-bb"] {
        rs_files(&Path::new(REPO).join(d), &mut files);
    }
    let srcs: BTreeMap<PathBuf, String> = files.iter().map(|f| (f.clone(), strip_comments(&std::fs::read_to_string(f).unwrap_or_default()))).collect();
    let mut ffi_files = Vec::new();
    rs_files(&Path::new(REPO).join("iceoryx2-ffi/c/src/api"), &mut ffi_files);
    ffi_files.sort();

    // full path -> definition
    let mut defs: BTreeMap<String, EnumDef> = BTreeMap::new();
    let locate = |ty: &str, hint_path: Option<&str>| -> Option<(String, EnumDef)> {
        let mut cands = Vec::new();
        for (f, s) in &srcs {
            if let Some(v) = parse_enum(s, ty) {
                cands.push((format!("{}::{}", module_path(f), ty), EnumDef { file: f.clone(), variants: v }));
            }
        }
        if cands.len() > 1 {
            if let Some(h) = hint_path {
                let hc = h.split("::").next().unwrap_or("");
                // prefer the candidate of the crate named in the use path, then the longest common suffix
                let mut best: Vec<_> = cands.iter().filter(|c| c.0.starts_with(hc)).cloned().collect();
                if best.len() > 1 {
                    best.sort_by_key(|c| std::cmp::Reverse(c.0.split("::").filter(|p| h.split("::").any(|q| q == *p)).count()));
                }
                if let Some(b) = best.first() {
                    return Some(b.clone());
                }
            }
        }
        cands.into_iter().next()
    };

    struct Entry {
        ty: String,
        path: String, // path usable from the harness
        cenum: String,
        ffi_file: String,
        wildcard: bool,
    }
    let mut entries: Vec<Entry> = Vec::new();
    let mut skipped: Vec<String> = Vec::new();
    for ff in &ffi_files {
        let raw = std::fs::read_to_string(ff).unwrap_or_default();
        let s = strip_comments(&raw);
        let mut at = 0;
        while let Some(p) = s[at..].find("impl IntoCInt for ") {
            let i = at + p;
            let rest = &s[i + "impl IntoCInt for ".len()..];
            let ty: String = rest.chars().take_while(|c| c.is_alphanumeric() || *c == '_' || *c == ':').collect();
            let ty_short = ty.rsplit("::").next().unwrap().to_string();
            let (a, b) = match block(&s, i) {
                Some(x) => x,
                None => break,
            };
            let body = &s[a..b];
            at = b;
            // the C enum the arms name
            let cenum = body.split(|c: char| !(c.is_alphanumeric() || c == '_')).find(|w| w.starts_with("iox2_") && w.ends_with("_e")).map(|x| x.to_string());
            // conversions that only delegate name no C enum themselves: `Type=iox2_..._e` lines in cenum_overrides.txt
            let cenum = cenum.or_else(|| std::fs::read_to_string("cenum_overrides.txt").unwrap_or_default().lines().filter_map(|l| l.split_once('=')).find(|(a, _)| a.trim() == ty_short).map(|(_, b)| b.trim().to_string()));
            let Some(cenum) = cenum else {
                skipped.push(format!("{} (no C enum in the conversion)", ty_short));
                continue;
            };
            let in_test = raw[..raw.find(&format!("impl IntoCInt for {}", ty)).unwrap_or(0)].contains("#[cfg(test)]");
            if in_test {
                skipped.push(format!("{} (test only)", ty_short));
                continue;
            }
            let use_path = resolve_use(&s, &ty_short, "iceoryx2_ffi_c", "iceoryx2_ffi_c::api::x");
            let Some((def_path, def)) = locate(&ty_short, use_path.as_deref()) else {
                skipped.push(format!("{} (definition not found)", ty_short));
                continue;
            };
            // prefer the path the binding itself imports the type through (public by construction), unless it is a glob/prelude
            let path = match &use_path {
                Some(u) if !u.starts_with("iceoryx2_ffi_c") => u.clone(),
                _ => def_path.clone(),
            };
            let wildcard = body.contains("_ =>");
            defs.insert(path.clone(), def);
            entries.push(Entry { ty: ty_short, path, cenum, ffi_file: ff.file_name().unwrap().to_string_lossy().to_string(), wildcard });
        }
    }
    // expand carried types recursively
    let mut queue: Vec<String> = defs.keys().cloned().collect();
    let mut carried_path: BTreeMap<(String, String), String> = BTreeMap::new(); // (enum path, carried type) -> path
    let mut leaf_types: Vec<String> = Vec::new();
    while let Some(p) = queue.pop() {
        let def = defs.get(&p).unwrap().clone();
        let own_src = srcs.get(&def.file).cloned().unwrap_or_default();
        let own_mod = module_path(&def.file);
        let own_crate = own_mod.split("::").next().unwrap().to_string();
        for (_, carried) in &def.variants {
            let Some(c) = carried else { continue };
            let mut comp_paths = Vec::new();
            for comp in c.split(',').map(|x| x.trim().trim_start_matches('(').trim_end_matches(')').trim()).filter(|x| !x.is_empty()) {
                let cshort = comp.rsplit("::").next().unwrap().trim().to_string();
                let up = resolve_use(&own_src, &cshort, &own_crate, &own_mod);
                match locate(&cshort, up.as_deref().or(Some(&own_mod))) {
                    Some((dp, d)) => {
                        let path = match &up {
                            Some(u) => u.clone(),
                            None => dp.clone(),
                        };
                        comp_paths.push(path.clone());
                        if !defs.contains_key(&path) {
                            defs.insert(path.clone(), d);
                            queue.push(path);
                        }
                    }
                    None => {
                        let path = up.unwrap_or_else(|| format!("{}::{}", own_mod, cshort));
                        comp_paths.push(path.clone());
                        if !leaf_types.contains(&path) {
                            leaf_types.push(path);
                        }
                    }
                }
            }
            let full = if comp_paths.len() == 1 { comp_paths[0].clone() } else { format!("({})", comp_paths.join(", ")) };
            carried_path.insert((p.clone(), c.clone()), full);
        }
    }
    // path overrides for private modules, one per line `Type=path` (kept in the harness, reviewed by hand)
    let overrides: BTreeMap<String, String> = std::fs::read_to_string("path_overrides.txt").unwrap_or_default().lines().filter_map(|l| l.split_once('=')).map(|(a, b)| (a.trim().to_string(), b.trim().to_string())).collect();
    println!("cargo:rerun-if-changed=path_overrides.txt");
    println!("cargo:rerun-if-changed=cenum_overrides.txt");
    let fix1 = |p: &str| -> String {
        let short = p.rsplit("::").next().unwrap();
        overrides.get(short).cloned().unwrap_or_else(|| p.to_string())
    };
    let fix = |p: &str| -> String {
        if let Some(inner) = p.strip_prefix('(') {
            format!("({})", inner.trim_end_matches(')').split(", ").map(|x| fix1(x)).collect::<Vec<_>>().join(", "))
        } else {
            fix1(p)
        }
    };

    let mut g = String::new();
    writeln!(g, "// generated by build.rs — do not edit").unwrap();
    writeln!(g, "pub trait All: Sized {{ fn all() -> Vec<(String, Self)>; }}").unwrap();
    writeln!(g, "impl<A: All, B: All> All for (A, B) {{ fn all() -> Vec<(String, Self)> {{ let (a, b) = (A::all().into_iter().next().unwrap(), B::all().into_iter().next().unwrap()); vec![(format!(\"{{}},{{}}\", a.0, b.0), (a.1, b.1))] }} }}").unwrap();
    for (p, def) in &defs {
        let fp = fix(p);
        writeln!(g, "impl All for {} {{\n    fn all() -> Vec<(String, Self)> {{\n        let mut v: Vec<(String, Self)> = Vec::new();", fp).unwrap();
        for (name, carried) in &def.variants {
            match carried {
                None => writeln!(g, "        v.push((\"{n}\".to_string(), {fp}::{n}));", n = name, fp = fp).unwrap(),
                Some(c) => {
                    let cp = fix(carried_path.get(&(p.clone(), c.clone())).unwrap());
                    let ctor = if cp.starts_with('(') && !c.trim_start().starts_with('(') { "x.0, x.1" } else { "x" };
                    writeln!(g, "        for (n, x) in <{cp} as All>::all() {{ v.push((format!(\"{n}({{}})\", n), {fp}::{n}({ctor}))); }}", cp = cp, n = name, fp = fp, ctor = ctor).unwrap();
                }
            }
        }
        writeln!(g, "        v\n    }}\n}}").unwrap();
    }
    writeln!(g, "pub const LEAF_TYPES: &[&str] = &{:?};", leaf_types.iter().map(|l| fix(l)).collect::<Vec<_>>()).unwrap();
    writeln!(g, "pub const SKIPPED: &[&str] = &{:?};", skipped).unwrap();
    writeln!(g, "pub struct MapRow {{ pub ty: &'static str, pub cenum: &'static str, pub ffi_file: &'static str, pub wildcard_arm: bool, pub values: Vec<(String, i32, String)> }}").unwrap();
    writeln!(g, "pub const ROW_TYPES: &[&str] = &{:?};", entries.iter().map(|e| e.ty.clone()).collect::<Vec<_>>()).unwrap();
    writeln!(g, "pub fn error_row(i: usize) -> MapRow {{\n    let mut rows = Vec::new();").unwrap();
    for (ei, e) in entries.iter().enumerate() {
        writeln!(g, "    if i == {} {{", ei).unwrap();
        let fp = fix(&e.path);
        let strfn = format!("{}_string", e.cenum.trim_end_matches("_e"));
        let has_strfn = ffi_files.iter().any(|f| std::fs::read_to_string(f).unwrap_or_default().contains(&format!("fn {}(", strfn)));
        if !has_strfn {
            writeln!(
                g,
                "    rows.push(MapRow {{ ty: \"{ty}\", cenum: \"{ce}\", ffi_file: \"{ff}\", wildcard_arm: {wc}, values: <{fp} as All>::all().into_iter().map(|(n, x)| {{ let code = iceoryx2_ffi_c::verif_into_c_int(x); (n, code as i32, String::from(\"<no string function>\")) }}).collect() }});",
                ty = e.ty, ce = e.cenum, ff = e.ffi_file, wc = e.wildcard, fp = fp
            )
            .unwrap();
            writeln!(g, "    }}").unwrap();
            continue;
        }
        writeln!(
            g,
            "    rows.push(MapRow {{ ty: \"{ty}\", cenum: \"{ce}\", ffi_file: \"{ff}\", wildcard_arm: {wc}, values: <{fp} as All>::all().into_iter().map(|(n, x)| {{ let code = iceoryx2_ffi_c::verif_into_c_int(x); (n, code as i32, cname(unsafe {{ iceoryx2_ffi_c::{strfn}(core::mem::transmute::<i32, iceoryx2_ffi_c::{ce}>(code as i32)) }})) }}).collect() }});",
            ty = e.ty,
            ce = e.cenum,
            ff = e.ffi_file,
            wc = e.wildcard,
            fp = fp,
            strfn = strfn
        )
        .unwrap();
        writeln!(g, "    }}").unwrap();
    }
    writeln!(g, "    rows.pop().unwrap()\n}}").unwrap();
    let out = PathBuf::from(std::env::var("OUT_DIR").unwrap()).join("errmap_gen.rs");
    std::fs::write(&out, g).unwrap();
}
