//! Isolated iceoryx2 domains for trials (own root path + own prefix), residue listing, log capture.
use iceoryx2::config::Config;
use iceoryx2_bb_container::semantic_string::SemanticString;
use iceoryx2_bb_system_types::file_name::FileName;
use iceoryx2_bb_system_types::path::Path;
use std::sync::atomic::{AtomicU64, Ordering};


static CTR: AtomicU64 = AtomicU64::new(0);

pub struct Domain {
    pub root: String,
    pub prefix: String,
    pub config: Config,
}

pub fn run_dir() -> String {
    std::env::var("VERIF_RUN_DIR").unwrap_or_else(|_| "/verif/.run/ffi".to_string())
}

impl Domain {
    pub fn new(tag: &str) -> Domain {
        let n = CTR.fetch_add(1, Ordering::Relaxed);
        let pid = vkit::proc_token();
        let root = format!("{}/{}{}_{}", run_dir(), tag, pid, n);
        std::fs::create_dir_all(&root).unwrap();
        let prefix = format!("v{}{}x{}_", tag, pid, n);
        Self::with(&root, &prefix)
    }
    pub fn with(root: &str, prefix: &str) -> Domain {
        let mut config = Config::default();
        config.global.set_root_path(&Path::new(root.as_bytes()).unwrap());
        config.global.prefix = FileName::new(prefix.as_bytes()).unwrap();
        Domain { root: root.to_string(), prefix: prefix.to_string(), config }
    }
    /// every file below the root (relative names) and every /dev/shm object carrying the prefix
    pub fn listing(&self) -> Vec<String> {
        let mut out = Vec::new();
        fn walk(dir: &std::path::Path, base: &std::path::Path, out: &mut Vec<String>) {
            if let Ok(rd) = std::fs::read_dir(dir) {
                for e in rd.flatten() {
                    let p = e.path();
                    if p.is_dir() {
                        walk(&p, base, out);
                    } else {
                        out.push(p.strip_prefix(base).unwrap().to_string_lossy().to_string());
                    }
                }
            }
        }
        let base = std::path::PathBuf::from(&self.root);
        walk(&base, &base, &mut out);
        if let Ok(rd) = std::fs::read_dir("/dev/shm") {
            for e in rd.flatten() {
                let n = e.file_name().to_string_lossy().to_string();
                if n.starts_with(&self.prefix) {
                    out.push(format!("shm:{}", n));
                }
            }
        }
        out.sort();
        out
    }
    /// residue = everything except what is documented to persist per domain
    pub fn residue(&self) -> Vec<String> {
        self.listing().into_iter().filter(|f| !f.contains("global_mgmt")).collect()
    }
    pub fn cleanup(&self) {
        let _ = std::fs::remove_dir_all(&self.root);
        if let Ok(rd) = std::fs::read_dir("/dev/shm") {
            for e in rd.flatten() {
                if e.file_name().to_string_lossy().starts_with(&self.prefix) {
                    let _ = std::fs::remove_file(e.path());
                }
            }
        }
    }
}

impl Drop for Domain {
    fn drop(&mut self) {
        self.cleanup();
    }
}

