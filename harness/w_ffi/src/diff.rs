//! driver of the C-vs-Rust differential programs
use crate::ps::{self, Side};
use crate::ev;
use crate::rr;
use vkit::{Args, Json, Report, Rng};

pub fn run(args: &Args) -> Report {
    let seed = args.u64("seed", 1);
    let shard = args.u64("shard", 0);
    let secs = args.u64("secs", 10);
    let only = args.kv.get("only-prog").map(|s| s.parse::<u64>().unwrap());
    let deadline = std::time::Instant::now() + std::time::Duration::from_secs(secs);
    let mut rep = Report::new();
    rep.max_samples = 3;
    let d = crate::dom::Domain::new(&format!("c18{}", shard));
    let mut i = 0u64;
    while std::time::Instant::now() < deadline {
        let pi = only.unwrap_or(i);
        let mut rng = Rng::derive(&[seed, shard, pi, 1818]);
        let pattern = match args.str("pattern", "all").as_str() {
            "ps" => 0,
            "ev" => 1,
            "rr" => 2,
            _ => pi % 3,
        };
        if pattern == 2 {
            rr_program(&mut rep, &d, &mut rng, seed, shard, pi);
            rep.count("programs", 1);
            i += 1;
            if only.is_some() {
                break;
            }
            continue;
        }
        if pattern == 1 {
            ev_program(&mut rep, &d, &mut rng, seed, shard, pi);
            rep.count("programs", 1);
            i += 1;
            if only.is_some() {
                break;
            }
            continue;
        }
        let (cfg, ops) = ps::gen(&mut rng);
        let assignments: Vec<(&str, Side, [Side; 2], [Side; 2])> = vec![
            ("all-rust", Side::R, [Side::R, Side::R], [Side::R, Side::R]),
            ("all-c", Side::C, [Side::C, Side::C], [Side::C, Side::C]),
            ("c-pub/rust-sub", Side::C, [Side::C, Side::C], [Side::R, Side::R]),
            ("rust-pub/c-sub", Side::R, [Side::R, Side::R], [Side::C, Side::C]),
            ("mixed", if rng.chance(1, 2) { Side::R } else { Side::C }, [Side::R, Side::C], [Side::C, Side::R]),
        ];
        let mut reference: Option<Vec<String>> = None;
        for (ai, (aname, creator, ps_, ss)) in assignments.iter().enumerate() {
            let name = format!("c18_{}_{}_{}", std::process::id(), pi, ai);
            let out = ps::run(&d, &name, &cfg, &ops, *creator, *ps_, *ss);
            rep.execs += 1;
            let replay = format!("diff --seed {} --shard {} --only-prog {}", seed, shard, pi);
            for (rule, msg) in &out.bad {
                rep.violation(rule, format!("C18:ps:{}", rule), format!("assignment {} cfg {:?}: {}", aname, cfg, msg), Json::obj().set("replay_args", replay.clone()));
            }
            if !out.residue.is_empty() {
                rep.violation("residue_after_all_handles_dropped", "C18:ps:residue_after_all_handles_dropped", format!("assignment {}: {:?}", aname, &out.residue[..out.residue.len().min(4)]), Json::obj().set("replay_args", replay.clone()));
                d.cleanup();
                let _ = std::fs::create_dir_all(&d.root);
            }
            match &reference {
                None => reference = Some(out.trace.clone()),
                Some(r) => {
                    if *r != out.trace {
                        let at = r.iter().zip(out.trace.iter()).position(|(a, b)| a != b).unwrap_or(r.len().min(out.trace.len()));
                        rep.violation(
                            "c_trace_differs_from_rust_trace",
                            "C18:ps:c_trace_differs_from_rust_trace",
                            format!("cfg {:?}: at step {} ({:?}) the all-Rust run observed {:?}, assignment {} observed {:?}", cfg, at, ops.get(at.saturating_sub(1)), r.get(at), aname, out.trace.get(at)),
                            Json::obj().set("replay_args", replay.clone()).set("ops", format!("{:?}", ops)),
                        );
                    } else {
                        rep.nontrivial += 1;
                        rep.distinct(vkit::mix(vkit::fnv_str(&format!("{:?}{:?}", cfg, ops)), ai as u64));
                    }
                }
            }
            if rep.samples.len() < 3 && ai == 1 {
                rep.sample(Json::obj().set("config", format!("{:?}", cfg)).set("ops", format!("{:?}", &ops[..ops.len().min(10)])).set("trace_all_c", out.trace.iter().take(10).cloned().collect::<Vec<_>>().join(" ")));
            }
        }
        rep.count("programs", 1);
        i += 1;
        if only.is_some() {
            break;
        }
    }
    rep
}

fn ev_program(rep: &mut Report, d: &crate::dom::Domain, rng: &mut Rng, seed: u64, shard: u64, pi: u64) {
    let (cfg, ops) = ev::gen(rng);
    let assignments: Vec<(&str, Side, [Side; 2], [Side; 2])> = vec![
        ("all-rust", Side::R, [Side::R, Side::R], [Side::R, Side::R]),
        ("all-c", Side::C, [Side::C, Side::C], [Side::C, Side::C]),
        ("c-notifier/rust-listener", Side::C, [Side::C, Side::C], [Side::R, Side::R]),
        ("rust-notifier/c-listener", Side::R, [Side::R, Side::R], [Side::C, Side::C]),
        ("mixed", if rng.chance(1, 2) { Side::R } else { Side::C }, [Side::R, Side::C], [Side::C, Side::R]),
    ];
    let mut reference: Option<Vec<String>> = None;
    let replay = format!("diff --seed {} --shard {} --only-prog {}", seed, shard, pi);
    for (ai, (aname, creator, ns, ls)) in assignments.iter().enumerate() {
        let name = format!("c18e_{}_{}_{}", std::process::id(), pi, ai);
        let out = ev::run(d, &name, &cfg, &ops, *creator, *ns, *ls);
        rep.execs += 1;
        for (rule, msg) in &out.bad {
            rep.violation(rule, format!("C18:ev:{}", rule), format!("assignment {} cfg {:?}: {}", aname, cfg, msg), Json::obj().set("replay_args", replay.clone()));
        }
        if !out.residue.is_empty() {
            rep.violation("residue_after_all_handles_dropped", "C18:ev:residue_after_all_handles_dropped", format!("assignment {}: {:?}", aname, &out.residue[..out.residue.len().min(4)]), Json::obj().set("replay_args", replay.clone()));
            d.cleanup();
            let _ = std::fs::create_dir_all(&d.root);
        }
        match &reference {
            None => reference = Some(out.trace.clone()),
            Some(r) => {
                if *r != out.trace {
                    let at = r.iter().zip(out.trace.iter()).position(|(a, b)| a != b).unwrap_or(r.len().min(out.trace.len()));
                    rep.violation(
                        "c_trace_differs_from_rust_trace",
                        "C18:ev:c_trace_differs_from_rust_trace",
                        format!("cfg {:?}: at step {} ({:?}) the all-Rust run observed {:?}, assignment {} observed {:?}", cfg, at, ops.get(at.saturating_sub(1)), r.get(at), aname, out.trace.get(at)),
                        Json::obj().set("replay_args", replay.clone()).set("ops", format!("{:?}", ops)),
                    );
                } else {
                    rep.nontrivial += 1;
                    rep.distinct(vkit::mix(vkit::fnv_str(&format!("{:?}{:?}", cfg, ops)), ai as u64));
                }
            }
        }
    }
}

fn rr_program(rep: &mut Report, d: &crate::dom::Domain, rng: &mut Rng, seed: u64, shard: u64, pi: u64) {
    let (cfg, ops) = rr::gen(rng);
    let assignments: Vec<(&str, Side, [Side; 2], [Side; 2])> = vec![
        ("all-rust", Side::R, [Side::R, Side::R], [Side::R, Side::R]),
        ("all-c", Side::C, [Side::C, Side::C], [Side::C, Side::C]),
        ("c-client/rust-server", Side::C, [Side::C, Side::C], [Side::R, Side::R]),
        ("rust-client/c-server", Side::R, [Side::R, Side::R], [Side::C, Side::C]),
        ("mixed", if rng.chance(1, 2) { Side::R } else { Side::C }, [Side::R, Side::C], [Side::C, Side::R]),
    ];
    let mut reference: Option<Vec<String>> = None;
    let replay = format!("diff --seed {} --shard {} --only-prog {}", seed, shard, pi);
    for (ai, (aname, creator, ns, ls)) in assignments.iter().enumerate() {
        let name = format!("c18r_{}_{}_{}", std::process::id(), pi, ai);
        let out = rr::run(d, &name, &cfg, &ops, *creator, *ns, *ls);
        if std::env::var("C18_DUMP").is_ok() {
            eprintln!("{:>28}: {}", aname, out.trace.join(" | "));
        }
        rep.execs += 1;
        for (rule, msg) in &out.bad {
            rep.violation(rule, format!("C18:rr:{}", rule), format!("assignment {} cfg {:?}: {}", aname, cfg, msg), Json::obj().set("replay_args", replay.clone()));
        }
        if !out.residue.is_empty() {
            rep.violation("residue_after_all_handles_dropped", "C18:rr:residue_after_all_handles_dropped", format!("assignment {}: {:?}", aname, &out.residue[..out.residue.len().min(4)]), Json::obj().set("replay_args", replay.clone()));
            d.cleanup();
            let _ = std::fs::create_dir_all(&d.root);
        }
        match &reference {
            None => reference = Some(out.trace.clone()),
            Some(r) => {
                if *r != out.trace {
                    let at = r.iter().zip(out.trace.iter()).position(|(a, b)| a != b).unwrap_or(r.len().min(out.trace.len()));
                    rep.violation(
                        "c_trace_differs_from_rust_trace",
                        "C18:rr:c_trace_differs_from_rust_trace",
                        format!("cfg {:?}: at step {} ({:?}) the all-Rust run observed {:?}, assignment {} observed {:?}", cfg, at, ops.get(at.saturating_sub(1)), r.get(at), aname, out.trace.get(at)),
                        Json::obj().set("replay_args", replay.clone()).set("ops", format!("{:?}", ops)),
                    );
                } else {
                    rep.nontrivial += 1;
                    rep.distinct(vkit::mix(vkit::fnv_str(&format!("{:?}{:?}", cfg, ops)), ai as u64));
                }
            }
        }
    }
}
