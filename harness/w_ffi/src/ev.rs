//! C18 — event differential (notifier/listener through Rust or C, all assignments compared)
use crate::dom::Domain as Dom;
use crate::ps::{c_node_pub as c_node, IntoCode, Side};
use core::ffi::{c_char, c_void};
use iceoryx2::port::listener::Listener;
use iceoryx2::port::notifier::Notifier;
use iceoryx2::prelude::*;
use iceoryx2::service::port_factory::event::PortFactory;
use iceoryx2::service::port_factory::PortFactory as _;
use iceoryx2_ffi_c::*;
use vkit::Rng;

type S = iceoryx2::service::ipc::Service;

macro_rules! into_code {
    ($($t:ty),*) => { $(impl IntoCode for $t { fn code(self) -> i32 { iceoryx2_ffi_c::verif_into_c_int(self) as i32 } })* };
}
into_code!(
    iceoryx2::port::notifier::NotifierNotifyError,
    iceoryx2::port::notifier::NotifierCreateError,
    iceoryx2::port::listener::ListenerCreateError,
    iceoryx2::service::builder::event::EventOpenError,
    iceoryx2::service::builder::event::EventCreateError
);
fn code<E: IntoCode>(e: E) -> i32 {
    e.code()
}

#[derive(Clone, Debug)]
pub struct Cfg {
    pub max_notifiers: usize,
    pub max_listeners: usize,
    pub id_max: usize,
}
#[derive(Clone, Debug)]
pub enum Op {
    CreateN(usize),
    DropN(usize),
    CreateL(usize),
    DropL(usize),
    Notify(usize, usize),
    NotifyDefault(usize),
    Wait(usize),
    Counts,
}
enum Nt {
    R(Notifier<S>),
    C(iox2_notifier_h),
}
enum Ls {
    R(Listener<S>),
    C(iox2_listener_h),
}

extern "C" fn collect(id: *const iox2_event_id_t, count: u64, ctx: iox2_callback_context) {
    let v = unsafe { &mut *(ctx as *mut Vec<(usize, u64)>) };
    v.push((unsafe { (*id).value }, count));
}

pub struct Outcome {
    pub trace: Vec<String>,
    pub bad: Vec<(String, String)>,
    pub residue: Vec<String>,
}

pub fn run(d: &Dom, name: &str, cfg: &Cfg, ops: &[Op], creator: Side, nside: [Side; 2], lside: [Side; 2]) -> Outcome {
    let mut trace = Vec::new();
    let mut bad: Vec<(String, String)> = Vec::new();
    unsafe {
        let rnode = NodeBuilder::new().config(&d.config).create::<S>().unwrap();
        let cnode = c_node(d);
        let sname: ServiceName = name.try_into().unwrap();
        let r_open = |create: bool| -> Result<PortFactory<S>, i32> {
            let b = rnode.service_builder(&sname).event();
            if create { b.max_notifiers(cfg.max_notifiers).max_listeners(cfg.max_listeners).event_id_max_value(cfg.id_max).create().map_err(code) } else { b.open().map_err(code) }
        };
        let c_open = |create: bool| -> Result<iox2_port_factory_event_h, i32> {
            let mut sn: iox2_service_name_h = core::ptr::null_mut();
            assert_eq!(iox2_service_name_new(core::ptr::null_mut(), name.as_ptr() as *const c_char, name.len(), &mut sn), IOX2_OK);
            let b = iox2_node_service_builder(&cnode, core::ptr::null_mut(), iox2_cast_service_name_ptr(sn));
            iox2_service_name_drop(sn);
            let b = iox2_service_builder_event(b);
            let mut f: iox2_port_factory_event_h = core::ptr::null_mut();
            let rc = if create {
                iox2_service_builder_event_set_max_notifiers(&b, cfg.max_notifiers);
                iox2_service_builder_event_set_max_listeners(&b, cfg.max_listeners);
                iox2_service_builder_event_set_event_id_max_value(&b, cfg.id_max);
                iox2_service_builder_event_create(b, core::ptr::null_mut(), &mut f)
            } else {
                iox2_service_builder_event_open(b, core::ptr::null_mut(), &mut f)
            };
            if rc == IOX2_OK { Ok(f) } else { Err(rc) }
        };
        let (rf, cf) = match creator {
            Side::R => {
                let a = r_open(true);
                let b = c_open(false);
                (a, b)
            }
            Side::C => {
                let b = c_open(true);
                let a = r_open(false);
                (a, b)
            }
        };
        trace.push(format!("rust_handle={:?} c_handle={:?}", rf.as_ref().map(|_| ()), cf.as_ref().map(|_| ())));
        let (Ok(rf), Ok(cf)) = (rf, cf) else {
            iox2_node_drop(cnode);
            return Outcome { trace, bad, residue: d.residue() };
        };
        let mut ns: [Option<Nt>; 2] = [None, None];
        let mut ls: [Option<Ls>; 2] = [None, None];
        for op in ops {
            let line = match op {
                Op::CreateN(i) => {
                    if ns[*i].is_some() {
                        "create_notifier=skip".into()
                    } else {
                        let r: Result<Nt, i32> = match nside[*i] {
                            Side::R => rf.notifier_builder().default_event_id(EventId::new(1)).create().map(Nt::R).map_err(code),
                            Side::C => {
                                let b = iox2_port_factory_event_notifier_builder(&cf, core::ptr::null_mut());
                                let id = iox2_event_id_t { value: 1 };
                                iox2_port_factory_notifier_builder_set_default_event_id(&b, &id);
                                let mut h: iox2_notifier_h = core::ptr::null_mut();
                                let rc = iox2_port_factory_notifier_builder_create(b, core::ptr::null_mut(), &mut h);
                                if rc == IOX2_OK { Ok(Nt::C(h)) } else { Err(rc) }
                            }
                        };
                        let l = format!("create_notifier={:?}", r.as_ref().map(|_| ()));
                        ns[*i] = r.ok();
                        l
                    }
                }
                Op::DropN(i) => {
                    match ns[*i].take() {
                        Some(Nt::C(h)) => iox2_notifier_drop(h),
                        other => drop(other),
                    }
                    "drop_notifier".into()
                }
                Op::CreateL(j) => {
                    if ls[*j].is_some() {
                        "create_listener=skip".into()
                    } else {
                        let r: Result<Ls, i32> = match lside[*j] {
                            Side::R => rf.listener_builder().create().map(Ls::R).map_err(code),
                            Side::C => {
                                let b = iox2_port_factory_event_listener_builder(&cf, core::ptr::null_mut());
                                let mut h: iox2_listener_h = core::ptr::null_mut();
                                let rc = iox2_port_factory_listener_builder_create(b, core::ptr::null_mut(), &mut h);
                                if rc == IOX2_OK { Ok(Ls::C(h)) } else { Err(rc) }
                            }
                        };
                        let l = format!("create_listener={:?}", r.as_ref().map(|_| ()));
                        ls[*j] = r.ok();
                        l
                    }
                }
                Op::DropL(j) => {
                    match ls[*j].take() {
                        Some(Ls::C(h)) => iox2_listener_drop(h),
                        other => drop(other),
                    }
                    "drop_listener".into()
                }
                Op::Notify(i, id) => match &ns[*i] {
                    None => "notify=noport".into(),
                    Some(Nt::R(n)) => format!("notify={:?}", n.notify_with_custom_event_id(EventId::new(*id)).map_err(code)),
                    Some(Nt::C(n)) => {
                        let mut cnt = 0usize;
                        let e = iox2_event_id_t { value: *id };
                        let rc = iox2_notifier_notify_with_custom_event_id(n, &e, &mut cnt);
                        format!("notify={:?}", if rc == IOX2_OK { Ok(cnt) } else { Err(rc) })
                    }
                },
                Op::NotifyDefault(i) => match &ns[*i] {
                    None => "notify_default=noport".into(),
                    Some(Nt::R(n)) => format!("notify_default={:?}", n.notify().map_err(code)),
                    Some(Nt::C(n)) => {
                        let mut cnt = 0usize;
                        let rc = iox2_notifier_notify(n, &mut cnt);
                        format!("notify_default={:?}", if rc == IOX2_OK { Ok(cnt) } else { Err(rc) })
                    }
                },
                Op::Wait(j) => match &ls[*j] {
                    None => "wait=noport".into(),
                    Some(Ls::R(l)) => {
                        let mut got: Vec<(usize, u64)> = Vec::new();
                        let r = l.try_wait(|a| got.push((a.id.as_value(), a.count)));
                        got.sort();
                        format!("wait={:?} {:?}", r.map_err(|e| iceoryx2_ffi_c::verif_into_c_int(e) as i32), got)
                    }
                    Some(Ls::C(l)) => {
                        let mut got: Vec<(usize, u64)> = Vec::new();
                        let mut n = 0u64;
                        let rc = iox2_listener_try_wait(l, &mut n, collect, &mut got as *mut _ as *mut c_void);
                        got.sort();
                        format!("wait={:?} {:?}", if rc == IOX2_OK { Ok(n) } else { Err(rc) }, got)
                    }
                },
                Op::Counts => {
                    let (rn, rl) = (rf.dynamic_config().number_of_notifiers(), rf.dynamic_config().number_of_listeners());
                    let (cn, cl) = (iox2_port_factory_event_dynamic_config_number_of_notifiers(&cf), iox2_port_factory_event_dynamic_config_number_of_listeners(&cf));
                    if (rn, rl) != (cn, cl) {
                        bad.push(("port_counts_differ_between_apis".into(), format!("Rust handle sees {}/{} notifiers/listeners, C handle {}/{}", rn, rl, cn, cl)));
                    }
                    let live = (ns.iter().filter(|x| x.is_some()).count(), ls.iter().filter(|x| x.is_some()).count());
                    if (cn, cl) != live {
                        bad.push(("handle_release_not_exact".into(), format!("{:?} notifier/listener handles live but the service counts {}/{}", live, cn, cl)));
                    }
                    format!("counts={}/{}", cn, cl)
                }
            };
            trace.push(line);
        }
        for n in ns.iter_mut() {
            match n.take() {
                Some(Nt::C(h)) => iox2_notifier_drop(h),
                other => drop(other),
            }
        }
        for l in ls.iter_mut() {
            match l.take() {
                Some(Ls::C(h)) => iox2_listener_drop(h),
                other => drop(other),
            }
        }
        let (cn, cl) = (iox2_port_factory_event_dynamic_config_number_of_notifiers(&cf), iox2_port_factory_event_dynamic_config_number_of_listeners(&cf));
        if (cn, cl) != (0, 0) {
            bad.push(("handle_release_not_exact".into(), format!("all handles dropped but the service counts {}/{}", cn, cl)));
        }
        iox2_port_factory_event_drop(cf);
        drop(rf);
        iox2_node_drop(cnode);
        drop(rnode);
    }
    Outcome { trace, bad, residue: d.residue() }
}

pub fn gen(rng: &mut Rng) -> (Cfg, Vec<Op>) {
    let cfg = Cfg { max_notifiers: rng.range(1, 2) as usize, max_listeners: rng.range(1, 2) as usize, id_max: rng.range(2, 5) as usize };
    let mut ops = vec![Op::CreateN(0), Op::CreateL(0)];
    for _ in 0..rng.range(6, 24) {
        let i = rng.below(2) as usize;
        ops.push(match rng.below(14) {
            0 => Op::CreateN(i),
            1 => Op::DropN(i),
            2 => Op::CreateL(i),
            3 => Op::DropL(i),
            4..=7 => Op::Notify(i, rng.below(cfg.id_max as u64 + 3) as usize),
            8 => Op::NotifyDefault(i),
            9..=11 => Op::Wait(i),
            _ => Op::Counts,
        });
    }
    ops.push(Op::Wait(0));
    ops.push(Op::Counts);
    (cfg, ops)
}
