//! C18 — the C binding is a faithful projection of the Rust API.
mod dom;
mod errmap;
mod ps;
mod ev;
mod rr;
mod diff;

fn main() {
    let args = vkit::Args::parse();
    iceoryx2_log::set_log_level(iceoryx2_log::LogLevel::Fatal);
    if args.sub == "errmap-one" {
        let i: usize = std::env::args().nth(2).unwrap().parse().unwrap();
        return errmap::one(i);
    }
    let rep = match args.sub.as_str() {
        "errmap" => errmap::run(&args),
        "diff" => diff::run(&args),
        "warmup" => return,
        other => {
            eprintln!("unknown sub command {:?}", other);
            std::process::exit(2);
        }
    };
    rep.emit();
}
