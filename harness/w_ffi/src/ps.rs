//! C18 — publish-subscribe differential: the same program is executed with every role (service
//! creator, publishers, subscribers) played either through the Rust API or through the C API, in all-Rust,
//! all-C and mixed assignments; every observable result (recipient counts, payload bytes, element counts,
//! has_samples, port counts, error codes) must be identical. Rust errors are pushed through the
//! binding's own conversion, so "same error" means "the C code that names the Rust error".
use crate::dom::Domain as Dom;
use core::ffi::{c_char, c_void};
use iceoryx2::port::publisher::Publisher;
use iceoryx2::port::subscriber::Subscriber;
use iceoryx2::prelude::*;
use iceoryx2::sample::Sample;
use iceoryx2::sample_mut_uninit::SampleMutUninit;
use iceoryx2::service::port_factory::publish_subscribe::PortFactory;
use iceoryx2::service::port_factory::PortFactory as _;
use iceoryx2_ffi_c::*;
use std::mem::MaybeUninit;
use vkit::Rng;

type S = iceoryx2::service::ipc::Service;

#[derive(Clone, Copy, Debug, PartialEq)]
pub enum Side {
    R,
    C,
}

#[derive(Clone, Debug)]
pub struct Cfg {
    pub slice: bool,
    pub max_publishers: usize,
    pub max_subscribers: usize,
    pub buffer: usize,
    pub borrowed: usize,
    pub history: usize,
    pub overflow: bool,
    pub max_loans: usize,
    pub local: bool,
}

#[derive(Clone, Debug)]
pub enum Op {
    CreatePub(usize),
    DropPub(usize),
    CreateSub(usize),
    DropSub(usize),
    Send(usize, u8, usize),
    Loan(usize, usize),
    SendLoan(usize, u8),
    DropLoan(usize),
    Recv(usize),
    Release(usize),
    Has(usize),
    Counts,
    OpenIncompatible(u8),
}

fn code<E>(e: E) -> i32
where
    E: Sized,
    E: IntoCode,
{
    e.code()
}

/// the binding's own Rust-error -> C-code conversion (hook `verif_into_c_int`)
pub trait IntoCode {
    fn code(self) -> i32;
}
macro_rules! into_code {
    ($($t:ty),*) => { $(impl IntoCode for $t { fn code(self) -> i32 { iceoryx2_ffi_c::verif_into_c_int(self) as i32 } })* };
}
into_code!(
    iceoryx2::port::SendError,
    iceoryx2::port::LoanError,
    iceoryx2::port::ReceiveError,
    iceoryx2::port::publisher::PublisherCreateError,
    iceoryx2::port::subscriber::SubscriberCreateError,
    iceoryx2::service::builder::publish_subscribe::PublishSubscribeOpenOrCreateError,
    iceoryx2::service::builder::publish_subscribe::PublishSubscribeOpenError,
    iceoryx2::service::builder::publish_subscribe::PublishSubscribeCreateError
);

enum Factory {
    R64(PortFactory<S, u64, ()>),
    RSl(PortFactory<S, [u8], ()>),
    C(iox2_port_factory_pub_sub_h),
}
enum Pubr {
    R64(Publisher<S, u64, ()>),
    RSl(Publisher<S, [u8], ()>),
    C(iox2_publisher_h),
}
enum Subr {
    R64(Subscriber<S, u64, ()>),
    RSl(Subscriber<S, [u8], ()>),
    C(iox2_subscriber_h),
}
enum Held {
    R64(Sample<S, u64, ()>),
    RSl(Sample<S, [u8], ()>),
    C(iox2_sample_h),
}
enum Loaned {
    R64(SampleMutUninit<S, MaybeUninit<u64>, ()>),
    RSl(SampleMutUninit<S, [MaybeUninit<u8>], ()>),
    C(iox2_sample_mut_h),
}

struct CNode {
    h: iox2_node_h,
}

pub unsafe fn c_node_pub(d: &Dom) -> iox2_node_h {
    c_node(d).h
}

unsafe fn c_node(d: &Dom) -> CNode {
    let mut cfg: iox2_config_h = core::ptr::null_mut();
    assert_eq!(iox2_config_default(core::ptr::null_mut(), &mut cfg), IOX2_OK);
    let prefix = std::ffi::CString::new(d.prefix.clone()).unwrap();
    let root = std::ffi::CString::new(d.root.clone()).unwrap();
    assert_eq!(iox2_config_global_set_prefix(&cfg, prefix.as_ptr()), IOX2_OK);
    assert_eq!(iox2_config_global_set_root_path(&cfg, root.as_ptr()), IOX2_OK);
    let nb = iox2_node_builder_new(core::ptr::null_mut());
    iox2_node_builder_set_config(&nb, &cfg);
    let mut node: iox2_node_h = core::ptr::null_mut();
    let rc = iox2_node_builder_create(nb, core::ptr::null_mut(), iox2_service_type_e::IPC, &mut node);
    assert_eq!(rc, IOX2_OK, "C node creation failed");
    iox2_config_drop(cfg);
    CNode { h: node }
}

/// builder with the creator's full settings through the C API
unsafe fn c_builder(node: &CNode, name: &str, cfg: &Cfg) -> iox2_service_builder_pub_sub_h {
    let mut sn: iox2_service_name_h = core::ptr::null_mut();
    assert_eq!(iox2_service_name_new(core::ptr::null_mut(), name.as_ptr() as *const c_char, name.len(), &mut sn), IOX2_OK);
    let b = iox2_node_service_builder(&node.h, core::ptr::null_mut(), iox2_cast_service_name_ptr(sn));
    iox2_service_name_drop(sn);
    let b = iox2_service_builder_pub_sub(b);
    let (variant, tn, size, align) = if cfg.slice { (iox2_type_variant_e::DYNAMIC, "u8", 1usize, 1usize) } else { (iox2_type_variant_e::FIXED_SIZE, "u64", 8, 8) };
    assert_eq!(iox2_service_builder_pub_sub_set_payload_type_details(&b, variant, tn.as_ptr() as *const c_char, tn.len(), size, align), IOX2_OK);
    b
}

unsafe fn c_apply(b: &iox2_service_builder_pub_sub_h, cfg: &Cfg) {
    iox2_service_builder_pub_sub_set_max_publishers(b, cfg.max_publishers);
    iox2_service_builder_pub_sub_set_max_subscribers(b, cfg.max_subscribers);
    iox2_service_builder_pub_sub_set_subscriber_max_buffer_size(b, cfg.buffer);
    iox2_service_builder_pub_sub_set_subscriber_max_borrowed_samples(b, cfg.borrowed);
    iox2_service_builder_pub_sub_set_history_size(b, cfg.history);
    iox2_service_builder_pub_sub_set_enable_safe_overflow(b, cfg.overflow);
}

pub struct Outcome {
    pub trace: Vec<String>,
    pub bad: Vec<(String, String)>,
    pub residue: Vec<String>,
}

fn payload(slice: bool, tag: u8, len: usize) -> Vec<u8> {
    if slice {
        (0..len).map(|i| tag.wrapping_add(i as u8)).collect()
    } else {
        (0x0101_0101_0101_0101u64.wrapping_mul(tag as u64) ^ len as u64).to_ne_bytes().to_vec()
    }
}

/// runs `ops` with the given role assignment: creator side, side of publisher slot i, side of subscriber slot j
pub fn run(d: &Dom, name: &str, cfg: &Cfg, ops: &[Op], creator: Side, pside: [Side; 2], sside: [Side; 2]) -> Outcome {
    let mut trace: Vec<String> = Vec::new();
    let mut bad: Vec<(String, String)> = Vec::new();
    unsafe {
        // both APIs take part in every assignment (a node and a service handle each); only the order differs
        let rnode = NodeBuilder::new().config(&d.config).create::<S>().unwrap();
        let cnode = c_node(d);
        let sname: ServiceName = name.try_into().unwrap();
        let r_open = |create: bool| -> Result<Factory, i32> {
            if cfg.slice {
                let b = rnode.service_builder(&sname).publish_subscribe::<[u8]>();
                let b = if create { b.max_publishers(cfg.max_publishers).max_subscribers(cfg.max_subscribers).subscriber_max_buffer_size(cfg.buffer).subscriber_max_borrowed_samples(cfg.borrowed).history_size(cfg.history).enable_safe_overflow(cfg.overflow) } else { b };
                if create { b.create().map(Factory::RSl).map_err(code) } else { b.open().map(Factory::RSl).map_err(code) }
            } else {
                let b = rnode.service_builder(&sname).publish_subscribe::<u64>();
                let b = if create { b.max_publishers(cfg.max_publishers).max_subscribers(cfg.max_subscribers).subscriber_max_buffer_size(cfg.buffer).subscriber_max_borrowed_samples(cfg.borrowed).history_size(cfg.history).enable_safe_overflow(cfg.overflow) } else { b };
                if create { b.create().map(Factory::R64).map_err(code) } else { b.open().map(Factory::R64).map_err(code) }
            }
        };
        let c_open = |create: bool| -> Result<Factory, i32> {
            let b = c_builder(&cnode, name, cfg);
            let mut f: iox2_port_factory_pub_sub_h = core::ptr::null_mut();
            let rc = if create {
                c_apply(&b, cfg);
                iox2_service_builder_pub_sub_create(b, core::ptr::null_mut(), &mut f)
            } else {
                iox2_service_builder_pub_sub_open(b, core::ptr::null_mut(), &mut f)
            };
            if rc == IOX2_OK { Ok(Factory::C(f)) } else { Err(rc) }
        };
        let (first, second) = match creator {
            Side::R => (r_open(true), c_open(false)),
            Side::C => (c_open(true), r_open(false)),
        };
        trace.push(format!("create={:?} open={:?}", first.as_ref().map(|_| ()), second.as_ref().map(|_| ())));
        let (rf, cf) = match (first, second) {
            (Ok(a), Ok(b)) => {
                if matches!(a, Factory::C(_)) { (b, a) } else { (a, b) }
            }
            _ => {
                iox2_node_drop(cnode.h);
                drop(rnode);
                return Outcome { trace, bad, residue: d.residue() };
            }
        };
        let Factory::C(cfh) = cf else { unreachable!() };
        let mut pubs: [Option<Pubr>; 2] = [None, None];
        let mut subs: [Option<Subr>; 2] = [None, None];
        let mut loans: [Vec<(Loaned, usize)>; 2] = [Vec::new(), Vec::new()];
        let mut held: [Vec<Held>; 2] = [Vec::new(), Vec::new()];
        for op in ops {
            let line = match op {
                Op::CreatePub(i) => {
                    if pubs[*i].is_some() {
                        "create_pub=skip".to_string()
                    } else {
                        let r: Result<Pubr, i32> = match (pside[*i], &rf) {
                            (Side::R, Factory::R64(f)) => f.publisher_builder().backpressure_strategy(BackpressureStrategy::DiscardData).max_loaned_samples(cfg.max_loans).create().map(Pubr::R64).map_err(code),
                            (Side::R, Factory::RSl(f)) => f.publisher_builder().backpressure_strategy(BackpressureStrategy::DiscardData).max_loaned_samples(cfg.max_loans).initial_max_slice_len(16).allocation_strategy(AllocationStrategy::PowerOfTwo).create().map(Pubr::RSl).map_err(code),
                            _ => {
                                let b = iox2_port_factory_pub_sub_publisher_builder(&cfh, core::ptr::null_mut());
                                iox2_port_factory_publisher_builder_set_max_loaned_samples(&b, cfg.max_loans);
                                iox2_port_factory_publisher_builder_backpressure_strategy(&b, iox2_backpressure_strategy_e::DISCARD_DATA);
                                if cfg.slice {
                                    iox2_port_factory_publisher_builder_set_initial_max_slice_len(&b, 16);
                                    iox2_port_factory_publisher_builder_set_allocation_strategy(&b, iox2_allocation_strategy_e::POWER_OF_TWO);
                                }
                                let mut p: iox2_publisher_h = core::ptr::null_mut();
                                let rc = iox2_port_factory_publisher_builder_create(b, core::ptr::null_mut(), &mut p);
                                if rc == IOX2_OK { Ok(Pubr::C(p)) } else { Err(rc) }
                            }
                        };
                        let l = format!("create_pub={:?}", r.as_ref().map(|_| ()));
                        pubs[*i] = r.ok();
                        l
                    }
                }
                Op::DropPub(i) => {
                    for (l, _) in loans[*i].drain(..) {
                        drop_loan(l);
                    }
                    match pubs[*i].take() {
                        Some(Pubr::C(p)) => iox2_publisher_drop(p),
                        Some(p) => drop(p),
                        None => {}
                    }
                    "drop_pub".to_string()
                }
                Op::CreateSub(j) => {
                    if subs[*j].is_some() {
                        "create_sub=skip".to_string()
                    } else {
                        let r: Result<Subr, i32> = match (sside[*j], &rf) {
                            (Side::R, Factory::R64(f)) => f.subscriber_builder().create().map(Subr::R64).map_err(code),
                            (Side::R, Factory::RSl(f)) => f.subscriber_builder().create().map(Subr::RSl).map_err(code),
                            _ => {
                                let b = iox2_port_factory_pub_sub_subscriber_builder(&cfh, core::ptr::null_mut());
                                let mut s: iox2_subscriber_h = core::ptr::null_mut();
                                let rc = iox2_port_factory_subscriber_builder_create(b, core::ptr::null_mut(), &mut s);
                                if rc == IOX2_OK { Ok(Subr::C(s)) } else { Err(rc) }
                            }
                        };
                        let l = format!("create_sub={:?}", r.as_ref().map(|_| ()));
                        subs[*j] = r.ok();
                        l
                    }
                }
                Op::DropSub(j) => {
                    for h in held[*j].drain(..) {
                        drop_held(h);
                    }
                    match subs[*j].take() {
                        Some(Subr::C(s)) => iox2_subscriber_drop(s),
                        Some(s) => drop(s),
                        None => {}
                    }
                    "drop_sub".to_string()
                }
                Op::Send(i, tag, len) => match &pubs[*i] {
                    None => "send=noport".to_string(),
                    Some(p) => {
                        let bytes = payload(cfg.slice, *tag, *len);
                        let r: Result<usize, i32> = match p {
                            Pubr::R64(p) => p.send_copy(u64::from_ne_bytes(bytes.clone().try_into().unwrap())).map_err(code),
                            Pubr::RSl(p) => match p.loan_slice_uninit(bytes.len()) {
                                Ok(l) => l.write_from_slice(&bytes).send().map_err(code),
                                Err(e) => Err(code(iceoryx2::port::SendError::LoanError(e))),
                            },
                            Pubr::C(p) => {
                                let mut n = 0usize;
                                let rc = if cfg.slice { iox2_publisher_send_slice_copy(p, bytes.as_ptr() as *const c_void, 1, bytes.len(), &mut n) } else { iox2_publisher_send_copy(p, bytes.as_ptr() as *const c_void, bytes.len(), &mut n) };
                                if rc == IOX2_OK { Ok(n) } else { Err(rc) }
                            }
                        };
                        format!("send={:?}", r)
                    }
                },
                Op::Loan(i, len) => match &pubs[*i] {
                    None => "loan=noport".to_string(),
                    Some(p) => {
                        let n = if cfg.slice { *len } else { 1 };
                        let r: Result<Loaned, i32> = match p {
                            Pubr::R64(p) => p.loan_uninit().map(Loaned::R64).map_err(code),
                            Pubr::RSl(p) => p.loan_slice_uninit(n).map(Loaned::RSl).map_err(code),
                            Pubr::C(p) => {
                                let mut s: iox2_sample_mut_h = core::ptr::null_mut();
                                let rc = iox2_publisher_loan_slice_uninit(p, core::ptr::null_mut(), &mut s, n);
                                if rc == IOX2_OK { Ok(Loaned::C(s)) } else { Err(rc) }
                            }
                        };
                        let l = format!("loan={:?}", r.as_ref().map(|_| ()));
                        if let Ok(x) = r {
                            loans[*i].push((x, n));
                        }
                        l
                    }
                },
                Op::SendLoan(i, tag) => {
                    if loans[*i].is_empty() {
                        "send_loan=none".to_string()
                    } else {
                        let (l, n) = loans[*i].remove(0);
                        let bytes = payload(cfg.slice, *tag, n);
                        let r: Result<usize, i32> = match l {
                            Loaned::R64(l) => l.write_payload(u64::from_ne_bytes(bytes.clone().try_into().unwrap())).send().map_err(code),
                            Loaned::RSl(l) => l.write_from_slice(&bytes).send().map_err(code),
                            Loaned::C(l) => {
                                let mut ptr: *mut c_void = core::ptr::null_mut();
                                let mut ne = 0usize;
                                iox2_sample_mut_payload_mut(&l, &mut ptr, &mut ne);
                                if ne != n {
                                    bad.push(("loan_element_count_differs".into(), format!("C loan of {} elements reports {}", n, ne)));
                                }
                                core::ptr::copy_nonoverlapping(bytes.as_ptr(), ptr as *mut u8, bytes.len());
                                let mut rcp = 0usize;
                                let rc = iox2_sample_mut_send(l, &mut rcp);
                                if rc == IOX2_OK { Ok(rcp) } else { Err(rc) }
                            }
                        };
                        format!("send_loan={:?}", r)
                    }
                }
                Op::DropLoan(i) => {
                    if loans[*i].is_empty() {
                        "drop_loan=none".to_string()
                    } else {
                        let (l, _) = loans[*i].remove(0);
                        drop_loan(l);
                        "drop_loan".to_string()
                    }
                }
                Op::Recv(j) => match &subs[*j] {
                    None => "recv=noport".to_string(),
                    Some(s) => {
                        let r: Result<Option<(Held, Vec<u8>, u64)>, i32> = match s {
                            Subr::R64(s) => s.receive().map(|o| o.map(|x| {
                                let b = x.payload().to_ne_bytes().to_vec();
                                let n = x.header().number_of_elements();
                                (Held::R64(x), b, n)
                            })).map_err(code),
                            Subr::RSl(s) => s.receive().map(|o| o.map(|x| {
                                let b = x.payload().to_vec();
                                let n = x.header().number_of_elements();
                                (Held::RSl(x), b, n)
                            })).map_err(code),
                            Subr::C(s) => {
                                let mut h: iox2_sample_h = core::ptr::null_mut();
                                let rc = iox2_subscriber_receive(s, core::ptr::null_mut(), &mut h);
                                if rc != IOX2_OK {
                                    Err(rc)
                                } else if h.is_null() {
                                    Ok(None)
                                } else {
                                    let mut ptr: *const c_void = core::ptr::null();
                                    let mut ne = 0usize;
                                    iox2_sample_payload(&h, &mut ptr, &mut ne);
                                    let nbytes = if cfg.slice { ne } else { 8 };
                                    let b = core::slice::from_raw_parts(ptr as *const u8, nbytes).to_vec();
                                    let mut hh: iox2_publish_subscribe_header_h = core::ptr::null_mut();
                                    iox2_sample_header(&h, core::ptr::null_mut(), &mut hh);
                                    let n = iox2_publish_subscribe_header_number_of_elements(&hh);
                                    iox2_publish_subscribe_header_drop(hh);
                                    if n as usize != ne {
                                        bad.push(("header_and_payload_disagree".into(), format!("header says {} elements, payload accessor {}", n, ne)));
                                    }
                                    Ok(Some((Held::C(h), b, n)))
                                }
                            }
                        };
                        match r {
                            Ok(Some((h, b, n))) => {
                                held[*j].push(h);
                                format!("recv=Ok({:?} n={})", b, n)
                            }
                            Ok(None) => "recv=Ok(None)".to_string(),
                            Err(c) => format!("recv=Err({})", c),
                        }
                    }
                },
                Op::Release(j) => {
                    if held[*j].is_empty() {
                        "release=none".to_string()
                    } else {
                        drop_held(held[*j].remove(0));
                        "release".to_string()
                    }
                }
                Op::Has(j) => match &subs[*j] {
                    None => "has=noport".to_string(),
                    Some(Subr::R64(s)) => format!("has={:?}", s.has_samples().map_err(|_| -1)),
                    Some(Subr::RSl(s)) => format!("has={:?}", s.has_samples().map_err(|_| -1)),
                    Some(Subr::C(s)) => {
                        let mut b = false;
                        let rc = iox2_subscriber_has_samples(s, &mut b);
                        format!("has={:?}", if rc == IOX2_OK { Ok(b) } else { Err::<bool, i32>(-1) })
                    }
                },
                Op::Counts => {
                    let (rp, rs) = match &rf {
                        Factory::R64(f) => (f.dynamic_config().number_of_publishers(), f.dynamic_config().number_of_subscribers()),
                        Factory::RSl(f) => (f.dynamic_config().number_of_publishers(), f.dynamic_config().number_of_subscribers()),
                        _ => unreachable!(),
                    };
                    let (cp, cs) = (iox2_port_factory_pub_sub_dynamic_config_number_of_publishers(&cfh), iox2_port_factory_pub_sub_dynamic_config_number_of_subscribers(&cfh));
                    if (rp, rs) != (cp, cs) {
                        bad.push(("port_counts_differ_between_apis".into(), format!("Rust handle sees {}/{} publishers/subscribers, C handle {}/{}", rp, rs, cp, cs)));
                    }
                    let live = pubs.iter().filter(|p| p.is_some()).count();
                    let lives = subs.iter().filter(|p| p.is_some()).count();
                    if (cp, cs) != (live, lives) {
                        bad.push(("handle_release_not_exact".into(), format!("{} publisher and {} subscriber handles are live but the service counts {}/{}", live, lives, cp, cs)));
                    }
                    format!("counts={}/{}", cp, cs)
                }
                Op::OpenIncompatible(which) => {
                    // an opener asking for more than the creator granted, through both APIs
                    let r = if cfg.slice {
                        let b = rnode.service_builder(&sname).publish_subscribe::<[u8]>();
                        match which % 3 {
                            0 => b.max_publishers(cfg.max_publishers + 1).open().map(|_| ()).map_err(code),
                            1 => b.subscriber_max_buffer_size(cfg.buffer + 1).open().map(|_| ()).map_err(code),
                            _ => b.enable_safe_overflow(!cfg.overflow).open().map(|_| ()).map_err(code),
                        }
                    } else {
                        let b = rnode.service_builder(&sname).publish_subscribe::<u64>();
                        match which % 3 {
                            0 => b.max_publishers(cfg.max_publishers + 1).open().map(|_| ()).map_err(code),
                            1 => b.subscriber_max_buffer_size(cfg.buffer + 1).open().map(|_| ()).map_err(code),
                            _ => b.enable_safe_overflow(!cfg.overflow).open().map(|_| ()).map_err(code),
                        }
                    };
                    let b = c_builder(&cnode, name, cfg);
                    match which % 3 {
                        0 => iox2_service_builder_pub_sub_set_max_publishers(&b, cfg.max_publishers + 1),
                        1 => iox2_service_builder_pub_sub_set_subscriber_max_buffer_size(&b, cfg.buffer + 1),
                        _ => iox2_service_builder_pub_sub_set_enable_safe_overflow(&b, !cfg.overflow),
                    }
                    let mut f: iox2_port_factory_pub_sub_h = core::ptr::null_mut();
                    let rc = iox2_service_builder_pub_sub_open(b, core::ptr::null_mut(), &mut f);
                    let c: Result<(), i32> = if rc == IOX2_OK {
                        iox2_port_factory_pub_sub_drop(f);
                        Ok(())
                    } else {
                        Err(rc)
                    };
                    if r != c {
                        bad.push(("open_result_differs_between_apis".into(), format!("incompatible open #{}: Rust {:?} (as C code), C {:?}", which % 3, r, c)));
                    }
                    format!("open_incompatible={:?}", c)
                }
            };
            trace.push(line);
        }
        // release everything through the API it came from
        for i in 0..2 {
            for (l, _) in loans[i].drain(..) {
                drop_loan(l);
            }
            for h in held[i].drain(..) {
                drop_held(h);
            }
        }
        for p in pubs.iter_mut() {
            match p.take() {
                Some(Pubr::C(p)) => iox2_publisher_drop(p),
                other => drop(other),
            }
        }
        for s in subs.iter_mut() {
            match s.take() {
                Some(Subr::C(s)) => iox2_subscriber_drop(s),
                other => drop(other),
            }
        }
        let (cp, cs) = (iox2_port_factory_pub_sub_dynamic_config_number_of_publishers(&cfh), iox2_port_factory_pub_sub_dynamic_config_number_of_subscribers(&cfh));
        if (cp, cs) != (0, 0) {
            bad.push(("handle_release_not_exact".into(), format!("all port handles were dropped but the service still counts {}/{} publishers/subscribers", cp, cs)));
        }
        iox2_port_factory_pub_sub_drop(cfh);
        drop(rf);
        iox2_node_drop(cnode.h);
        drop(rnode);
    }
    let residue = d.residue();
    Outcome { trace, bad, residue }
}

unsafe fn drop_loan(l: Loaned) {
    match l {
        Loaned::C(l) => iox2_sample_mut_drop(l),
        other => drop(other),
    }
}
unsafe fn drop_held(h: Held) {
    match h {
        Held::C(h) => iox2_sample_drop(h),
        other => drop(other),
    }
}

pub fn gen(rng: &mut Rng) -> (Cfg, Vec<Op>) {
    let cfg = Cfg {
        slice: rng.chance(1, 2),
        max_publishers: rng.range(1, 2) as usize,
        max_subscribers: rng.range(1, 2) as usize,
        buffer: rng.range(1, 3) as usize,
        borrowed: rng.range(1, 2) as usize,
        history: rng.below(2) as usize,
        overflow: rng.chance(1, 2),
        max_loans: rng.range(1, 2) as usize,
        local: false,
    };
    let n = rng.range(8, 28) as usize;
    let mut ops = vec![Op::CreatePub(0), Op::CreateSub(0)];
    let mut tag = 1u8;
    for _ in 0..n {
        let i = rng.below(2) as usize;
        let op = match rng.below(20) {
            0 => Op::CreatePub(i),
            1 => Op::DropPub(i),
            2 => Op::CreateSub(i),
            3 => Op::DropSub(i),
            4..=8 => {
                tag = tag.wrapping_add(1);
                Op::Send(i, tag, rng.range(1, 40) as usize)
            }
            9 | 10 => Op::Loan(i, rng.range(1, 40) as usize),
            11 => {
                tag = tag.wrapping_add(1);
                Op::SendLoan(i, tag)
            }
            12 => Op::DropLoan(i),
            13..=15 => Op::Recv(i),
            16 => Op::Release(i),
            17 => Op::Has(i),
            18 => Op::Counts,
            _ => Op::OpenIncompatible(rng.below(3) as u8),
        };
        ops.push(op);
    }
    ops.push(Op::Counts);
    (cfg, ops)
}
