//! C18 — request-response differential (client/server through Rust or C, all assignments compared)
use crate::dom::Domain as Dom;
use crate::ps::{c_node_pub as c_node, IntoCode, Side};
use core::ffi::{c_char, c_void};
use iceoryx2::active_request::ActiveRequest;
use iceoryx2::pending_response::PendingResponse;
use iceoryx2::port::client::Client;
use iceoryx2::port::server::Server;
use iceoryx2::prelude::*;
use iceoryx2::service::port_factory::request_response::PortFactory;
use iceoryx2_ffi_c::*;
use vkit::Rng;

type S = iceoryx2::service::ipc::Service;

macro_rules! into_code {
    ($($t:ty),*) => { $(impl IntoCode for $t { fn code(self) -> i32 { iceoryx2_ffi_c::verif_into_c_int(self) as i32 } })* };
}
into_code!(
    iceoryx2::port::client::RequestSendError,
    iceoryx2::service::port_factory::client::ClientCreateError,
    iceoryx2::service::port_factory::server::ServerCreateError,
    iceoryx2::service::builder::request_response::RequestResponseOpenError,
    iceoryx2::service::builder::request_response::RequestResponseCreateError
);
fn code<E: IntoCode>(e: E) -> i32 {
    e.code()
}

#[derive(Clone, Debug)]
pub struct Cfg {
    pub max_clients: usize,
    pub max_servers: usize,
    pub active: usize,
    pub resp_buffer: usize,
}
#[derive(Clone, Debug)]
pub enum Op {
    CreateC(usize),
    DropC(usize),
    CreateS(usize),
    DropS(usize),
    Send(usize, u64),
    SRecv(usize),
    Respond(usize, usize, u64),
    DropActive(usize, usize),
    PRecv(usize, usize),
    DropPending(usize, usize),
    Connected,
}
enum Cl {
    R(Client<S, u64, (), u64, ()>),
    C(iox2_client_h),
}
enum Sv {
    R(Server<S, u64, (), u64, ()>),
    C(iox2_server_h),
}
enum Pend {
    R(PendingResponse<S, u64, (), u64, ()>),
    C(iox2_pending_response_h),
}
enum Act {
    R(ActiveRequest<S, u64, (), u64, ()>),
    C(iox2_active_request_h),
}

pub struct Outcome {
    pub trace: Vec<String>,
    pub bad: Vec<(String, String)>,
    pub residue: Vec<String>,
}

unsafe fn drop_pend(p: Pend) {
    match p {
        Pend::C(h) => iox2_pending_response_drop(h),
        other => drop(other),
    }
}
unsafe fn drop_act(a: Act) {
    match a {
        Act::C(h) => iox2_active_request_drop(h),
        other => drop(other),
    }
}

pub fn run(d: &Dom, name: &str, cfg: &Cfg, ops: &[Op], creator: Side, cside: [Side; 2], sside: [Side; 2]) -> Outcome {
    let mut trace = Vec::new();
    let bad: Vec<(String, String)> = Vec::new();
    unsafe {
        let rnode = NodeBuilder::new().config(&d.config).create::<S>().unwrap();
        let cnode = c_node(d);
        let sname: ServiceName = name.try_into().unwrap();
        let r_open = |create: bool| -> Result<PortFactory<S, u64, (), u64, ()>, i32> {
            let b = rnode.service_builder(&sname).request_response::<u64, u64>();
            if create {
                b.max_clients(cfg.max_clients).max_servers(cfg.max_servers).max_active_requests_per_client(cfg.active).max_response_buffer_size(cfg.resp_buffer).create().map_err(code)
            } else {
                b.open().map_err(code)
            }
        };
        let c_open = |create: bool| -> Result<iox2_port_factory_request_response_h, i32> {
            let mut sn: iox2_service_name_h = core::ptr::null_mut();
            assert_eq!(iox2_service_name_new(core::ptr::null_mut(), name.as_ptr() as *const c_char, name.len(), &mut sn), IOX2_OK);
            let b = iox2_node_service_builder(&cnode, core::ptr::null_mut(), iox2_cast_service_name_ptr(sn));
            iox2_service_name_drop(sn);
            let b = iox2_service_builder_request_response(b);
            let tn = "u64";
            assert_eq!(iox2_service_builder_request_response_set_request_payload_type_details(&b, iox2_type_variant_e::FIXED_SIZE, tn.as_ptr() as *const c_char, 3, 8, 8), IOX2_OK);
            assert_eq!(iox2_service_builder_request_response_set_response_payload_type_details(&b, iox2_type_variant_e::FIXED_SIZE, tn.as_ptr() as *const c_char, 3, 8, 8), IOX2_OK);
            let mut f: iox2_port_factory_request_response_h = core::ptr::null_mut();
            let rc = if create {
                iox2_service_builder_request_response_max_clients(&b, cfg.max_clients);
                iox2_service_builder_request_response_max_servers(&b, cfg.max_servers);
                iox2_service_builder_request_response_max_active_requests_per_client(&b, cfg.active);
                iox2_service_builder_request_response_max_response_buffer_size(&b, cfg.resp_buffer);
                iox2_service_builder_request_response_create(b, core::ptr::null_mut(), &mut f)
            } else {
                iox2_service_builder_request_response_open(b, core::ptr::null_mut(), &mut f)
            };
            if rc == IOX2_OK { Ok(f) } else { Err(rc) }
        };
        let (rf, cf) = match creator {
            Side::R => {
                let a = r_open(true);
                let b = c_open(false);
                (a, b)
            }
            Side::C => {
                let b = c_open(true);
                let a = r_open(false);
                (a, b)
            }
        };
        trace.push(format!("rust_handle={:?} c_handle={:?}", rf.as_ref().map(|_| ()), cf.as_ref().map(|_| ())));
        let (Ok(rf), Ok(cf)) = (rf, cf) else {
            iox2_node_drop(cnode);
            return Outcome { trace, bad, residue: d.residue() };
        };
        let mut cls: [Option<Cl>; 2] = [None, None];
        let mut svs: [Option<Sv>; 2] = [None, None];
        let mut pend: [Vec<Pend>; 2] = [Vec::new(), Vec::new()];
        let mut act: [Vec<Act>; 2] = [Vec::new(), Vec::new()];
        for op in ops {
            let line = match op {
                Op::CreateC(i) => {
                    if cls[*i].is_some() {
                        "create_client=skip".into()
                    } else {
                        let r: Result<Cl, i32> = match cside[*i] {
                            Side::R => rf.client_builder().backpressure_strategy(BackpressureStrategy::DiscardData).create().map(Cl::R).map_err(code),
                            Side::C => {
                                let b = iox2_port_factory_request_response_client_builder(&cf, core::ptr::null_mut());
                                iox2_port_factory_client_builder_backpressure_strategy(&b, iox2_backpressure_strategy_e::DISCARD_DATA);
                                let mut h: iox2_client_h = core::ptr::null_mut();
                                let rc = iox2_port_factory_client_builder_create(b, core::ptr::null_mut(), &mut h);
                                if rc == IOX2_OK { Ok(Cl::C(h)) } else { Err(rc) }
                            }
                        };
                        let l = format!("create_client={:?}", r.as_ref().map(|_| ()));
                        cls[*i] = r.ok();
                        l
                    }
                }
                Op::DropC(i) => {
                    for p in pend[*i].drain(..) {
                        drop_pend(p);
                    }
                    match cls[*i].take() {
                        Some(Cl::C(h)) => iox2_client_drop(h),
                        other => drop(other),
                    }
                    "drop_client".into()
                }
                Op::CreateS(j) => {
                    if svs[*j].is_some() {
                        "create_server=skip".into()
                    } else {
                        let r: Result<Sv, i32> = match sside[*j] {
                            Side::R => rf.server_builder().backpressure_strategy(BackpressureStrategy::DiscardData).create().map(Sv::R).map_err(code),
                            Side::C => {
                                let b = iox2_port_factory_request_response_server_builder(&cf, core::ptr::null_mut());
                                iox2_port_factory_server_builder_backpressure_strategy(&b, iox2_backpressure_strategy_e::DISCARD_DATA);
                                let mut h: iox2_server_h = core::ptr::null_mut();
                                let rc = iox2_port_factory_server_builder_create(b, core::ptr::null_mut(), &mut h);
                                if rc == IOX2_OK { Ok(Sv::C(h)) } else { Err(rc) }
                            }
                        };
                        let l = format!("create_server={:?}", r.as_ref().map(|_| ()));
                        svs[*j] = r.ok();
                        l
                    }
                }
                Op::DropS(j) => {
                    for a in act[*j].drain(..) {
                        drop_act(a);
                    }
                    match svs[*j].take() {
                        Some(Sv::C(h)) => iox2_server_drop(h),
                        other => drop(other),
                    }
                    "drop_server".into()
                }
                Op::Send(i, v) => match &cls[*i] {
                    None => "send=noport".into(),
                    Some(Cl::R(c)) => match c.send_copy(*v) {
                        Ok(p) => {
                            pend[*i].push(Pend::R(p));
                            "send=Ok".into()
                        }
                        Err(e) => format!("send=Err({})", code(e)),
                    },
                    Some(Cl::C(c)) => {
                        let mut p: iox2_pending_response_h = core::ptr::null_mut();
                        let rc = iox2_client_send_copy(c, v as *const u64 as *const c_void, 8, 1, core::ptr::null_mut(), &mut p);
                        if rc == IOX2_OK {
                            pend[*i].push(Pend::C(p));
                            "send=Ok".into()
                        } else {
                            format!("send=Err({})", rc)
                        }
                    }
                },
                Op::SRecv(j) => match &svs[*j] {
                    None => "srecv=noport".into(),
                    Some(Sv::R(s)) => match s.receive() {
                        Ok(Some(a)) => {
                            let v = *a.payload();
                            act[*j].push(Act::R(a));
                            format!("srecv=Ok(Some({}))", v)
                        }
                        Ok(None) => "srecv=Ok(None)".into(),
                        Err(e) => format!("srecv=Err({})", iceoryx2_ffi_c::verif_into_c_int(e) as i32),
                    },
                    Some(Sv::C(s)) => {
                        let mut a: iox2_active_request_h = core::ptr::null_mut();
                        let rc = iox2_server_receive(s, core::ptr::null_mut(), &mut a);
                        if rc != IOX2_OK {
                            format!("srecv=Err({})", rc)
                        } else if a.is_null() {
                            "srecv=Ok(None)".into()
                        } else {
                            let mut ptr: *const c_void = core::ptr::null();
                            let mut n = 0usize;
                            iox2_active_request_payload(&a, &mut ptr, &mut n);
                            let v = *(ptr as *const u64);
                            act[*j].push(Act::C(a));
                            format!("srecv=Ok(Some({}))", v)
                        }
                    }
                },
                Op::Respond(j, k, v) => match act[*j].get(k % act[*j].len().max(1)) {
                    None => "respond=none".into(),
                    Some(Act::R(a)) => format!("respond={:?}", a.send_copy(*v).map_err(|e| iceoryx2_ffi_c::verif_into_c_int(e) as i32)),
                    Some(Act::C(a)) => {
                        let rc = iox2_active_request_send_copy(a, v as *const u64 as *const c_void, 8, 1);
                        format!("respond={:?}", if rc == IOX2_OK { Ok(()) } else { Err(rc) })
                    }
                },
                Op::DropActive(j, k) => {
                    if act[*j].is_empty() {
                        "drop_active=none".into()
                    } else {
                        let at = k % act[*j].len();
                        drop_act(act[*j].remove(at));
                        "drop_active".into()
                    }
                }
                Op::PRecv(i, k) => match pend[*i].get(k % pend[*i].len().max(1)) {
                    None => "precv=none".into(),
                    Some(Pend::R(p)) => match p.receive() {
                        Ok(Some(r)) => format!("precv=Ok(Some({}))", *r.payload()),
                        Ok(None) => "precv=Ok(None)".into(),
                        Err(e) => format!("precv=Err({})", iceoryx2_ffi_c::verif_into_c_int(e) as i32),
                    },
                    Some(Pend::C(p)) => {
                        let mut r: iox2_response_h = core::ptr::null_mut();
                        let rc = iox2_pending_response_receive(p, core::ptr::null_mut(), &mut r);
                        if rc != IOX2_OK {
                            format!("precv=Err({})", rc)
                        } else if r.is_null() {
                            "precv=Ok(None)".into()
                        } else {
                            let mut ptr: *const c_void = core::ptr::null();
                            let mut n = 0usize;
                            iox2_response_payload(&r, &mut ptr, &mut n);
                            let v = *(ptr as *const u64);
                            iox2_response_drop(r);
                            format!("precv=Ok(Some({}))", v)
                        }
                    }
                },
                Op::DropPending(i, k) => {
                    if pend[*i].is_empty() {
                        "drop_pending=none".into()
                    } else {
                        let at = k % pend[*i].len();
                        drop_pend(pend[*i].remove(at));
                        "drop_pending".into()
                    }
                }
                Op::Connected => {
                    let mut s = String::from("connected=");
                    for i in 0..2 {
                        for p in &pend[i] {
                            s.push(match p {
                                Pend::R(p) => if p.is_connected() { 'p' } else { 'x' },
                                Pend::C(p) => if iox2_pending_response_is_connected(p) { 'p' } else { 'x' },
                            });
                        }
                        for a in &act[i] {
                            s.push(match a {
                                Act::R(a) => if a.is_connected() { 'a' } else { 'y' },
                                Act::C(a) => if iox2_active_request_is_connected(a) { 'a' } else { 'y' },
                            });
                        }
                    }
                    s
                }
            };
            trace.push(line);
        }
        for i in 0..2 {
            for p in pend[i].drain(..) {
                drop_pend(p);
            }
            for a in act[i].drain(..) {
                drop_act(a);
            }
        }
        for c in cls.iter_mut() {
            match c.take() {
                Some(Cl::C(h)) => iox2_client_drop(h),
                other => drop(other),
            }
        }
        for s in svs.iter_mut() {
            match s.take() {
                Some(Sv::C(h)) => iox2_server_drop(h),
                other => drop(other),
            }
        }
        iox2_port_factory_request_response_drop(cf);
        drop(rf);
        iox2_node_drop(cnode);
        drop(rnode);
    }
    Outcome { trace, bad, residue: d.residue() }
}

pub fn gen(rng: &mut Rng) -> (Cfg, Vec<Op>) {
    let cfg = Cfg { max_clients: rng.range(1, 2) as usize, max_servers: rng.range(1, 2) as usize, active: rng.range(1, 3) as usize, resp_buffer: rng.range(1, 3) as usize };
    let mut ops = vec![Op::CreateS(0), Op::CreateC(0)];
    let mut v = 100u64;
    for _ in 0..rng.range(8, 40) {
        let i = rng.below(2) as usize;
        let k = rng.below(4) as usize;
        v += 1;
        if rng.chance(1, 8) {
            // channel-reuse gadget: answer a request, abandon its pending response unread, then keep sending
            // until the channel is recycled and read the newest pending response
            ops.push(Op::Send(0, v));
            ops.push(Op::SRecv(0));
            ops.push(Op::Respond(0, 3, v + 1000));
            ops.push(Op::DropPending(0, 3));
            for r in 0..cfg.active + 1 {
                ops.push(Op::Send(0, v + 2000 + r as u64));
                ops.push(Op::SRecv(0));
                ops.push(Op::Respond(0, 7, v + 3000 + r as u64));
                ops.push(Op::PRecv(0, 7));
                ops.push(Op::PRecv(0, 7));
                ops.push(Op::DropPending(0, 7));
                ops.push(Op::DropActive(0, 0));
            }
            continue;
        }
        ops.push(match rng.below(20) {
            0 => Op::CreateC(i),
            1 => Op::DropC(i),
            2 => Op::CreateS(i),
            3 => Op::DropS(i),
            4..=7 => Op::Send(i, v),
            8..=10 => Op::SRecv(i),
            11..=13 => Op::Respond(i, k, v),
            14 => Op::DropActive(i, k),
            15..=17 => Op::PRecv(i, k),
            18 => Op::DropPending(i, k),
            _ => Op::Connected,
        });
    }
    ops.push(Op::Connected);
    (cfg, ops)
}
