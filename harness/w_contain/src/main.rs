//! Containers, allocators, relocation, names: C14, C15, C16, C19 (depends on `bb` crates only: also runs under Miri).
extern crate iceoryx2_bb_loggers;
mod c14;
mod c15;
mod c16;
mod c19;

fn main() {
    let args = vkit::Args::parse();
    iceoryx2_log::set_log_level(iceoryx2_log::LogLevel::Fatal);
    let rep = match args.sub.as_str() {
        "c14" => c14::run(&args),
        "c15" => c15::run(&args),
        "c16" => c16::run(&args),
        "c19" => c19::run(&args),
        "warmup" => return,
        other => {
            eprintln!("unknown sub command {:?}", other);
            std::process::exit(2);
        }
    };
    rep.emit();
}
