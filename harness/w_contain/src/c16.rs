//! C16 — fixed-capacity containers match reference models and drop every element exactly once.
//!
//! Differential execution against `std` models after every operation (full observable state),
//! element life table {alive -> dropped}: a second drop, a read of a dropped element or an element
//! alive after the container is gone is a violation.  All operation sequences up to a length bound
//! are enumerated per (container, storage flavour, capacity); longer random sequences on top.
use iceoryx2_bb_container::flatmap::*;
use iceoryx2_bb_container::queue::*;
use iceoryx2_bb_container::slotmap::*;
use iceoryx2_bb_container::string::{StaticString, String as IoxString};
type StdString = std::string::String;
use iceoryx2_bb_container::vector::*;
use iceoryx2_bb_memory::heap_allocator::HeapAllocator;
use std::cell::RefCell;
use std::collections::{BTreeMap, VecDeque};
use vkit::{Args, Json, Report, Rng};

thread_local! {
    static LIFE: RefCell<Vec<u8>> = const { RefCell::new(Vec::new()) };
    static ERR: RefCell<Vec<StdString>> = const { RefCell::new(Vec::new()) };
    static CUR_OP: RefCell<StdString> = const { RefCell::new(StdString::new()) };
}

#[derive(Debug)]
pub struct El {
    uid: usize,
    val: u8,
}
impl El {
    fn new(val: u8) -> Self {
        let uid = LIFE.with(|l| {
            let mut l = l.borrow_mut();
            l.push(1);
            l.len() - 1
        });
        El { uid, val }
    }
    fn v(&self) -> u8 {
        LIFE.with(|l| {
            if l.borrow()[self.uid] != 1 {
                ERR.with(|e| e.borrow_mut().push(format!("element {} used after its drop", self.uid)));
            }
        });
        self.val
    }
}
impl Drop for El {
    fn drop(&mut self) {
        LIFE.with(|l| {
            let mut l = l.borrow_mut();
            if l[self.uid] != 1 {
                ERR.with(|e| e.borrow_mut().push(format!("element {} dropped twice", self.uid)));
            }
            l[self.uid] = 2;
        });
    }
}
impl Clone for El {
    fn clone(&self) -> Self {
        El::new(self.v())
    }
}

fn life_reset() {
    LIFE.with(|l| l.borrow_mut().clear());
    ERR.with(|e| e.borrow_mut().clear());
}
type R = Result<(), (StdString, StdString)>;
fn life_check() -> R {
    let leaked = LIFE.with(|l| l.borrow().iter().filter(|s| **s == 1).count());
    let errs = ERR.with(|e| e.borrow().clone());
    if !errs.is_empty() {
        return Err(("element_dropped_twice_or_used_after_drop".into(), errs.join("; ")));
    }
    if leaked > 0 {
        return Err(("element_never_dropped".into(), format!("{} elements still alive after the container was dropped", leaked)));
    }
    Ok(())
}
fn op(name: &str) {
    CUR_OP.with(|c| *c.borrow_mut() = name.to_string());
}
macro_rules! bad {
    ($rule:expr, $($a:tt)*) => { return Err(($rule.to_string(), format!($($a)*))) };
}

// ------------------------------------------------------------------------------------------------
pub fn queue_hist<const C: usize>(seq: &[usize], heap: bool) -> R {
    life_reset();
    {
        let mut m: VecDeque<u8> = VecDeque::new();
        enum Q<const C: usize> {
            H(Queue<El>),
            F(FixedSizeQueue<El, C>),
        }
        let mut q = if heap { Q::<C>::H(Queue::new(C)) } else { Q::<C>::F(FixedSizeQueue::new()) };
        macro_rules! q { ($q:ident => $e:expr) => { match &mut q { Q::H($q) => $e, Q::F($q) => $e } } }
        for (step, o) in seq.iter().enumerate() {
            let val = step as u8 + 1;
            match o {
                0 => {
                    op("push");
                    let r = q!(x => x.push(El::new(val)));
                    let exp = m.len() < C;
                    if exp {
                        m.push_back(val);
                    }
                    if r != exp {
                        bad!("push_result", "push -> {} model {}", r, exp);
                    }
                }
                1 => {
                    op("push_with_overflow");
                    let r = q!(x => x.push_with_overflow(El::new(val))).map(|e| e.v());
                    let exp = if C == 0 { Some(val) } else if m.len() == C { m.pop_front() } else { None };
                    if C > 0 {
                        m.push_back(val);
                    }
                    if r != exp {
                        bad!("push_with_overflow_result", "push_with_overflow -> {:?} model {:?}", r, exp);
                    }
                }
                2 => {
                    op("pop");
                    let r = q!(x => x.pop()).map(|e| e.v());
                    let exp = m.pop_front();
                    if r != exp {
                        bad!("pop_result", "pop -> {:?} model {:?}", r, exp);
                    }
                }
                3 => {
                    op("clear");
                    q!(x => x.clear());
                    m.clear();
                }
                _ => {
                    op("peek");
                    let r = q!(x => x.peek().map(|e| e.v()));
                    if r != m.front().cloned() {
                        bad!("peek_result", "peek -> {:?} model {:?}", r, m.front());
                    }
                }
            }
            op("observers");
            let (len, full, empty, cap) = q!(x => (x.len(), x.is_full(), x.is_empty(), x.capacity()));
            if len != m.len() || full != (m.len() == C) || empty != m.is_empty() || cap != C {
                bad!("observers", "len/full/empty/capacity {} {} {} {} model len {} cap {}", len, full, empty, cap, m.len(), C);
            }
        }
    }
    life_check()
}

pub fn slotmap_hist<const C: usize>(seq: &[usize], heap: bool) -> R {
    life_reset();
    {
        let mut m: BTreeMap<usize, u8> = BTreeMap::new();
        enum Q<const C: usize> {
            H(SlotMap<El>),
            F(FixedSizeSlotMap<El, C>),
        }
        let mut q = if heap { Q::<C>::H(SlotMap::new(C)) } else { Q::<C>::F(FixedSizeSlotMap::new()) };
        macro_rules! q { ($q:ident => $e:expr) => { match &mut q { Q::H($q) => $e, Q::F($q) => $e } } }
        for (step, o) in seq.iter().enumerate() {
            let val = step as u8 + 1;
            match o {
                0 => {
                    op("insert");
                    let nf = q!(x => x.next_free_key());
                    let r = q!(x => x.insert(El::new(val)));
                    match r {
                        Some(k) => {
                            if m.len() >= C {
                                bad!("insert_beyond_capacity", "insert succeeded with {} of {} slots used", m.len(), C);
                            }
                            if m.contains_key(&k.value()) {
                                bad!("insert_returned_live_key", "insert returned key {} which is in use (its value is overwritten)", k.value());
                            }
                            if nf != Some(k) {
                                bad!("next_free_key_wrong", "next_free_key {:?} but insert used {:?}", nf, k);
                            }
                            m.insert(k.value(), val);
                        }
                        None => {
                            if m.len() < C {
                                bad!("insert_refused", "insert failed with len {} < capacity {}", m.len(), C);
                            }
                        }
                    }
                }
                // K = min(C, 4) in-range keys plus the out-of-range key C, for insert_at and for remove
                o if *o >= 1 && *o <= C.min(4) + 1 => {
                    let k = if o - 1 < C.min(4) { o - 1 } else { C };
                    op(if k >= C { "insert_at(key >= capacity)" } else { "insert_at" });
                    let r = q!(x => x.insert_at(SlotMapKey::new(k), El::new(val)));
                    let exp = k < C;
                    if exp {
                        m.insert(k, val);
                    }
                    if r != exp {
                        bad!("insert_at_result", "insert_at({}) -> {} model {}", k, r, exp);
                    }
                }
                o if *o >= C.min(4) + 2 && *o <= 2 * C.min(4) + 2 => {
                    let i = o - (C.min(4) + 2);
                    let k = if i < C.min(4) { i } else { C };
                    op(if k >= C { "remove(key >= capacity)" } else { "remove" });
                    let r = q!(x => x.remove(SlotMapKey::new(k))).map(|e| e.v());
                    let exp = m.remove(&k);
                    if r != exp {
                        bad!("remove_result", "remove({}) -> {:?} model {:?}", k, r, exp);
                    }
                }
                _ => {}
            }
            op("observers");
            let (len, full, empty) = q!(x => (x.len(), x.is_full(), x.is_empty()));
            if len != m.len() || full != (m.len() == C) || empty != m.is_empty() {
                bad!("observers", "len {} full {} empty {} model len {} capacity {}", len, full, empty, m.len(), C);
            }
            for k in 0..C {
                let g = q!(x => x.get(SlotMapKey::new(k)).map(|e| e.v()));
                if g != m.get(&k).cloned() {
                    bad!("get_result", "get({}) -> {:?} model {:?}", k, g, m.get(&k));
                }
                let c = q!(x => x.contains(SlotMapKey::new(k)));
                if c != m.contains_key(&k) {
                    bad!("contains_result", "contains({}) -> {} model {}", k, c, m.contains_key(&k));
                }
            }
            let mut it: Vec<(usize, u8)> = q!(x => x.iter().map(|(k, e)| (k.value(), e.v())).collect());
            it.sort();
            let mm: Vec<(usize, u8)> = m.iter().map(|(k, v)| (*k, *v)).collect();
            if it != mm {
                bad!("iter_result", "iter {:?} model {:?}", it, mm);
            }
        }
    }
    life_check()
}

pub fn flatmap_hist<const C: usize>(seq: &[usize], heap: bool) -> R {
    life_reset();
    {
        let mut m: BTreeMap<u8, u8> = BTreeMap::new();
        enum Q<const C: usize> {
            H(FlatMap<u8, El>),
            F(FixedSizeFlatMap<u8, El, C>),
        }
        let mut q = if heap { Q::<C>::H(FlatMap::new(C)) } else { Q::<C>::F(FixedSizeFlatMap::new()) };
        macro_rules! q { ($q:ident => $e:expr) => { match &mut q { Q::H($q) => $e, Q::F($q) => $e } } }
        for (step, o) in seq.iter().enumerate() {
            let val = step as u8 + 1;
            match o {
                0 | 1 | 2 => {
                    op("insert");
                    let k = *o as u8;
                    let r = q!(x => x.insert(k, El::new(val)));
                    let exp_ok = !m.contains_key(&k) && m.len() < C;
                    if exp_ok {
                        m.insert(k, val);
                    }
                    if r.is_ok() != exp_ok {
                        bad!("insert_result", "insert({}) -> {:?} model ok={}", k, r.map(|_| ()), exp_ok);
                    }
                }
                3 | 4 | 5 => {
                    op("remove");
                    let k = (o - 3) as u8;
                    let r = q!(x => x.remove(&k)).map(|e| e.v());
                    let exp = m.remove(&k);
                    if r != exp {
                        bad!("remove_result", "remove({}) -> {:?} model {:?}", k, r, exp);
                    }
                }
                _ => {}
            }
            op("observers");
            let (len, full, empty) = q!(x => (x.len(), x.is_full(), x.is_empty()));
            if len != m.len() || full != (m.len() == C) || empty != m.is_empty() {
                bad!("observers", "len {} full {} empty {} model {}", len, full, empty, m.len());
            }
            for k in 0..3u8 {
                let g = q!(x => x.get(&k).map(|e| e.v()));
                if g != m.get(&k).cloned() {
                    bad!("get_result", "get({}) -> {:?} model {:?}", k, g, m.get(&k));
                }
                let c = q!(x => x.contains(&k));
                if c != m.contains_key(&k) {
                    bad!("contains_result", "contains({}) -> {}", k, c);
                }
            }
        }
    }
    life_check()
}

fn vec_ops<V: Vector<El>>(q: &mut V, cap: usize, seq: &[usize]) -> R {
    let mut m: Vec<u8> = Vec::new();
    for (step, o) in seq.iter().enumerate() {
        let val = step as u8 + 1;
        match o {
            0 => {
                op("push");
                let r = q.push(El::new(val));
                let exp = m.len() < cap;
                if exp {
                    m.push(val);
                }
                if r.is_ok() != exp {
                    bad!("push_result", "push ok={} model {}", r.is_ok(), exp);
                }
            }
            1 => {
                op("pop");
                let r = q.pop().map(|e| e.v());
                let exp = m.pop();
                if r != exp {
                    bad!("pop_result", "pop {:?} model {:?}", r, exp);
                }
            }
            2 | 3 => {
                let idx = o - 2;
                if idx > m.len() {
                    continue; // documented to panic
                }
                op("insert");
                let r = q.insert(idx, El::new(val));
                let exp = m.len() < cap;
                if exp {
                    m.insert(idx, val);
                }
                if r.is_ok() != exp {
                    bad!("insert_result", "insert({}) ok={} model {}", idx, r.is_ok(), exp);
                }
            }
            4 | 5 => {
                op("remove");
                let idx = o - 4;
                let r = q.remove(idx).map(|e| e.v());
                let exp = if idx < m.len() { Some(m.remove(idx)) } else { None };
                if r != exp {
                    bad!("remove_result", "remove({}) {:?} model {:?}", idx, r, exp);
                }
            }
            6 => {
                op("truncate");
                q.truncate(1);
                m.truncate(1);
            }
            7 => {
                op("resize_with");
                let r = q.resize_with(2, || El::new(val));
                let exp = 2 <= cap;
                if exp {
                    m.resize(2, val);
                }
                if r.is_ok() != exp {
                    bad!("resize_result", "resize_with(2) ok={} model {}", r.is_ok(), exp);
                }
            }
            8 => {
                op("extend_from_slice");
                let src = [El::new(val), El::new(val.wrapping_add(100))];
                let r = q.extend_from_slice(&src);
                let exp = m.len() + 2 <= cap;
                if exp {
                    m.push(val);
                    m.push(val.wrapping_add(100));
                }
                if r.is_ok() != exp {
                    bad!("extend_result", "extend_from_slice(2) ok={} model {}", r.is_ok(), exp);
                }
            }
            _ => {
                op("clear");
                q.clear();
                m.clear();
            }
        }
        op("observers");
        let got: Vec<u8> = q.as_slice().iter().map(|e| e.v()).collect();
        if got != m {
            bad!("contents", "contents {:?} model {:?}", got, m);
        }
        if q.len() != m.len() || q.is_full() != (m.len() == cap) || q.is_empty() != m.is_empty() || q.capacity() != cap {
            bad!("observers", "len {} full {} capacity {} model len {} cap {}", q.len(), q.is_full(), q.capacity(), m.len(), cap);
        }
    }
    Ok(())
}

pub fn vec_hist<const C: usize>(seq: &[usize], heap: bool) -> R {
    life_reset();
    {
        if heap {
            let alloc = HeapAllocator::new();
            let mut q = PolymorphicVec::<El, HeapAllocator>::new(&alloc, C).map_err(|e| ("create_failed".to_string(), format!("{:?}", e)))?;
            vec_ops(&mut q, C, seq)?;
        } else {
            let mut q = StaticVec::<El, C>::new();
            vec_ops(&mut q, C, seq)?;
        }
    }
    life_check()
}

const BYTES: [u8; 4] = [b'a', b'b', 0, 200];

fn string_ops<S: IoxString>(q: &mut S, cap: usize, seq: &[usize]) -> R {
    let mut m: Vec<u8> = Vec::new();
    let valid = |b: u8| b != 0 && b < 128;
    for o in seq {
        match o {
            0..=3 => {
                op("push");
                let b = BYTES[*o];
                let r = q.push(b);
                let exp = m.len() < cap && valid(b);
                if exp {
                    m.push(b);
                }
                if r.is_ok() != exp {
                    bad!("push_result", "push({}) ok={} model {} (len {} cap {})", b, r.is_ok(), exp, m.len(), cap);
                }
            }
            4 | 5 => {
                let idx = if *o == 4 { 0 } else { m.len() };
                op("insert");
                let r = q.insert(idx, b'c');
                let exp = m.len() < cap;
                if exp {
                    m.insert(idx, b'c');
                }
                if r.is_ok() != exp {
                    bad!("insert_result", "insert({}) ok={} model {}", idx, r.is_ok(), exp);
                }
            }
            6 => {
                op("pop");
                let r = q.pop();
                let exp = m.pop();
                if r != exp {
                    bad!("pop_result", "pop {:?} model {:?}", r, exp);
                }
            }
            7 | 8 | 9 => {
                let idx = match o { 7 => 0, 8 => m.len().saturating_sub(1), _ => m.len() };
                op(if idx >= m.len() { "remove(idx >= len)" } else { "remove" });
                let r = q.remove(idx);
                let exp = if idx < m.len() { Some(m.remove(idx)) } else { None };
                if r != exp {
                    bad!("remove_result", "remove({}) -> {:?} model {:?} (len before {})", idx, r, exp, m.len() + exp.is_some() as usize);
                }
            }
            10 | 11 => {
                let (idx, len) = if *o == 10 { (0, 2) } else { (1, 1) };
                op("remove_range");
                let r = q.remove_range(idx, len);
                let exp = idx + len <= m.len();
                if exp {
                    m.drain(idx..idx + len);
                }
                if r != exp {
                    bad!("remove_range_result", "remove_range({},{}) -> {} model {}", idx, len, r, exp);
                }
            }
            12 => {
                op("truncate");
                q.truncate(1);
                m.truncate(1);
            }
            13 => {
                op("push_bytes");
                let r = q.push_bytes(b"ab");
                let exp = m.len() + 2 <= cap;
                if exp {
                    m.extend_from_slice(b"ab");
                }
                if r.is_ok() != exp {
                    bad!("push_bytes_result", "push_bytes(ab) ok={} model {}", r.is_ok(), exp);
                }
            }
            14 => {
                op("strip_prefix");
                let r = q.strip_prefix(b"a");
                let exp = m.starts_with(b"a");
                if exp {
                    m.remove(0);
                }
                if r != exp {
                    bad!("strip_prefix_result", "strip_prefix(a) -> {} model {}", r, exp);
                }
            }
            15 => {
                op("strip_suffix");
                let r = q.strip_suffix(b"b");
                let exp = m.ends_with(b"b");
                if exp {
                    m.pop();
                }
                if r != exp {
                    bad!("strip_suffix_result", "strip_suffix(b) -> {} model {}", r, exp);
                }
            }
            16 => {
                op("retain");
                // removes every byte for which f returns true (pinned by the upstream test `retain_works` and
                // documented that way for SemanticString::retain; the doc line of String::retain says the opposite)
                q.retain(|c| c == b'a');
                m.retain(|c| *c != b'a');
            }
            17 => {
                op("find");
                let r = q.find(b"ab");
                let exp = m.windows(2).position(|w| w == b"ab");
                if r != exp {
                    bad!("find_result", "find(ab) -> {:?} model {:?}", r, exp);
                }
                let r = q.rfind(b"b");
                let exp = m.iter().rposition(|c| *c == b'b');
                if r != exp {
                    bad!("rfind_result", "rfind(b) -> {:?} model {:?}", r, exp);
                }
            }
            _ => {
                op("clear");
                q.clear();
                m.clear();
            }
        }
        op("observers");
        if q.as_bytes() != &m[..] {
            bad!("contents", "after {}: contents {:?} model {:?}", CUR_OP.with(|c| c.borrow().clone()), q.as_bytes(), m);
        }
        if q.len() != m.len() || q.is_full() != (m.len() == cap) || q.is_empty() != m.is_empty() || q.capacity() != cap {
            bad!("observers", "len {} full {} model len {} cap {}", q.len(), q.is_full(), m.len(), cap);
        }
        let z = q.as_bytes_with_nul();
        if z.len() != m.len() + 1 || z[m.len()] != 0 {
            bad!("nul_termination", "as_bytes_with_nul {:?} model {:?}", z, m);
        }
        if m.iter().any(|b| !valid(*b)) {
            bad!("invalid_content_accepted", "string contains a byte outside 1..=127: {:?}", m);
        }
    }
    Ok(())
}

pub fn string_hist<const C: usize>(seq: &[usize], _heap: bool) -> R {
    let mut q = StaticString::<C>::new();
    string_ops(&mut q, C, seq)
}

// ------------------------------------------------------------------------------------------------
pub fn option_hist(seq: &[usize]) -> R {
    use iceoryx2_bb_container::relocatable_option::RelocatableOption;
    life_reset();
    {
        let mut m: Option<u8> = None;
        let mut q: RelocatableOption<El> = RelocatableOption::None;
        for (step, o) in seq.iter().enumerate() {
            let val = step as u8 + 1;
            match o {
                0 => {
                    op("replace");
                    let old = q.replace(El::new(val)).to_option().map(|e| e.v());
                    if old != m.replace(val) {
                        bad!("replace_result", "replace returned {:?}", old);
                    }
                }
                1 => {
                    op("take");
                    let t = q.take().to_option().map(|e| e.v());
                    if t != m.take() {
                        bad!("take_result", "take returned {:?}", t);
                    }
                }
                2 | 3 => {
                    op("take_if");
                    let want = *o == 2;
                    let t = q.take_if(|e| {
                        let _ = e.v();
                        want
                    })
                    .to_option()
                    .map(|e| e.v());
                    let exp = if want { m.take() } else { None };
                    if t != exp {
                        bad!("take_if_result", "take_if({}) returned {:?} model {:?}", want, t, exp);
                    }
                }
                4 => {
                    op("as_mut");
                    if let Some(e) = q.as_option_mut() {
                        *e = El::new(val);
                        m = Some(val);
                    } else if m.is_some() {
                        bad!("as_mut_result", "as_option_mut is None although a value is stored");
                    }
                }
                5 => {
                    op("map");
                    let taken = core::mem::replace(&mut q, RelocatableOption::None);
                    q = taken.map(|e| El::new(e.v().wrapping_add(1)));
                    m = m.map(|v| v.wrapping_add(1));
                }
                _ => {
                    op("unwrap_or");
                    let taken = core::mem::replace(&mut q, RelocatableOption::None);
                    let v = taken.unwrap_or(El::new(200)).v();
                    if v != m.take().unwrap_or(200) {
                        bad!("unwrap_or_result", "unwrap_or returned {}", v);
                    }
                }
            }
            op("observers");
            if q.is_some() != m.is_some() || q.is_none() != m.is_none() || q.as_option_ref().map(|e| e.v()) != m {
                bad!("observers", "is_some {} value {:?} model {:?}", q.is_some(), q.as_option_ref().map(|e| e.v()), m);
            }
        }
    }
    life_check()
}

struct Target {
    name: &'static str,
    alphabet: usize,
    run: fn(&[usize]) -> R,
}

fn targets() -> Vec<Target> {
    vec![
        Target { name: "queue:heap:cap0", alphabet: 5, run: |s| queue_hist::<0>(s, true) },
        Target { name: "queue:heap:cap1", alphabet: 5, run: |s| queue_hist::<1>(s, true) },
        Target { name: "queue:heap:cap2", alphabet: 5, run: |s| queue_hist::<2>(s, true) },
        Target { name: "queue:heap:cap3", alphabet: 5, run: |s| queue_hist::<3>(s, true) },
        Target { name: "queue:fixed:cap1", alphabet: 5, run: |s| queue_hist::<1>(s, false) },
        Target { name: "queue:fixed:cap2", alphabet: 5, run: |s| queue_hist::<2>(s, false) },
        Target { name: "queue:fixed:cap3", alphabet: 5, run: |s| queue_hist::<3>(s, false) },
        Target { name: "slotmap:heap:cap1", alphabet: 5, run: |s| slotmap_hist::<1>(s, true) },
        Target { name: "slotmap:heap:cap2", alphabet: 7, run: |s| slotmap_hist::<2>(s, true) },
        Target { name: "slotmap:heap:cap3", alphabet: 9, run: |s| slotmap_hist::<3>(s, true) },
        Target { name: "slotmap:heap:cap4", alphabet: 11, run: |s| slotmap_hist::<4>(s, true) },
        Target { name: "slotmap:fixed:cap2", alphabet: 7, run: |s| slotmap_hist::<2>(s, false) },
        Target { name: "slotmap:fixed:cap3", alphabet: 9, run: |s| slotmap_hist::<3>(s, false) },
        Target { name: "slotmap:fixed:cap4", alphabet: 11, run: |s| slotmap_hist::<4>(s, false) },
        Target { name: "slotmap:heap:cap6", alphabet: 11, run: |s| slotmap_hist::<6>(s, true) },
        Target { name: "flatmap:heap:cap1", alphabet: 6, run: |s| flatmap_hist::<1>(s, true) },
        Target { name: "flatmap:heap:cap2", alphabet: 6, run: |s| flatmap_hist::<2>(s, true) },
        Target { name: "flatmap:fixed:cap2", alphabet: 6, run: |s| flatmap_hist::<2>(s, false) },
        Target { name: "flatmap:fixed:cap3", alphabet: 6, run: |s| flatmap_hist::<3>(s, false) },
        Target { name: "vec:static:cap0", alphabet: 10, run: |s| vec_hist::<0>(s, false) },
        Target { name: "vec:static:cap1", alphabet: 10, run: |s| vec_hist::<1>(s, false) },
        Target { name: "vec:static:cap2", alphabet: 10, run: |s| vec_hist::<2>(s, false) },
        Target { name: "vec:static:cap3", alphabet: 10, run: |s| vec_hist::<3>(s, false) },
        Target { name: "vec:heap:cap1", alphabet: 10, run: |s| vec_hist::<1>(s, true) },
        Target { name: "vec:heap:cap2", alphabet: 10, run: |s| vec_hist::<2>(s, true) },
        Target { name: "vec:heap:cap3", alphabet: 10, run: |s| vec_hist::<3>(s, true) },
        Target { name: "option:relocatable", alphabet: 7, run: |s| option_hist(s) },
        Target { name: "string:static:cap1", alphabet: 19, run: |s| string_hist::<1>(s, false) },
        Target { name: "string:static:cap2", alphabet: 19, run: |s| string_hist::<2>(s, false) },
        Target { name: "string:static:cap3", alphabet: 19, run: |s| string_hist::<3>(s, false) },
        Target { name: "string:static:cap4", alphabet: 19, run: |s| string_hist::<4>(s, false) },
    ]
}

fn run_one(t: &Target, seq: &[usize]) -> R {
    match std::panic::catch_unwind(std::panic::AssertUnwindSafe(|| (t.run)(seq))) {
        Ok(r) => r,
        Err(p) => {
            let what = p.downcast_ref::<StdString>().cloned().or(p.downcast_ref::<&str>().map(|s| s.to_string())).unwrap_or_default();
            let o = CUR_OP.with(|c| c.borrow().clone());
            Err((format!("panic_in_{}", o.replace(' ', "_")), format!("panic during {}: {}", o, what.chars().take(200).collect::<StdString>())))
        }
    }
}

pub fn run(args: &Args) -> Report {
    std::panic::set_hook(Box::new(|_| {}));
    let seed = args.u64("seed", 1);
    let shard = args.usize("shard", 0);
    let nshards = args.usize("nshards", 1);
    let maxlen = args.usize("len", 4);
    let secs = args.u64("secs", 10);
    let deadline = std::time::Instant::now() + std::time::Duration::from_secs(secs);
    let mut rep = Report::new();
    rep.max_samples = 2;
    let mut complete = true;
    for (ti, t) in targets().iter().enumerate() {
        if ti % nshards != shard {
            continue;
        }
        // exhaustive enumeration of all sequences up to maxlen (alphabet-dependent bound to keep the box comparable)
        let bound = if t.alphabet >= 19 { maxlen.min(4) } else if t.alphabet >= 12 { maxlen.min(5) } else { maxlen };
        let mut n = 0u64;
        'len: for len in 0..=bound {
            let mut seq = vec![0usize; len];
            loop {
                n += 1;
                rep.execs += 1;
                if let Err((rule, msg)) = run_one(t, &seq) {
                    let container = t.name.split(':').next().unwrap();
                    rep.violation(&rule, format!("C16:{}:{}", container, rule), format!("{} history {:?}: {}", t.name, seq, msg), Json::obj().set("target", t.name).set("history", seq.iter().map(|x| *x as u64).collect::<Vec<u64>>()));
                } else if len == bound {
                    rep.nontrivial += 1;
                }
                if n % 4096 == 0 && std::time::Instant::now() > deadline {
                    complete = false;
                    rep.count("targets_cut_by_deadline", 1);
                    break 'len;
                }
                let mut i = len;
                let mut done = len == 0;
                while i > 0 {
                    i -= 1;
                    seq[i] += 1;
                    if seq[i] < t.alphabet {
                        break;
                    }
                    seq[i] = 0;
                    if i == 0 {
                        done = true;
                    }
                }
                if done {
                    break;
                }
            }
        }
        rep.count(&format!("histories_{}", t.name.split(':').next().unwrap()), n);
        rep.distinct(vkit::fnv_str(t.name) ^ n);
        rep.count("targets", 1);
        // random longer histories
        let mut rng = Rng::derive(&[seed, ti as u64, 16]);
        for _ in 0..args.u64("random", 300) {
            let len = rng.range(bound as u64 + 1, 40) as usize;
            let seq: Vec<usize> = (0..len).map(|_| rng.below(t.alphabet as u64) as usize).collect();
            rep.execs += 1;
            rep.count("random_histories", 1);
            match run_one(t, &seq) {
                Err((rule, msg)) => {
                    let container = t.name.split(':').next().unwrap();
                    rep.violation(&rule, format!("C16:{}:{}", container, rule), format!("{} history {:?}: {}", t.name, seq, msg), Json::obj().set("target", t.name));
                }
                Ok(()) => {
                    rep.nontrivial += 1;
                    rep.distinct(vkit::mix(vkit::fnv_str(t.name), vkit::fnv(&seq.iter().map(|x| *x as u8).collect::<Vec<u8>>())));
                }
            }
        }
        rep.sample(Json::obj().set("target", t.name).set("exhaustive_up_to_length", bound).set("alphabet", t.alphabet).set("histories", n));
    }
    rep.count("exhaustive_box_complete", complete as u64);
    rep
}
