//! C14 — shared-memory data structures are position independent.
//!
//! Every relocatable structure is built with `new_uninit` + `init(bump allocator)` inside one block
//! (header + payload). A random history runs against a model; at random points the whole block is
//! byte-copied to a fresh allocation at a different address (different offset inside its page), the
//! old block is poisoned (0xAA) and freed, and the history continues on the copy. A stray absolute
//! pointer then reads poison / freed memory (Miri, ASan) or disagrees with the model.
use iceoryx2_bb_container::flatmap::RelocatableFlatMap;
use iceoryx2_bb_container::queue::RelocatableQueue;
use iceoryx2_bb_container::slotmap::{RelocatableSlotMap, SlotMapKey};
use iceoryx2_bb_container::string::{RelocatableString, String as IoxString};
use iceoryx2_bb_container::vector::relocatable_vec::RelocatableVec;
use iceoryx2_bb_container::vector::Vector;
use iceoryx2_bb_elementary::bump_allocator::BumpAllocator;
use iceoryx2_bb_elementary_traits::relocatable_container::RelocatableContainer;
use iceoryx2_bb_lock_free::mpmc::bit_set::RelocatableBitSet;
use iceoryx2_bb_lock_free::mpmc::container::{Container, ContainerHandle};
use iceoryx2_bb_lock_free::mpmc::robust_unique_index_set::{OwnerId, RobustUniqueIndexSet};
use iceoryx2_bb_lock_free::mpmc::unique_index_set::UniqueIndexSet;
use iceoryx2_bb_lock_free::mpmc::unique_index_set_enums::ReleaseMode;
use iceoryx2_bb_lock_free::spsc::index_queue::RelocatableIndexQueue;
use iceoryx2_bb_lock_free::spsc::safely_overflowing_index_queue::RelocatableSafelyOverflowingIndexQueue;
use std::alloc::{alloc_zeroed, dealloc, Layout};
use std::collections::{BTreeMap, VecDeque};
use std::ptr::NonNull;
use vkit::{Args, Json, Report, Rng};

pub struct Block<T> {
    base: *mut u8,
    shift: usize,
    layout: Layout,
    size: usize,
    _t: std::marker::PhantomData<T>,
}

impl<T: RelocatableContainer> Block<T> {
    fn new(cap: usize, shift: usize) -> Self {
        let align = std::mem::align_of::<T>().max(64);
        let size = std::mem::size_of::<T>() + T::memory_size(cap) + align;
        let layout = Layout::from_size_align(size + 1024, 4096).unwrap();
        let base = unsafe { alloc_zeroed(layout) };
        let shift = shift / align * align;
        let b: Block<T> = Block { base, shift, layout, size, _t: std::marker::PhantomData };
        unsafe {
            (b.hdr()).write(T::new_uninit(cap));
            let start = NonNull::new_unchecked(b.ptr().add(std::mem::size_of::<T>()));
            let a = BumpAllocator::new(start, size - std::mem::size_of::<T>());
            (*b.hdr()).init(&a).expect("init of relocatable container");
        }
        b
    }
    fn ptr(&self) -> *mut u8 {
        unsafe { self.base.add(self.shift) }
    }
    fn hdr(&self) -> *mut T {
        self.ptr() as *mut T
    }
    fn get(&mut self) -> &mut T {
        unsafe { &mut *self.hdr() }
    }
    /// byte copy to a fresh allocation at another in-page offset; the old block is poisoned and freed
    fn relocate(self, new_shift: usize) -> Self {
        let align = std::mem::align_of::<T>().max(64);
        let new_shift = (new_shift % 960) / align * align;
        let new = unsafe { alloc_zeroed(self.layout) };
        unsafe {
            std::ptr::copy_nonoverlapping(self.ptr(), new.add(new_shift), self.size);
            std::ptr::write_bytes(self.base, 0xAA, self.layout.size());
            dealloc(self.base, self.layout);
        }
        let b = Block { base: new, shift: new_shift, layout: self.layout, size: self.size, _t: std::marker::PhantomData };
        std::mem::forget(self);
        b
    }
}
impl<T> Drop for Block<T> {
    fn drop(&mut self) {
        unsafe { dealloc(self.base, self.layout) };
    }
}

type R = Result<(u64, u64), (String, String)>; // (operations, relocations)
macro_rules! bad {
    ($rule:expr, $($a:tt)*) => { return Err(($rule.to_string(), format!($($a)*))) };
}
macro_rules! maybe_reloc {
    ($b:ident, $rng:ident, $relocs:ident) => {
        if $rng.chance(1, 4) {
            $b = $b.relocate($rng.next() as usize);
            $relocs += 1;
        }
    };
}

fn h_vec(rng: &mut Rng, cap: usize, n: usize) -> R {
    let mut b = Block::<RelocatableVec<u64>>::new(cap, rng.next() as usize % 900);
    let mut m: Vec<u64> = Vec::new();
    let mut relocs = 0;
    for i in 0..n {
        match rng.below(4) {
            0 | 1 => {
                let v = rng.next();
                let ok = b.get().push(v).is_ok();
                if ok != (m.len() < cap) {
                    bad!("result_differs_after_relocation", "vec push ok={} model len {} cap {}", ok, m.len(), cap);
                }
                if ok {
                    m.push(v);
                }
            }
            2 => {
                if b.get().pop() != m.pop() {
                    bad!("result_differs_after_relocation", "vec pop differs at step {}", i);
                }
            }
            _ => {
                if !m.is_empty() {
                    let idx = rng.below(m.len() as u64) as usize;
                    if b.get().remove(idx) != Some(m.remove(idx)) {
                        bad!("result_differs_after_relocation", "vec remove({}) differs", idx);
                    }
                }
            }
        }
        maybe_reloc!(b, rng, relocs);
        if b.get().as_slice() != &m[..] {
            bad!("result_differs_after_relocation", "vec contents {:?} model {:?} after {} relocations", b.get().as_slice(), m, relocs);
        }
    }
    Ok((n as u64, relocs))
}

fn h_queue(rng: &mut Rng, cap: usize, n: usize) -> R {
    let mut b = Block::<RelocatableQueue<u64>>::new(cap, rng.next() as usize % 900);
    let mut m: VecDeque<u64> = VecDeque::new();
    let mut relocs = 0;
    for _ in 0..n {
        match rng.below(5) {
            0 | 1 => {
                let v = rng.next();
                let ok = unsafe { b.get().push(v) };
                if ok != (m.len() < cap) {
                    bad!("result_differs_after_relocation", "queue push ok={} model len {}", ok, m.len());
                }
                if ok {
                    m.push_back(v);
                }
            }
            2 => {
                let v = rng.next();
                let r = unsafe { b.get().push_with_overflow(v) };
                let exp = if m.len() == cap { m.pop_front() } else { None };
                m.push_back(v);
                if r != exp {
                    bad!("result_differs_after_relocation", "queue push_with_overflow {:?} model {:?}", r, exp);
                }
            }
            _ => {
                if unsafe { b.get().pop() } != m.pop_front() {
                    bad!("result_differs_after_relocation", "queue pop differs");
                }
            }
        }
        maybe_reloc!(b, rng, relocs);
        if b.get().len() != m.len() || b.get().peek().copied() != m.front().copied() {
            bad!("result_differs_after_relocation", "queue len/peek differ after {} relocations", relocs);
        }
    }
    Ok((n as u64, relocs))
}

fn h_slotmap(rng: &mut Rng, cap: usize, n: usize) -> R {
    let mut b = Block::<RelocatableSlotMap<u64>>::new(cap, rng.next() as usize % 900);
    let mut m: BTreeMap<usize, u64> = BTreeMap::new();
    let mut relocs = 0;
    for _ in 0..n {
        match rng.below(4) {
            0 | 1 => {
                let v = rng.next();
                match unsafe { b.get().insert(v) } {
                    Some(k) => {
                        if m.len() >= cap || m.contains_key(&k.value()) {
                            bad!("result_differs_after_relocation", "slotmap insert returned key {} (len {} cap {})", k.value(), m.len(), cap);
                        }
                        m.insert(k.value(), v);
                    }
                    None => {
                        if m.len() < cap {
                            bad!("result_differs_after_relocation", "slotmap insert refused with len {} < cap {}", m.len(), cap);
                        }
                    }
                }
            }
            2 => {
                let k = rng.below(cap as u64) as usize;
                let v = rng.next();
                if unsafe { b.get().insert_at(SlotMapKey::new(k), v) } {
                    m.insert(k, v);
                } else {
                    bad!("result_differs_after_relocation", "slotmap insert_at({}) refused", k);
                }
            }
            _ => {
                let k = rng.below(cap as u64) as usize;
                if unsafe { b.get().remove(SlotMapKey::new(k)) } != m.remove(&k) {
                    bad!("result_differs_after_relocation", "slotmap remove({}) differs", k);
                }
            }
        }
        maybe_reloc!(b, rng, relocs);
        for k in 0..cap {
            if unsafe { b.get().get(SlotMapKey::new(k)) }.copied() != m.get(&k).copied() {
                bad!("result_differs_after_relocation", "slotmap get({}) differs after {} relocations", k, relocs);
            }
        }
        let mut it: Vec<(usize, u64)> = unsafe { b.get().iter() }.map(|(k, v)| (k.value(), *v)).collect();
        it.sort();
        if it != m.iter().map(|(k, v)| (*k, *v)).collect::<Vec<_>>() {
            bad!("result_differs_after_relocation", "slotmap iteration differs after {} relocations", relocs);
        }
    }
    Ok((n as u64, relocs))
}

fn h_flatmap(rng: &mut Rng, cap: usize, n: usize) -> R {
    let mut b = Block::<RelocatableFlatMap<u8, u64>>::new(cap, rng.next() as usize % 900);
    let mut m: BTreeMap<u8, u64> = BTreeMap::new();
    let mut relocs = 0;
    for _ in 0..n {
        let k = rng.below(cap as u64 + 2) as u8;
        match rng.below(3) {
            0 | 1 => {
                let v = rng.next();
                let ok = unsafe { b.get().insert(k, v) }.is_ok();
                let exp = !m.contains_key(&k) && m.len() < cap;
                if ok != exp {
                    bad!("result_differs_after_relocation", "flatmap insert({}) ok={} model {}", k, ok, exp);
                }
                if ok {
                    m.insert(k, v);
                }
            }
            _ => {
                if unsafe { b.get().remove(&k) } != m.remove(&k) {
                    bad!("result_differs_after_relocation", "flatmap remove({}) differs", k);
                }
            }
        }
        maybe_reloc!(b, rng, relocs);
        for k in 0..(cap as u8 + 2) {
            if unsafe { b.get().get(&k) } != m.get(&k).copied() {
                bad!("result_differs_after_relocation", "flatmap get({}) differs after {} relocations", k, relocs);
            }
        }
    }
    Ok((n as u64, relocs))
}

fn h_string(rng: &mut Rng, cap: usize, n: usize) -> R {
    let mut b = Block::<RelocatableString>::new(cap, rng.next() as usize % 900);
    let mut m: Vec<u8> = Vec::new();
    let mut relocs = 0;
    for _ in 0..n {
        match rng.below(4) {
            0 | 1 => {
                let c = b'a' + rng.below(26) as u8;
                let ok = b.get().push(c).is_ok();
                if ok != (m.len() < cap) {
                    bad!("result_differs_after_relocation", "string push ok={} len {} cap {}", ok, m.len(), cap);
                }
                if ok {
                    m.push(c);
                }
            }
            2 => {
                if b.get().pop() != m.pop() {
                    bad!("result_differs_after_relocation", "string pop differs");
                }
            }
            _ => {
                if !m.is_empty() {
                    let idx = rng.below(m.len() as u64) as usize;
                    if b.get().remove(idx) != Some(m.remove(idx)) {
                        bad!("result_differs_after_relocation", "string remove differs");
                    }
                }
            }
        }
        maybe_reloc!(b, rng, relocs);
        if b.get().as_bytes() != &m[..] {
            bad!("result_differs_after_relocation", "string contents differ after {} relocations", relocs);
        }
    }
    Ok((n as u64, relocs))
}

fn h_uis(rng: &mut Rng, cap: usize, n: usize) -> R {
    let mut b = Block::<UniqueIndexSet>::new(cap, rng.next() as usize % 900);
    let mut held: Vec<u32> = Vec::new();
    let mut relocs = 0;
    for _ in 0..n {
        if rng.chance(3, 5) {
            match unsafe { b.get().acquire_raw_index() } {
                Ok(i) => {
                    if i as usize >= cap || held.contains(&i) {
                        bad!("result_differs_after_relocation", "index set handed out {} (held {:?}, cap {})", i, held, cap);
                    }
                    held.push(i);
                }
                Err(_) => {
                    if held.len() != cap {
                        bad!("result_differs_after_relocation", "index set refused with {} of {} held", held.len(), cap);
                    }
                }
            }
        } else if !held.is_empty() {
            let i = held.remove(rng.below(held.len() as u64) as usize);
            unsafe { b.get().release_raw_index(i, ReleaseMode::Default) };
        }
        maybe_reloc!(b, rng, relocs);
        if b.get().borrowed_indices() != held.len() {
            bad!("result_differs_after_relocation", "borrowed_indices {} model {} after {} relocations", b.get().borrowed_indices(), held.len(), relocs);
        }
    }
    Ok((n as u64, relocs))
}

fn h_robust(rng: &mut Rng, cap: usize, n: usize) -> R {
    let mut b = Block::<RobustUniqueIndexSet>::new(cap, rng.next() as usize % 900);
    let mut held: Vec<(usize, u64)> = Vec::new();
    let mut relocs = 0;
    for _ in 0..n {
        if rng.chance(3, 5) {
            let owner = 1 + rng.below(3);
            match unsafe { b.get().acquire(OwnerId::new(owner).unwrap()) } {
                Ok(i) => {
                    if i >= cap || held.iter().any(|h| h.0 == i) {
                        bad!("result_differs_after_relocation", "robust index set handed out {} twice/out of range", i);
                    }
                    held.push((i, owner));
                }
                Err(_) => {
                    if held.len() != cap {
                        bad!("result_differs_after_relocation", "robust index set refused with {} of {} held", held.len(), cap);
                    }
                }
            }
        } else if !held.is_empty() {
            let (i, o) = held.remove(rng.below(held.len() as u64) as usize);
            if unsafe { b.get().release(i, OwnerId::new(o).unwrap(), ReleaseMode::Default) }.is_err() {
                bad!("result_differs_after_relocation", "release of own index {} refused after relocation", i);
            }
        }
        maybe_reloc!(b, rng, relocs);
        if b.get().borrowed_indices() != held.len() {
            bad!("result_differs_after_relocation", "robust borrowed_indices differs after {} relocations", relocs);
        }
    }
    Ok((n as u64, relocs))
}

fn h_index_queue(rng: &mut Rng, cap: usize, n: usize) -> R {
    let mut b = Block::<RelocatableIndexQueue>::new(cap, rng.next() as usize % 900);
    let mut m: VecDeque<u64> = VecDeque::new();
    let mut relocs = 0;
    for _ in 0..n {
        if rng.chance(1, 2) {
            let v = rng.next() >> 4;
            let ok = unsafe { b.get().push(v) };
            if ok != (m.len() < cap) {
                bad!("result_differs_after_relocation", "index queue push ok={} len {}", ok, m.len());
            }
            if ok {
                m.push_back(v);
            }
        } else if unsafe { b.get().pop() } != m.pop_front() {
            bad!("result_differs_after_relocation", "index queue pop differs");
        }
        maybe_reloc!(b, rng, relocs);
        if b.get().len() != m.len() {
            bad!("result_differs_after_relocation", "index queue len differs after {} relocations", relocs);
        }
    }
    Ok((n as u64, relocs))
}

fn h_overflow_queue(rng: &mut Rng, cap: usize, n: usize) -> R {
    let mut b = Block::<RelocatableSafelyOverflowingIndexQueue>::new(cap, rng.next() as usize % 900);
    let mut m: VecDeque<u64> = VecDeque::new();
    let mut relocs = 0;
    for _ in 0..n {
        if rng.chance(3, 5) {
            let v = rng.next() >> 4;
            let r = unsafe { b.get().push(v) };
            let exp = if m.len() == cap { m.pop_front() } else { None };
            m.push_back(v);
            if r != exp {
                bad!("result_differs_after_relocation", "overflow queue push returned {:?} model {:?}", r, exp);
            }
        } else if unsafe { b.get().pop() } != m.pop_front() {
            bad!("result_differs_after_relocation", "overflow queue pop differs");
        }
        maybe_reloc!(b, rng, relocs);
        if b.get().len() != m.len() {
            bad!("result_differs_after_relocation", "overflow queue len differs after {} relocations", relocs);
        }
    }
    Ok((n as u64, relocs))
}

fn h_bitset(rng: &mut Rng, cap: usize, n: usize) -> R {
    let cap = cap * 9; // more than one underlying byte
    let mut b = Block::<RelocatableBitSet>::new(cap, rng.next() as usize % 900);
    let mut m: std::collections::BTreeSet<usize> = Default::default();
    let mut relocs = 0;
    for _ in 0..n {
        if rng.chance(2, 3) {
            let id = rng.below(cap as u64) as usize;
            let newly = b.get().set(id);
            if newly != m.insert(id) {
                bad!("result_differs_after_relocation", "bitset set({}) -> {} differs from the model", id, newly);
            }
        } else {
            let mut got = Vec::new();
            b.get().reset_all(|i| got.push(i));
            got.sort();
            if got != m.iter().copied().collect::<Vec<_>>() {
                bad!("result_differs_after_relocation", "bitset reset_all {:?} model {:?} after {} relocations", got, m, relocs);
            }
            m.clear();
        }
        maybe_reloc!(b, rng, relocs);
    }
    Ok((n as u64, relocs))
}

fn h_container(rng: &mut Rng, cap: usize, n: usize) -> R {
    let mut b = Block::<Container<u64>>::new(cap, rng.next() as usize % 900);
    let mut m: Vec<(ContainerHandle, u64)> = Vec::new();
    let owner = OwnerId::new(7).unwrap();
    let mut relocs = 0;
    let mut state = unsafe { b.get().get_state() };
    for _ in 0..n {
        if rng.chance(3, 5) {
            let v = rng.next();
            match unsafe { b.get().add(v, owner) } {
                Ok((_, h)) => {
                    if m.len() >= cap {
                        bad!("result_differs_after_relocation", "container add beyond capacity");
                    }
                    m.push((h, v));
                }
                Err(_) => {
                    if m.len() < cap {
                        bad!("result_differs_after_relocation", "container add refused with {} of {}", m.len(), cap);
                    }
                }
            }
        } else if !m.is_empty() {
            let (h, _) = m.remove(rng.below(m.len() as u64) as usize);
            if unsafe { b.get().remove(h, ReleaseMode::Default) }.is_err() {
                bad!("result_differs_after_relocation", "container remove of own handle refused after relocation");
            }
        }
        maybe_reloc!(b, rng, relocs);
        unsafe { b.get().update_state(&mut state) };
        let mut got = Vec::new();
        state.for_each(|_, v: &u64| {
            got.push(*v);
            iceoryx2_bb_elementary::CallbackProgression::Continue
        });
        got.sort();
        let mut exp: Vec<u64> = m.iter().map(|x| x.1).collect();
        exp.sort();
        if got != exp {
            bad!("result_differs_after_relocation", "container snapshot {:?} model {:?} after {} relocations", got, exp, relocs);
        }
    }
    Ok((n as u64, relocs))
}

fn h_counting_bitset(rng: &mut Rng, cap: usize, n: usize) -> R {
    use iceoryx2_bb_lock_free::mpmc::counting_bit_set::RelocatableCountingBitSet;
    let cap = cap * 5;
    let mut b = Block::<RelocatableCountingBitSet>::new(cap, rng.next() as usize % 900);
    let mut m: BTreeMap<usize, u64> = BTreeMap::new();
    let mut relocs = 0;
    for _ in 0..n {
        if rng.chance(3, 4) {
            let id = rng.below(cap as u64) as usize;
            let prev = b.get().set(id);
            let e = m.entry(id).or_insert(0);
            if prev != *e {
                bad!("result_differs_after_relocation", "counting bitset set({}) returned previous count {} model {}", id, prev, *e);
            }
            *e += 1;
        } else {
            let mut got: Vec<(usize, u64)> = Vec::new();
            b.get().reset_all(|s| got.push((s.bit(), s.count())));
            got.sort();
            let exp: Vec<(usize, u64)> = m.iter().map(|(k, v)| (*k, *v)).collect();
            if got != exp {
                bad!("result_differs_after_relocation", "counting bitset reset_all {:?} model {:?} after {} relocations", got, exp, relocs);
            }
            m.clear();
        }
        maybe_reloc!(b, rng, relocs);
    }
    Ok((n as u64, relocs))
}

fn h_used_chunk_list(rng: &mut Rng, cap: usize, n: usize) -> R {
    use iceoryx2_cal::zero_copy_connection::used_chunk_list::RelocatableUsedChunkList;
    let cap = cap * 3;
    let mut b = Block::<RelocatableUsedChunkList>::new(cap, rng.next() as usize % 900);
    let mut m: std::collections::BTreeSet<usize> = Default::default();
    let mut relocs = 0;
    for _ in 0..n {
        let idx = rng.below(cap as u64) as usize;
        match rng.below(5) {
            0 | 1 => {
                let newly = b.get().insert(idx);
                if newly != m.insert(idx) {
                    bad!("result_differs_after_relocation", "used chunk list insert({}) -> {} differs from the model", idx, newly);
                }
            }
            2 | 3 => {
                let was = b.get().remove(idx);
                if was != m.remove(&idx) {
                    bad!("result_differs_after_relocation", "used chunk list remove({}) -> {} differs from the model", idx, was);
                }
            }
            _ => {
                let mut got = Vec::new();
                b.get().remove_all(|i| got.push(i));
                got.sort();
                if got != m.iter().copied().collect::<Vec<_>>() {
                    bad!("result_differs_after_relocation", "used chunk list remove_all {:?} model {:?} after {} relocations", got, m, relocs);
                }
                m.clear();
            }
        }
        maybe_reloc!(b, rng, relocs);
    }
    Ok((n as u64, relocs))
}

const STRUCTS: [(&str, fn(&mut Rng, usize, usize) -> R); 13] = [
    ("RelocatableCountingBitSet", h_counting_bitset),
    ("RelocatableUsedChunkList", h_used_chunk_list),
    ("RelocatableVec", h_vec),
    ("RelocatableQueue", h_queue),
    ("RelocatableSlotMap", h_slotmap),
    ("RelocatableFlatMap", h_flatmap),
    ("RelocatableString", h_string),
    ("UniqueIndexSet", h_uis),
    ("RobustUniqueIndexSet", h_robust),
    ("RelocatableIndexQueue", h_index_queue),
    ("RelocatableSafelyOverflowingIndexQueue", h_overflow_queue),
    ("RelocatableBitSet", h_bitset),
    ("mpmc::Container", h_container),
];

pub fn run(args: &Args) -> Report {
    std::panic::set_hook(Box::new(|_| {}));
    let seed = args.u64("seed", 1);
    let shard = args.u64("shard", 0);
    let secs = args.u64("secs", 10);
    let maxh = args.u64("hists", u64::MAX);
    let deadline = std::time::Instant::now() + std::time::Duration::from_secs(secs);
    let mut rep = Report::new();
    let mut i = 0u64;
    while i < maxh && std::time::Instant::now() < deadline {
        for (name, f) in STRUCTS.iter() {
            let mut rng = Rng::derive(&[seed, shard, i, vkit::fnv_str(name)]);
            let cap = rng.range(1, 4) as usize;
            let n = rng.range(5, 40) as usize;
            let r = match std::panic::catch_unwind(std::panic::AssertUnwindSafe(|| f(&mut rng, cap, n))) {
                Ok(r) => r,
                Err(p) => Err(("panic_after_relocation".to_string(), p.downcast_ref::<std::string::String>().cloned().or(p.downcast_ref::<&str>().map(|s| s.to_string())).unwrap_or_default().chars().take(200).collect())),
            };
            rep.execs += 1;
            match r {
                Ok((ops, relocs)) => {
                    rep.count("operations", ops);
                    rep.count("relocations", relocs);
                    rep.count(&format!("histories_{}", name), 1);
                    if relocs > 0 {
                        rep.nontrivial += 1;
                        rep.distinct(vkit::mix(vkit::fnv_str(name), vkit::mix(i, shard ^ (seed << 20))));
                    }
                }
                Err((rule, msg)) => rep.violation(&rule, format!("C14:{}:{}", name, rule), format!("{} (capacity {}, history {} of shard {}): {}", name, cap, i, shard, msg), Json::obj().set("structure", *name).set("replay_args", format!("c14 --seed {} --shard {} --hists {}", seed, shard, i + 1))),
            }
        }
        i += 1;
    }
    rep.sample(Json::obj().set("structures", STRUCTS.iter().map(|s| s.0).collect::<Vec<_>>()).set("histories_per_structure", i).set("relocation", "byte copy to a fresh allocation at another in-page offset, old block poisoned with 0xAA and freed"));
    rep
}
