//! C15 (allocator level) — every successful allocation lies inside the managed block, satisfies the
//! requested alignment, is large enough and overlaps no live allocation; freed memory is reusable;
//! unsatisfiable requests fail with the documented error.
//!
//! Allocation shadow (interval set of live blocks) + pattern fill verified at release, over a grid
//! of awkward layouts: sizes that are not a multiple of the alignment, block starts misaligned by
//! 1..align-1, partial last buckets, grow (front/back placement) and shrink.
use core::alloc::Layout;
use core::ptr::NonNull;
use iceoryx2_bb_elementary::bump_allocator::BumpAllocator;
use iceoryx2_bb_elementary_traits::allocator::*;
use iceoryx2_bb_memory::one_chunk_allocator::OneChunkAllocator;
use iceoryx2_bb_memory::pool_allocator::FixedSizePoolAllocator;
use vkit::{Args, Json, Report, Rng};

const MAXB: usize = 64;

enum A {
    Pool(FixedSizePoolAllocator<MAXB>),
    Bump(BumpAllocator),
    One(OneChunkAllocator),
}

impl A {
    fn allocate(&self, l: Layout) -> Result<NonNull<u8>, AllocationError> {
        match self {
            A::Pool(a) => a.allocate(l),
            A::Bump(a) => a.allocate(l),
            A::One(a) => a.allocate(l),
        }
    }
    unsafe fn deallocate(&self, p: NonNull<u8>, l: Layout) {
        match self {
            A::Pool(a) => a.deallocate(p, l),
            A::Bump(_) => {
                let _ = (p, l); // the bump allocator never frees individual blocks
            }
            A::One(a) => a.deallocate(p, l),
        }
    }
    unsafe fn grow(&self, p: NonNull<u8>, o: Layout, n: Layout, back: bool) -> Option<Result<NonNull<u8>, AllocationGrowError>> {
        let cp = if back { ContentPlacement::Back } else { ContentPlacement::Front };
        match self {
            A::Pool(a) => Some(a.grow(p, o, n, cp)),
            A::One(a) => Some(a.grow(p, o, n, cp)),
            A::Bump(_) => None,
        }
    }
    unsafe fn shrink(&self, p: NonNull<u8>, o: Layout, n: Layout) -> Option<Result<NonNull<u8>, AllocationShrinkError>> {
        match self {
            A::Pool(a) => Some(a.shrink(p, o, n)),
            A::One(a) => Some(a.shrink(p, o, n)),
            A::Bump(_) => None,
        }
    }
}

#[derive(Clone, Copy, Debug)]
struct Live {
    addr: usize,
    size: usize,
    align: usize,
    pat: u8,
}

#[derive(Clone, Debug)]
pub struct Case {
    kind: u8, // 0 pool 1 bump 2 one-chunk
    bucket_size: usize,
    bucket_align: usize,
    mem: usize,
    misalign: usize,
    ops: Vec<(u8, u64, u64)>,
}

impl Case {
    fn describe(&self) -> Json {
        Json::obj()
            .set("allocator", ["PoolAllocator", "BumpAllocator", "OneChunkAllocator"][self.kind as usize])
            .set("bucket_layout", format!("size {} align {}", self.bucket_size, self.bucket_align))
            .set("memory_bytes", self.mem)
            .set("start_misaligned_by", self.misalign)
            .set("operations", self.ops.len())
    }
    fn key(&self) -> String {
        format!("{}:size%align={}:misaligned={}", ["pool", "bump", "onechunk"][self.kind as usize], if self.bucket_size % self.bucket_align != 0 { "nonzero" } else { "zero" }, (self.misalign != 0) as u8)
    }
}

fn fill(addr: usize, size: usize, pat: u8) {
    unsafe { core::ptr::write_bytes(addr as *mut u8, pat, size) };
}
fn check(addr: usize, size: usize, pat: u8) -> bool {
    unsafe { core::slice::from_raw_parts(addr as *const u8, size) }.iter().all(|b| *b == pat)
}

pub fn run_case(c: &Case, events: &mut std::collections::BTreeMap<&'static str, u64>) -> Result<(), (String, String)> {
    macro_rules! ev { ($k:expr) => { *events.entry($k).or_default() += 1 }; }
    macro_rules! bad { ($rule:expr, $($a:tt)*) => { return Err(($rule.to_string(), format!($($a)*))) }; }
    // backing block: over-aligned allocation, handed over with a deliberate misalignment
    let big = 4096usize;
    let layout = Layout::from_size_align(c.mem + 2 * big, big).unwrap();
    let base = unsafe { std::alloc::alloc(layout) };
    struct Guard(*mut u8, Layout);
    impl Drop for Guard {
        fn drop(&mut self) {
            unsafe { std::alloc::dealloc(self.0, self.1) }
        }
    }
    let _g = Guard(base, layout);
    let start = base as usize + big + c.misalign;
    let end = start + c.mem;
    fill(start - 64, 64, 0xEE);
    fill(end, 64, 0xEE);
    let bl = Layout::from_size_align(c.bucket_size, c.bucket_align).unwrap();
    let a = match c.kind {
        0 => A::Pool(FixedSizePoolAllocator::<MAXB>::new(bl, NonNull::new(start as *mut u8).unwrap(), c.mem)),
        1 => A::Bump(BumpAllocator::new(NonNull::new(start as *mut u8).unwrap(), c.mem)),
        _ => A::One(OneChunkAllocator::new(NonNull::new(start as *mut u8).unwrap(), c.mem)),
    };
    if c.kind == 0 {
        // the same block managed by a pool whose compile-time bucket limit (4) may be reached
        let small = FixedSizePoolAllocator::<4>::new(bl, NonNull::new(start as *mut u8).unwrap(), c.mem);
        let n = small.number_of_buckets() as usize;
        if n > 4 {
            bad!("capacity_exceeded", "FixedSizePoolAllocator<4> reports {} buckets", n);
        }
        let mut got = Vec::new();
        for k in 0..n {
            match small.allocate(bl) {
                Ok(x) => {
                    let addr = x.as_ptr() as usize;
                    if addr < start || addr + c.bucket_size > end || addr % c.bucket_align != 0 || got.contains(&addr) {
                        bad!("out_of_bounds", "FixedSizePoolAllocator<4>: bucket {} at offset {} is outside the block, misaligned or handed out twice", k, addr as isize - start as isize);
                    }
                    got.push(addr);
                }
                Err(e) => bad!("freed_memory_not_reusable", "FixedSizePoolAllocator<4>: bucket {} of {} cannot be allocated: {:?}", k, n, e),
            }
        }
        if small.allocate(bl).is_ok() {
            bad!("unsatisfiable_request_succeeded", "FixedSizePoolAllocator<4> handed out more than {} buckets", n);
        }
        ev!("pool_bucket_limit_probes");
    }
    let nbuckets = if let A::Pool(p) = &a { p.number_of_buckets() as usize } else { 0 };
    // the size a bucket really offers is what the allocator reports (>= the configured size)
    let eff_bucket = if let A::Pool(p) = &a { p.bucket_size() } else { c.bucket_size };
    if eff_bucket < c.bucket_size {
        return Err(("bucket_smaller_than_requested".to_string(), format!("bucket_size() = {} for a configured bucket size of {}", eff_bucket, c.bucket_size)));
    }
    let mut live: Vec<Live> = Vec::new();
    let mut pat = 1u8;
    let mut bump_next = 0usize; // model of the bump pointer (offset from start)
    for (op, r1, r2) in &c.ops {
        match op {
            0 | 1 => {
                // allocate: mostly inside what the allocator supports, sometimes beyond
                let (size, align) = match c.kind {
                    0 => {
                        let size = if *op == 1 { c.bucket_size + 1 + (*r1 % 3) as usize } else { 1 + (*r1 as usize) % c.bucket_size };
                        let mut align = 1usize << (*r2 % 8);
                        if *op == 0 {
                            while align > c.bucket_align {
                                align /= 2;
                            }
                        }
                        (size, align)
                    }
                    _ => (1 + (*r1 as usize) % (c.mem / 2 + 2), 1usize << (*r2 % 8)),
                };
                let l = Layout::from_size_align(size, align).unwrap();
                match a.allocate(l) {
                    Ok(p) => {
                        let addr = p.as_ptr() as usize;
                        if addr < start || addr + size > end {
                            bad!("out_of_bounds", "allocate({:?}) returned [{:#x},{:#x}) outside the managed block [{:#x},{:#x})", l, addr - start, addr + size - start, 0, c.mem);
                        }
                        if addr % align != 0 {
                            bad!("misaligned", "allocate({:?}) returned an address misaligned by {} (offset {} in the block)", l, addr % align, addr - start);
                        }
                        if let Some(o) = live.iter().find(|o| addr < o.addr + o.size && o.addr < addr + size) {
                            bad!("overlap", "allocate({:?}) at offset {} overlaps the live allocation at offset {} size {}", l, addr - start, o.addr - start, o.size);
                        }
                        if c.kind == 0 && (size > eff_bucket || align > c.bucket_align) {
                            bad!("unsatisfiable_request_succeeded", "pool with bucket {:?} satisfied {:?}", bl, l);
                        }
                        if c.kind == 1 {
                            let exp = (start + bump_next + align - 1) / align * align - start;
                            if addr - start != exp {
                                bad!("bump_position", "bump allocation at offset {} expected {}", addr - start, exp);
                            }
                            bump_next = exp + size;
                        }
                        pat = pat.wrapping_add(1).max(1);
                        fill(addr, size, pat);
                        live.push(Live { addr, size, align, pat });
                        ev!("allocations");
                    }
                    Err(e) => {
                        ev!("allocation_errors");
                        match c.kind {
                            0 => {
                                let exp = if size > eff_bucket { AllocationError::SizeTooLarge } else if align > c.bucket_align { AllocationError::AlignmentFailure } else { AllocationError::OutOfMemory };
                                if e != exp {
                                    bad!("wrong_error", "allocate({:?}) on pool with bucket {:?} failed with {:?}, documented {:?}", l, bl, e, exp);
                                }
                                if e == AllocationError::OutOfMemory && live.len() < nbuckets {
                                    bad!("spurious_out_of_memory", "allocate({:?}) failed with OutOfMemory with {} of {} buckets in use", l, live.len(), nbuckets);
                                }
                            }
                            1 => {
                                let exp = (start + bump_next + align - 1) / align * align - start;
                                if exp + size <= c.mem {
                                    bad!("spurious_out_of_memory", "bump allocate({:?}) failed with {:?} although offset {}+{} fits into {}", l, e, exp, size, c.mem);
                                }
                            }
                            _ => {
                                let exp = (start + align - 1) / align * align - start;
                                if live.is_empty() && exp + size < c.mem {
                                    bad!("spurious_out_of_memory", "one-chunk allocate({:?}) failed with {:?} although the chunk is free and {}+{} < {}", l, e, exp, size, c.mem);
                                }
                            }
                        }
                    }
                }
            }
            2 => {
                if live.is_empty() {
                    continue;
                }
                let i = (*r1 as usize) % live.len();
                if c.kind == 1 {
                    continue;
                }
                let o = live.remove(i);
                if !check(o.addr, o.size, o.pat) {
                    bad!("corrupted", "allocation at offset {} size {} was overwritten while it was live", o.addr - start, o.size);
                }
                fill(o.addr, o.size, 0xDD);
                unsafe { a.deallocate(NonNull::new(o.addr as *mut u8).unwrap(), Layout::from_size_align(o.size, o.align).unwrap()) };
                ev!("deallocations");
            }
            3 | 4 => {
                // grow (front / back) within what the allocator supports
                if live.is_empty() {
                    continue;
                }
                let i = (*r1 as usize) % live.len();
                let o = live[i];
                let max = if c.kind == 0 { eff_bucket } else { c.mem };
                if o.size >= max {
                    continue;
                }
                let nsize = o.size + 1 + (*r2 as usize) % (max - o.size);
                let ol = Layout::from_size_align(o.size, o.align).unwrap();
                let nl = Layout::from_size_align(nsize, o.align).unwrap();
                let back = *op == 4;
                match unsafe { a.grow(NonNull::new(o.addr as *mut u8).unwrap(), ol, nl, back) } {
                    None => {}
                    Some(Ok(p)) => {
                        let addr = p.as_ptr() as usize;
                        if addr < start || addr + nsize > end {
                            bad!("out_of_bounds", "grow to {} bytes returned [{},{}) outside the block of {}", nsize, addr - start, addr + nsize - start, c.mem);
                        }
                        if addr % o.align != 0 {
                            bad!("misaligned", "grow returned a misaligned address");
                        }
                        if let Some(x) = live.iter().enumerate().find(|(k, x)| *k != i && addr < x.addr + x.size && x.addr < addr + nsize) {
                            bad!("overlap", "grown allocation [{},{}) overlaps the live allocation at offset {}", addr - start, addr + nsize - start, x.1.addr - start);
                        }
                        let content_at = if back { addr + (nsize - o.size) } else { addr };
                        if !check(content_at, o.size, o.pat) {
                            bad!("content_lost_on_grow", "after grow ({}) the old content is not where it was promised", if back { "back" } else { "front" });
                        }
                        fill(addr, nsize, o.pat);
                        live[i] = Live { addr, size: nsize, align: o.align, pat: o.pat };
                        ev!("grows");
                    }
                    Some(Err(_)) => {
                        if c.kind == 0 {
                            bad!("spurious_grow_failure", "pool refused to grow {} -> {} inside bucket size {}", o.size, nsize, eff_bucket);
                        }
                        ev!("grow_errors");
                    }
                }
            }
            _ => {
                if live.is_empty() {
                    continue;
                }
                let i = (*r1 as usize) % live.len();
                let o = live[i];
                if o.size < 2 {
                    continue;
                }
                let nsize = 1 + (*r2 as usize) % (o.size - 1);
                match unsafe { a.shrink(NonNull::new(o.addr as *mut u8).unwrap(), Layout::from_size_align(o.size, o.align).unwrap(), Layout::from_size_align(nsize, o.align).unwrap()) } {
                    None => {}
                    Some(Ok(p)) => {
                        if p.as_ptr() as usize != o.addr || !check(o.addr, nsize, o.pat) {
                            bad!("content_lost_on_shrink", "shrink moved or changed the content");
                        }
                        live[i].size = nsize;
                        ev!("shrinks");
                    }
                    Some(Err(e)) => bad!("spurious_shrink_failure", "shrink {} -> {} failed with {:?}", o.size, nsize, e),
                }
            }
        }
        if !check(start - 64, 64, 0xEE) || !check(end, 64, 0xEE) {
            bad!("out_of_bounds", "the guard bytes around the managed block were overwritten");
        }
    }
    // everything still live is intact, then: free all, the pool hands out every bucket again
    for o in &live {
        if !check(o.addr, o.size, o.pat) {
            bad!("corrupted", "allocation at offset {} was overwritten while it was live", o.addr - start);
        }
    }
    if let A::Pool(p) = &a {
        for o in live.drain(..) {
            unsafe { p.deallocate(NonNull::new(o.addr as *mut u8).unwrap(), Layout::from_size_align(o.size, o.align).unwrap()) };
        }
        let mut got: Vec<usize> = Vec::new();
        for n in 0..nbuckets {
            match p.allocate(bl) {
                Ok(x) => {
                    let addr = x.as_ptr() as usize;
                    if addr < start || addr + c.bucket_size > end {
                        bad!("out_of_bounds", "bucket {} of {} lies at [{},{}) outside the block of {} bytes", n, nbuckets, addr as isize - start as isize, addr + c.bucket_size - start, c.mem);
                    }
                    if addr % c.bucket_align != 0 {
                        bad!("misaligned", "bucket {} of {} (layout {:?}) is misaligned by {}", n, nbuckets, bl, addr % c.bucket_align);
                    }
                    if got.iter().any(|g| addr < g + c.bucket_size && *g < addr + c.bucket_size) {
                        bad!("overlap", "bucket {} overlaps another bucket", n);
                    }
                    fill(addr, c.bucket_size, 0x77);
                    got.push(addr);
                }
                Err(e) => bad!("freed_memory_not_reusable", "after freeing everything only {} of {} buckets can be allocated ({:?})", n, nbuckets, e),
            }
        }
        if p.allocate(bl).is_ok() {
            bad!("unsatisfiable_request_succeeded", "pool handed out more buckets than number_of_buckets() = {}", nbuckets);
        }
        if !check(start - 64, 64, 0xEE) || !check(end, 64, 0xEE) {
            bad!("out_of_bounds", "the guard bytes around the managed block were overwritten by the bucket fill");
        }
        ev!("pool_exhaustion_probes");
    }
    Ok(())
}

pub fn gen(rng: &mut Rng) -> Case {
    let kind = rng.below(4).min(2) as u8; // pool twice as often
    let kind = if kind == 3 { 0 } else { kind };
    let bucket_align = 1usize << rng.below(7);
    let bucket_size = if rng.chance(1, 2) { bucket_align * rng.range(1, 4) as usize } else { rng.range(1, 72) as usize };
    let misalign = if rng.chance(1, 2) { 0 } else { rng.range(1, 63) as usize };
    let mem = match kind {
        0 => {
            // at most ~20 buckets, sometimes a partial last bucket
            let stride = (bucket_size + bucket_align - 1) / bucket_align * bucket_align;
            (stride * rng.range(1, 20) as usize + rng.below(stride as u64) as usize + bucket_align).min(4000)
        }
        _ => rng.range(16, 600) as usize,
    };
    let n = rng.range(5, 60) as usize;
    let ops = (0..n).map(|_| ([0u8, 0, 0, 0, 1, 2, 2, 3, 4, 5][rng.below(10) as usize], rng.next() >> 8, rng.next() >> 8)).collect();
    Case { kind, bucket_size, bucket_align, mem, misalign, ops }
}

pub fn run(args: &Args) -> Report {
    std::panic::set_hook(Box::new(|_| {}));
    let seed = args.u64("seed", 1);
    let shard = args.u64("shard", 0);
    let secs = args.u64("secs", 10);
    let maxcases = args.u64("cases", u64::MAX);
    let only = args.kv.get("only-case").map(|s| s.parse::<u64>().unwrap());
    let deadline = std::time::Instant::now() + std::time::Duration::from_secs(secs);
    let mut rep = Report::new();
    let mut i = 0u64;
    while i < maxcases && std::time::Instant::now() < deadline {
        let ci = only.unwrap_or(i);
        let mut rng = Rng::derive(&[seed, shard, ci, 15]);
        let mut case = gen(&mut rng);
        let mut events = std::collections::BTreeMap::new();
        let exec = |c: &Case, ev: &mut std::collections::BTreeMap<&'static str, u64>| match std::panic::catch_unwind(std::panic::AssertUnwindSafe(|| run_case(c, ev))) {
            Ok(r) => r,
            Err(p) => Err(("panic".to_string(), p.downcast_ref::<std::string::String>().cloned().or(p.downcast_ref::<&str>().map(|s| s.to_string())).unwrap_or_default().chars().take(300).collect())),
        };
        let mut r = exec(&case, &mut events);
        rep.execs += 1;
        for (k, v) in &events {
            rep.count(k, *v);
        }
        if events.get("allocations").copied().unwrap_or(0) >= 2 {
            rep.nontrivial += 1;
            rep.distinct(vkit::fnv_str(&format!("{:?}", (case.kind, case.bucket_size, case.bucket_align, case.mem, case.misalign, case.ops.len()))));
        }
        if i < 2 {
            rep.sample(case.describe());
        }
        if let Err((rule, _)) = r.clone() {
            // shrink the operation list
            let mut chunk = (case.ops.len() / 2).max(1);
            loop {
                let mut k = 0;
                while k < case.ops.len() {
                    let mut cand = case.clone();
                    let end = (k + chunk).min(cand.ops.len());
                    cand.ops.drain(k..end);
                    let mut e2 = std::collections::BTreeMap::new();
                    let rc = exec(&cand, &mut e2);
                    if rc.as_ref().err().map(|m| m.0 == rule).unwrap_or(false) {
                        case = cand;
                        r = rc;
                    } else {
                        k += chunk;
                    }
                }
                if chunk == 1 {
                    break;
                }
                chunk /= 2;
            }
            let (rule, msg) = r.err().unwrap();
            rep.violation(
                &rule,
                format!("C15:{}:{}", case.key(), rule),
                format!("{} | case: {}", msg, case.describe().render()),
                Json::obj().set("case", case.describe()).set("replay_args", format!("c15 --seed {} --shard {} --only-case {}", seed, shard, ci)),
            );
        }
        i += 1;
        if only.is_some() {
            break;
        }
    }
    rep.count("cases", i);
    rep
}
