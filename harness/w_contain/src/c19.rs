//! C19 (names) — file names, paths and file paths are accepted exactly when they satisfy the documented
//! rules; no accepted file name can denote a location outside the root; accepted names round-trip;
//! mutating operations keep the value valid or fail without changing it.
//!
//! Reference predicates written from the documentation, differential against the constructors over
//! ALL byte strings up to a length bound, plus structured random long strings; mutation closure from
//! every accepted short value.
use iceoryx2_bb_container::semantic_string::SemanticString;
use iceoryx2_bb_system_types::file_name::FileName;
use iceoryx2_bb_system_types::file_path::FilePath;
use iceoryx2_bb_system_types::path::Path;
use vkit::{Args, Json, Report, Rng};

const FORBIDDEN_EVERYWHERE: &[u8] = b"<>\"|?*";

fn ascii_ok(b: u8) -> bool {
    // the underlying string only stores code points 1..=127; control characters are forbidden on every platform
    (32..=127).contains(&b)
}
fn ref_file_name(s: &[u8]) -> bool {
    !s.is_empty() && s.len() <= 255 && s != b"." && s != b".." && s.iter().all(|b| ascii_ok(*b) && *b != b'/' && *b != b'\\' && !FORBIDDEN_EVERYWHERE.contains(b))
}
fn ref_path(s: &[u8]) -> bool {
    s.len() <= 255 && s.iter().all(|b| ascii_ok(*b) && !FORBIDDEN_EVERYWHERE.contains(b))
}
fn ref_file_path(s: &[u8]) -> bool {
    ref_path(s) && !s.is_empty() && s != b"." && s != b".." && !s.ends_with(b"/") && !s.ends_with(b"/.") && !s.ends_with(b"/..")
}
/// joining a root with an accepted file name and normalising lexically must stay directly under the root
fn stays_under_root(name: &[u8]) -> bool {
    !name.contains(&b'/') && !name.contains(&0) && name != b"." && name != b".." && !name.is_empty()
}

trait Named: Sized + Clone {
    const NAME: &'static str;
    fn make(b: &[u8]) -> Option<Self>;
    fn bytes(&self) -> Vec<u8>;
    fn reference(b: &[u8]) -> bool;
    /// apply mutating operation `op` with argument byte `x`; Ok(()) when the operation reported success
    fn mutate(&mut self, op: u8, x: u8) -> Result<(), ()>;
}

macro_rules! named {
    ($t:ty, $name:expr, $refp:ident) => {
        impl Named for $t {
            const NAME: &'static str = $name;
            fn make(b: &[u8]) -> Option<Self> {
                <$t>::new(b).ok()
            }
            fn bytes(&self) -> Vec<u8> {
                self.as_bytes().to_vec()
            }
            fn reference(b: &[u8]) -> bool {
                $refp(b)
            }
            fn mutate(&mut self, op: u8, x: u8) -> Result<(), ()> {
                let len = self.len();
                match op {
                    0 => self.push(x).map_err(|_| ()),
                    1 => self.insert(0, x).map_err(|_| ()),
                    2 => self.insert(len / 2, x).map_err(|_| ()),
                    3 => self.pop().map(|_| ()).map_err(|_| ()),
                    4 => {
                        if len == 0 { return Err(()); }
                        self.remove(0).map(|_| ()).map_err(|_| ())
                    }
                    5 => {
                        if len == 0 { return Err(()); }
                        self.remove(len - 1).map(|_| ()).map_err(|_| ())
                    }
                    6 => {
                        if len < 1 { return Err(()); }
                        self.remove_range(0, 1).map_err(|_| ())
                    }
                    7 => self.retain(|c| c == x).map_err(|_| ()),
                    8 => self.truncate(len.saturating_sub(1)).map_err(|_| ()),
                    9 => self.strip_prefix(&[x]).map(|_| ()).map_err(|_| ()),
                    10 => self.strip_suffix(&[x]).map(|_| ()).map_err(|_| ()),
                    _ => self.push_bytes(&[x, b'.']).map_err(|_| ()),
                }
            }
        }
    };
}
named!(FileName, "FileName", ref_file_name);
named!(Path, "Path", ref_path);
named!(FilePath, "FilePath", ref_file_path);

const OPS: u8 = 12;
const OP_NAMES: [&str; 12] = ["push", "insert(0)", "insert(mid)", "pop", "remove(0)", "remove(last)", "remove_range(0,1)", "retain", "truncate(len-1)", "strip_prefix", "strip_suffix", "push_bytes(x.)"];

fn check_one<T: Named>(rep: &mut Report, input: &[u8], closure: bool) {
    rep.execs += 1;
    let made = T::make(input);
    let exp = T::reference(input);
    let show = |b: &[u8]| b.iter().map(|c| if (33..127).contains(c) { (*c as char).to_string() } else { format!("\\x{:02x}", c) }).collect::<String>();
    match (&made, exp) {
        (Some(_), false) => rep.violation("accepts_forbidden_name", format!("C19:{}:accepts_forbidden_name", T::NAME), format!("{}::new(\"{}\") was accepted, the documented rule forbids it", T::NAME, show(input)), Json::obj().set("input", show(input))),
        (None, true) => rep.violation("refuses_allowed_name", format!("C19:{}:refuses_allowed_name", T::NAME), format!("{}::new(\"{}\") was refused, the documented rule allows it", T::NAME, show(input)), Json::obj().set("input", show(input))),
        _ => {}
    }
    if let Some(v) = made {
        rep.count("accepted", 1);
        if v.bytes() != input {
            rep.violation("round_trip", format!("C19:{}:round_trip", T::NAME), format!("{}::new(\"{}\").as_bytes() = \"{}\"", T::NAME, show(input), show(&v.bytes())), Json::obj());
        }
        if T::NAME == "FileName" && !stays_under_root(input) {
            rep.violation("file_name_escapes_root", "C19:FileName:file_name_escapes_root", format!("accepted file name \"{}\" can denote a location outside the root", show(input)), Json::obj());
        }
        if closure {
            for op in 0..OPS {
                for x in [b'a', b'.', b'/', 0u8, b'*', 200u8, b'\\', b' '] {
                    let mut m = v.clone();
                    let before = m.bytes();
                    let r = m.mutate(op, x);
                    let after = m.bytes();
                    rep.count("mutations", 1);
                    match r {
                        Ok(()) => {
                            if !T::reference(&after) {
                                rep.violation("mutation_produced_invalid_value", format!("C19:{}:mutation_produced_invalid_value:{}", T::NAME, OP_NAMES[op as usize]), format!("{} \"{}\" {}({:#x}) -> \"{}\" which the documented rule forbids", T::NAME, show(&before), OP_NAMES[op as usize], x, show(&after)), Json::obj());
                            }
                        }
                        Err(()) => {
                            if after != before {
                                rep.violation("failed_mutation_changed_value", format!("C19:{}:failed_mutation_changed_value:{}", T::NAME, OP_NAMES[op as usize]), format!("{} \"{}\" {}({:#x}) reported failure but the value is now \"{}\"", T::NAME, show(&before), OP_NAMES[op as usize], x, show(&after)), Json::obj());
                            }
                        }
                    }
                }
            }
        }
    } else {
        rep.count("refused", 1);
    }
}

fn enumerate<T: Named>(rep: &mut Report, maxlen: usize, shard: u64, nshards: u64) {
    let mut n = 0u64;
    for len in 0..=maxlen {
        let total = 256u64.pow(len as u32);
        for code in 0..total {
            n += 1;
            if n % nshards != shard {
                continue;
            }
            let mut s = Vec::with_capacity(len);
            let mut c = code;
            for _ in 0..len {
                s.push((c % 256) as u8);
                c /= 256;
            }
            check_one::<T>(rep, &s, len <= 2);
        }
    }
    rep.count(&format!("enumerated_{}", T::NAME), n);
}

fn random_long<T: Named>(rep: &mut Report, rng: &mut Rng, n: usize) {
    let pieces: [&[u8]; 14] = [b"/", b"..", b".", b"a", b"bc", b"\0", b"*", b" ", b"//", b"/./", b"x.y", b"\\", b"~", b"\xc3\xa4"];
    for _ in 0..n {
        let mut s: Vec<u8> = Vec::new();
        let target = match rng.below(4) {
            0 => 254 + rng.below(4) as usize,
            1 => rng.range(1, 12) as usize,
            _ => rng.range(1, 300) as usize,
        };
        while s.len() < target {
            if rng.chance(1, 3) {
                let p: &[u8] = pieces[rng.below(pieces.len() as u64) as usize];
                s.extend_from_slice(p);
            } else {
                s.push(b'a' + rng.below(26) as u8);
            }
        }
        s.truncate(target);
        check_one::<T>(rep, &s, rng.chance(1, 20));
        rep.distinct(vkit::fnv(&s));
        rep.nontrivial += 1;
    }
}

pub fn run(args: &Args) -> Report {
    let seed = args.u64("seed", 1);
    let shard = args.u64("shard", 0);
    let nshards = args.u64("nshards", 1);
    let maxlen = args.usize("len", 2);
    let mut rep = Report::new();
    rep.max_distinct = 5000;
    enumerate::<FileName>(&mut rep, maxlen, shard, nshards);
    enumerate::<Path>(&mut rep, maxlen, shard, nshards);
    enumerate::<FilePath>(&mut rep, maxlen, shard, nshards);
    let mut rng = Rng::derive(&[seed, shard, 19]);
    let n = args.usize("random", 2000);
    random_long::<FileName>(&mut rep, &mut rng, n);
    random_long::<Path>(&mut rep, &mut rng, n);
    random_long::<FilePath>(&mut rep, &mut rng, n);
    rep.sample(Json::obj().set("types", "FileName Path FilePath").set("exhaustive_byte_strings_up_to_length", maxlen).set("random_long_strings_per_type", n).set("mutation_closure", "12 operations x 8 argument bytes from every accepted value of length <= 2"));
    rep
}
