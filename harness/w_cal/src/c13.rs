//! C13 — connection lifecycle: one sender, one receiver, removed once by the last.
//!
//! (1) sequential histories over {attach S, attach R, detach S, detach R, force-remove S, force-remove
//!     R, mismatching attach} against a small model (which roles are attached, does the storage
//!     exist), with a token probe whenever both roles are attached;
//! (2) concurrent: 2-3 threads attach/detach random roles on one name under the stall sweep; role
//!     holding intervals must not overlap, `does_exist` sampled inside every holding interval must be
//!     true and after the last detach false.
use crate::calcfg;
use iceoryx2_cal::named_concept::*;
use iceoryx2_cal::shm_allocator::PointerOffset;
use iceoryx2_cal::zero_copy_connection::*;
use std::sync::Mutex;
use vkit::campaign::{campaign, maybe_before, surely_before, Budget, ExecResult};
use vkit::sched::{self, Mode};
use vkit::{ts, Args, Json, Report, Rng};

const CH: ChannelId = ChannelId::new(0);

fn builder<'a, Sut: ZeroCopyConnection>(name: &'a iceoryx2_bb_system_types::file_name::FileName, config: &'a Sut::Configuration) -> Sut::Builder {
    Sut::Builder::new(name).config(config).buffer_size(2).number_of_chunks_per_segment(6).receiver_max_borrowed_chunks_per_channel(2).timeout(std::time::Duration::from_millis(50))
}

// ------------------------------ sequential histories ------------------------------
pub fn op_name(o: u8) -> &'static str {
    ["AttachS", "AttachR", "DetachS", "DetachR", "ForceRemoveS", "ForceRemoveR", "MismatchAttach"][o as usize]
}

pub fn seq_history<Sut: ZeroCopyConnection>(script: &[u8]) -> Option<(String, String)> {
    let prefix = calcfg::unique("c13s");
    let config = calcfg::config::<Sut>(&prefix);
    let name = calcfg::fname("conn");
    let mut sender: Option<Sut::Sender> = None;
    let mut receiver: Option<Sut::Receiver> = None;
    // model: roles registered in the shared state (a forced removal unregisters a role whose handle is leaked)
    let (mut reg_s, mut reg_r) = (false, false);
    let mut trace: Vec<String> = Vec::new();
    let mut next_token = 0usize;
    let mut leaked_s: Vec<Sut::Sender> = Vec::new();
    let mut leaked_r: Vec<Sut::Receiver> = Vec::new();
    macro_rules! fail {
        ($rule:expr, $($a:tt)*) => {{
            let __msg = format!("{} | history: {}", format!($($a)*), trace.join(" "));
            for x in leaked_s.drain(..) { core::mem::forget(x); }
            for x in leaked_r.drain(..) { core::mem::forget(x); }
            #[allow(unused_assignments)]
            {
                sender = None;
                receiver = None;
            }
            calcfg::cleanup(&prefix);
            return Some(($rule.to_string(), __msg));
        }};
    }
    for o in script {
        match o {
            0 => {
                let r = builder::<Sut>(&name, &config).create_sender();
                trace.push(format!("AttachS->{}", match &r { Ok(_) => "Ok".to_string(), Err(e) => format!("{:?}", e) }));
                match r {
                    Ok(s) => {
                        if reg_s {
                            fail!("second_sender_attached", "a second sender attached while one is registered");
                        }
                        if sender.is_some() {
                            fail!("second_sender_attached", "a second sender handle while one is alive");
                        }
                        sender = Some(s);
                        reg_s = true;
                    }
                    Err(ZeroCopyCreationError::AnotherInstanceIsAlreadyConnected) => {
                        if !reg_s {
                            fail!("attach_refused", "sender attach refused with AnotherInstanceIsAlreadyConnected although no sender is registered");
                        }
                    }
                    Err(e) => fail!("attach_failed", "sender attach failed with {:?} (registered: sender {} receiver {})", e, reg_s, reg_r),
                }
            }
            1 => {
                let r = builder::<Sut>(&name, &config).create_receiver();
                trace.push(format!("AttachR->{}", match &r { Ok(_) => "Ok".to_string(), Err(e) => format!("{:?}", e) }));
                match r {
                    Ok(s) => {
                        if reg_r || receiver.is_some() {
                            fail!("second_receiver_attached", "a second receiver attached while one is registered");
                        }
                        receiver = Some(s);
                        reg_r = true;
                    }
                    Err(ZeroCopyCreationError::AnotherInstanceIsAlreadyConnected) => {
                        if !reg_r {
                            fail!("attach_refused", "receiver attach refused with AnotherInstanceIsAlreadyConnected although no receiver is registered");
                        }
                    }
                    Err(e) => fail!("attach_failed", "receiver attach failed with {:?} (registered: sender {} receiver {})", e, reg_s, reg_r),
                }
            }
            2 => {
                if let Some(s) = sender.take() {
                    drop(s);
                    reg_s = false;
                    trace.push("DetachS".into());
                }
            }
            3 => {
                if let Some(r) = receiver.take() {
                    drop(r);
                    reg_r = false;
                    trace.push("DetachR".into());
                }
            }
            4 | 5 => {
                // forced removal on behalf of a dead peer: the handle of that role is leaked (its process is gone)
                let is_s = *o == 4;
                if is_s {
                    if let Some(s) = sender.take() {
                        leaked_s.push(s);
                    }
                } else if let Some(r) = receiver.take() {
                    leaked_r.push(r);
                }
                let existed = reg_s || reg_r;
                let r = unsafe { if is_s { Sut::remove_sender(&name, &config) } else { Sut::remove_receiver(&name, &config) } };
                trace.push(format!("ForceRemove{}->{:?}", if is_s { "S" } else { "R" }, r));
                match r {
                    Ok(()) => {
                        if is_s { reg_s = false } else { reg_r = false }
                    }
                    Err(ZeroCopyPortRemoveError::DoesNotExist) => {
                        if existed {
                            fail!("force_remove_wrong_result", "forced removal says DoesNotExist although the connection has registered roles (sender {} receiver {})", reg_s, reg_r);
                        }
                    }
                    Err(e) => fail!("force_remove_failed", "forced removal failed with {:?}", e),
                }
            }
            _ => {
                // attach with a mismatching buffer size: must be refused without disturbing the attached side
                if !(reg_s || reg_r) {
                    continue;
                }
                let want_sender = !reg_s;
                let b = Sut::Builder::new(&name).config(&config).buffer_size(3).number_of_chunks_per_segment(6).receiver_max_borrowed_chunks_per_channel(2).timeout(std::time::Duration::from_millis(50));
                let err = if want_sender { b.create_sender().err() } else { b.create_receiver().err() };
                trace.push(format!("MismatchAttach{}->{:?}", if want_sender { "S" } else { "R" }, err));
                match err {
                    None => fail!("mismatching_attach_succeeded", "an attach with buffer size 3 succeeded on a connection created with buffer size 2"),
                    Some(ZeroCopyCreationError::IncompatibleBufferSize) => {}
                    Some(ZeroCopyCreationError::AnotherInstanceIsAlreadyConnected) if !want_sender => {}
                    Some(e) => fail!("mismatching_attach_wrong_error", "mismatching attach was refused with {:?}", e),
                }
            }
        }
        // invariants after every step
        let exists = Sut::does_exist_cfg(&name, &config).unwrap_or(false);
        if exists != (reg_s || reg_r) {
            fail!("existence_wrong", "does_exist() = {} with registered roles sender {} receiver {}", exists, reg_s, reg_r);
        }
        if let (Some(s), Some(r)) = (&sender, &receiver) {
            if !s.is_connected() || !r.is_connected() {
                fail!("attached_pair_not_connected", "both roles are attached but is_connected() is sender {} receiver {}", s.is_connected(), r.is_connected());
            }
            // token probe: what the sender pushes the receiver must obtain
            while let Ok(Some(_)) = s.reclaim(CH) {}
            let tok = PointerOffset::new((next_token % 6) * 64);
            match s.try_send(tok, 64, CH) {
                Ok(_) => match r.receive(CH) {
                    Ok(Some(p)) if p.offset() == tok.offset() => {
                        let _ = r.release(p, CH);
                        while let Ok(Some(_)) = s.reclaim(CH) {}
                        next_token += 1;
                    }
                    other => fail!("attached_pair_not_connected", "token sent by the attached sender did not arrive at the attached receiver: {:?}", other.map(|o| o.map(|p| p.offset()))),
                },
                Err(e) => fail!("attached_pair_not_connected", "token send on an attached pair failed with {:?}", e),
            }
        } else if let Some(s) = &sender {
            if s.is_connected() && !reg_r {
                fail!("attached_pair_not_connected", "sender reports is_connected() without a registered receiver");
            }
        }
    }
    for x in leaked_s.drain(..) {
        core::mem::forget(x);
    }
    for x in leaked_r.drain(..) {
        core::mem::forget(x);
    }
    drop(sender.take());
    drop(receiver.take());
    let res = calcfg::residue(&prefix);
    // leaked (dead) roles that were never force-removed keep the storage alive by design
    let leaked_registered = (reg_s as u8 + reg_r as u8) > 0 && false;
    let r = if !res.is_empty() && !leaked_registered && !(reg_s || reg_r) { Some(("residue".to_string(), format!("storage left after the last role detached: {:?} | history: {}", res, trace.join(" ")))) } else { None };
    calcfg::cleanup(&prefix);
    r
}

// ------------------------------ concurrent attach/detach ------------------------------
#[derive(Clone, Copy, Debug)]
struct Hold {
    role: u8,
    call: u64,
    from: u64,
    to: u64,
    ret: u64,
    existed: bool,
}

fn conc_exec<Sut: ZeroCopyConnection>(threads: usize, iters: usize, seed: u64, mode: &Mode) -> ExecResult
where
    Sut::Configuration: Sync,
{
    let prefix = calcfg::unique("c13c");
    let config = calcfg::config::<Sut>(&prefix);
    let name = calcfg::fname("conn");
    let holds: Mutex<Vec<Hold>> = Mutex::new(Vec::new());
    let errs: Mutex<Vec<String>> = Mutex::new(Vec::new());
    let mut bodies: Vec<Box<dyn FnOnce() + Send>> = Vec::new();
    for t in 0..threads {
        let (holds, errs, config, name) = (&holds, &errs, &config, &name);
        bodies.push(Box::new(move || {
            let mut rng = Rng::derive(&[seed, t as u64, 13]);
            let mut mine = Vec::new();
            for _ in 0..iters {
                let want_sender = rng.chance(1, 2);
                let call = ts::now();
                if want_sender {
                    match builder::<Sut>(name, config).create_sender() {
                        Ok(s) => {
                            let from = ts::now();
                            let existed = Sut::does_exist_cfg(name, config).unwrap_or(false);
                            let _ = s.is_connected();
                            let to = ts::now();
                            drop(s);
                            mine.push(Hold { role: 0, call, from, to, ret: ts::now(), existed });
                        }
                        Err(e) => errs.lock().unwrap().push(format!("{:?}", e)),
                    }
                } else {
                    match builder::<Sut>(name, config).create_receiver() {
                        Ok(r) => {
                            let from = ts::now();
                            let existed = Sut::does_exist_cfg(name, config).unwrap_or(false);
                            while let Ok(Some(p)) = r.receive(CH) {
                                let _ = r.release(p, CH);
                            }
                            let to = ts::now();
                            drop(r);
                            mine.push(Hold { role: 1, call, from, to, ret: ts::now(), existed });
                        }
                        Err(e) => errs.lock().unwrap().push(format!("{:?}", e)),
                    }
                }
            }
            holds.lock().unwrap().extend(mine);
        }));
    }
    let stats = sched::run_threads(mode, bodies);
    let hv = holds.into_inner().unwrap();
    let errs = errs.into_inner().unwrap();
    let mut viol: Vec<(String, String, String)> = Vec::new();
    let mut v = |rule: &str, msg: String| viol.push((rule.to_string(), format!("conc:{}", rule), msg));
    for role in 0..2u8 {
        let mut x: Vec<&Hold> = hv.iter().filter(|h| h.role == role).collect();
        x.sort_by_key(|h| h.from);
        for w in x.windows(2) {
            if surely_before(w[1].from, w[0].to) {
                v("two_handles_of_one_role", format!("two live {} handles on one connection name overlap in time", if role == 0 { "sender" } else { "receiver" }));
            }
        }
    }
    for h in &hv {
        if !h.existed {
            v("storage_vanished_while_attached", format!("does_exist() was false while a {} handle was held", if h.role == 0 { "sender" } else { "receiver" }));
        }
    }
    for e in &errs {
        if !(e.contains("AnotherInstanceIsAlreadyConnected") || e.contains("IsBeingCleanedUp") || e.contains("InitializationNotYetFinalized")) {
            v("undocumented_attach_error", format!("attach failed with {}", e));
        }
    }
    if Sut::does_exist_cfg(&name, &config).unwrap_or(true) {
        v("storage_survives_last_detach", "the connection still exists after every handle was dropped".into());
    }
    let res = calcfg::residue(&prefix);
    if !res.is_empty() {
        v("residue", format!("files left: {:?}", res));
    }
    calcfg::cleanup(&prefix);
    let overlapped = hv.iter().any(|a| hv.iter().any(|b| (a.call, a.role) != (b.call, b.role) && maybe_before(a.call, b.ret) && maybe_before(b.call, a.ret) && a.call < b.ret && b.call < a.ret && a.from != b.from));
    let mut obs = errs.len() as u64;
    for h in &hv {
        obs = vkit::mix(obs, h.role as u64);
    }
    ExecResult { stats, violations: viol, nontrivial: overlapped, observed: obs, inconclusive: false }
}

pub fn run(args: &Args) -> Report {
    let seed = args.u64("seed", 1);
    let shard = args.u64("shard", 0);
    let storage = args.str("storage", "local");
    let part = args.str("part", "conc");
    let mut rep = Report::new();
    if part == "seq" {
        // all histories up to the given length, then random longer ones
        let maxlen = args.usize("len", 5);
        let exec = |sc: &[u8]| if storage == "shm" { seq_history::<iceoryx2_cal::zero_copy_connection::posix_shared_memory::Connection>(sc) } else { seq_history::<iceoryx2_cal::zero_copy_connection::process_local::Connection>(sc) };
        let nshards = args.u64("nshards", 1);
        if let Some(sc) = args.kv.get("script") {
            // replay of one history (comma separated operation indices), repeated --times
            let seq: Vec<u8> = sc.split(',').filter_map(|x| x.trim().parse().ok()).collect();
            for _ in 0..args.u64("times", 1) {
                rep.execs += 1;
                if let Some((rule, msg)) = exec(&seq) {
                    rep.violation(&rule, format!("C13:seq:{}", rule), msg, Json::obj().set("history", seq.iter().map(|o| op_name(*o)).collect::<Vec<_>>().join(" ")));
                }
            }
            return rep;
        }
        let mut n = 0u64;
        for len in 1..=maxlen {
            let mut seq = vec![0u8; len];
            loop {
                n += 1;
                if n % nshards == shard % nshards {
                    // leaked (dead-peer) handles keep their descriptors: never run into the process limit, an
                    // exhausted descriptor table makes does_exist() answer false for everything
                    if rep.execs % 256 == 0 && std::fs::read_dir("/proc/self/fd").map(|d| d.count()).unwrap_or(0) > 12_000 {
                        rep.inconclusive += 1;
                        rep.notes.push(format!("descriptor budget used up after {} histories of this shard: the rest of the box was not run", rep.execs));
                        rep.count("exhaustive_box_cut", 1);
                        return rep;
                    }
                    rep.execs += 1;
                    if len == maxlen {
                        rep.nontrivial += 1;
                    }
                    if let Some((rule, msg)) = exec(&seq) {
                        rep.violation(&rule, format!("C13:seq:{}", rule), msg, Json::obj().set("history", seq.iter().map(|o| op_name(*o)).collect::<Vec<_>>().join(" ")).set("replay_args", format!("c13 --part seq --storage {} --script {} --times 200", storage, seq.iter().map(|o| o.to_string()).collect::<Vec<_>>().join(","))));
                    }
                }
                let mut i = len;
                let mut done = false;
                while i > 0 {
                    i -= 1;
                    seq[i] += 1;
                    if seq[i] < 7 {
                        break;
                    }
                    seq[i] = 0;
                    if i == 0 {
                        done = true;
                    }
                }
                if done {
                    break;
                }
            }
        }
        rep.count("exhaustive_histories", n);
        rep.distinct(n);
        rep.distinct(maxlen as u64);
        rep.sample(Json::obj().set("storage", storage.as_str()).set("exhaustive_up_to_length", maxlen).set("alphabet", "AttachS AttachR DetachS DetachR ForceRemoveS ForceRemoveR MismatchAttach"));
        return rep;
    }
    let b = Budget::from_args(args);
    let mut i = 0u64;
    while i < b.max_progs && !b.expired() {
        let pi = b.only_prog.unwrap_or(i);
        let mut rng = Rng::derive(&[seed, shard, pi, 1313]);
        let threads = rng.range(2, 3) as usize;
        let iters = rng.range(2, 5) as usize;
        let s2 = rng.next();
        let desc = Json::obj().set("threads", threads).set("attach_detach_per_thread", iters).set("storage", storage.as_str());
        let replay = format!("c13 --part conc --storage {} --seed {} --shard {} --only-prog {}", storage, seed, shard, pi);
        if i < 1 {
            rep.sample(desc.clone());
        }
        campaign(&mut rep, &mut rng, &b, "C13", &desc, &replay, vkit::fnv_str(&desc.render()), &mut |m| {
            if storage == "shm" { conc_exec::<iceoryx2_cal::zero_copy_connection::posix_shared_memory::Connection>(threads, iters, s2, m) } else { conc_exec::<iceoryx2_cal::zero_copy_connection::process_local::Connection>(threads, iters, s2, m) }
        });
        i += 1;
        if b.only_prog.is_some() {
            break;
        }
    }
    rep.count("programs", i);
    rep
}
