//! cal-level workers (`iceoryx2-cal` concepts with process-local and POSIX back-ends).
extern crate iceoryx2_bb_loggers;
mod c03conn;
mod c13;
mod calcfg;

fn main() {
    let args = vkit::Args::parse();
    iceoryx2_log::set_log_level(iceoryx2_log::LogLevel::Fatal);
    let rep = match args.sub.as_str() {
        "c03conn" => c03conn::campaign(&args),
        "c13" => c13::run(&args),
        "warmup" => return,
        other => {
            eprintln!("unknown sub command {:?}", other);
            std::process::exit(2);
        }
    };
    rep.emit();
}
