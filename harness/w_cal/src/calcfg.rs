//! Isolated cal-level configurations (own prefix, directory under /verif/.run) and residue listing.
use iceoryx2_bb_container::semantic_string::SemanticString;
use iceoryx2_bb_system_types::file_name::FileName;
use iceoryx2_bb_system_types::path::Path;
use iceoryx2_cal::named_concept::{NamedConceptConfiguration, NamedConceptMgmt};
use std::sync::atomic::{AtomicU64, Ordering};

static CTR: AtomicU64 = AtomicU64::new(0);

pub fn run_dir() -> String {
    let d = std::env::var("VERIF_RUN_DIR").unwrap_or_else(|_| "/verif/.run/cal".to_string());
    let _ = std::fs::create_dir_all(&d);
    d
}

pub fn unique(tag: &str) -> String {
    format!("{}{}x{}", tag, vkit::proc_token(), CTR.fetch_add(1, Ordering::Relaxed))
}

pub fn config<T: NamedConceptMgmt>(prefix: &str) -> T::Configuration {
    T::Configuration::default().prefix(&FileName::new(prefix.as_bytes()).unwrap()).path_hint(&Path::new(run_dir().as_bytes()).unwrap())
}

pub fn fname(s: &str) -> FileName {
    FileName::new(s.as_bytes()).unwrap()
}

/// files in the run dir and shm objects that carry the prefix
pub fn residue(prefix: &str) -> Vec<String> {
    let mut out = Vec::new();
    for dir in [run_dir(), "/dev/shm".to_string()] {
        if let Ok(rd) = std::fs::read_dir(&dir) {
            for e in rd.flatten() {
                let n = e.file_name().to_string_lossy().to_string();
                if n.starts_with(prefix) {
                    out.push(format!("{}/{}", dir, n));
                }
            }
        }
    }
    out
}

pub fn cleanup(prefix: &str) {
    for f in residue(prefix) {
        let _ = std::fs::remove_file(f);
    }
}
