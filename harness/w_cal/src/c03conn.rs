//! C03 (connection level) — a zero-copy connection never loses or duplicates a sample offset between
//! sender and receiver, and a release by the receiver never fails for lack of space.
//!
//! Operation-level interleavings of the two roles are enumerated as sequential histories over
//! {reclaim-all, try_send, receive, release oldest/newest}; the sender follows the port protocol
//! (it reclaims until empty before it sends) but receiver operations may fall between the reclaim
//! and the send.  Model: every offset is at any time in exactly one of {sender-owned, submission
//! queue, borrowed, completion queue}.
use crate::calcfg;
use iceoryx2_cal::named_concept::*;
use iceoryx2_cal::shm_allocator::PointerOffset;
use iceoryx2_cal::zero_copy_connection::*;
use std::collections::VecDeque;
use vkit::{Json, Report, Rng};

const CH: ChannelId = ChannelId::new(0);
const SAMPLE: usize = 64;

#[derive(Clone, Copy, Debug)]
pub struct Cfg {
    pub buf: usize,
    pub borrow: usize,
    pub overflow: bool,
    pub chunks: usize,
}

pub fn op_name(o: u8) -> &'static str {
    ["ReclaimAll", "TrySend", "Receive", "ReleaseOldest", "ReleaseNewest"][o as usize]
}

/// returns Some((rule, message)) on the first refuting step
pub fn run<Sut: ZeroCopyConnection>(cfg: Cfg, script: &[u8], events: &mut std::collections::BTreeMap<&'static str, u64>) -> Option<(String, String)> {
    let prefix = calcfg::unique("c3");
    let config = calcfg::config::<Sut>(&prefix);
    let name = calcfg::fname("conn");
    let mk = || Sut::Builder::new(&name).config(&config).buffer_size(cfg.buf).receiver_max_borrowed_chunks_per_channel(cfg.borrow).enable_safe_overflow(cfg.overflow).number_of_chunks_per_segment(cfg.chunks);
    let sender = match mk().create_sender() {
        Ok(s) => s,
        Err(e) => return Some(("create_failed".into(), format!("{:?}", e))),
    };
    let receiver = match mk().create_receiver() {
        Ok(s) => s,
        Err(e) => return Some(("create_failed".into(), format!("{:?}", e))),
    };
    let mut free: VecDeque<usize> = (0..cfg.chunks).collect();
    let mut submission: VecDeque<usize> = VecDeque::new();
    let mut borrowed: Vec<usize> = Vec::new();
    let mut completion: VecDeque<usize> = VecDeque::new();
    let mut reclaimed_clean = true; // the sender's last operation was a reclaim-all that ended with None
    let mut trace: Vec<String> = Vec::new();
    macro_rules! ev {
        ($k:expr) => {
            *events.entry($k).or_default() += 1
        };
    }
    let off = |i: usize| PointerOffset::new(i * SAMPLE);
    let idx = |p: PointerOffset| p.offset() / SAMPLE;
    let mut bad: Option<(String, String)> = None;
    for op in script {
        let fail = |rule: &str, msg: String, trace: &Vec<String>| Some((rule.to_string(), format!("cfg {:?}: {} | history: {}", cfg, msg, trace.join(" "))));
        match *op {
            0 => {
                let mut got = Vec::new();
                loop {
                    match sender.reclaim(CH) {
                        Ok(Some(p)) => got.push(idx(p)),
                        Ok(None) => break,
                        Err(e) => {
                            bad = fail("reclaim_error", format!("reclaim failed: {:?}", e), &trace);
                            break;
                        }
                    }
                    if got.len() > cfg.chunks + 2 {
                        bad = fail("offset_duplicated", "reclaim returns more offsets than exist".into(), &trace);
                        break;
                    }
                }
                trace.push(format!("ReclaimAll->{:?}", got));
                let exp: Vec<usize> = completion.drain(..).collect();
                if bad.is_none() && got != exp {
                    bad = fail("offset_lost_or_duplicated", format!("reclaim returned {:?}, the receiver released {:?}", got, exp), &trace);
                }
                free.extend(got.iter());
                reclaimed_clean = true;
                ev!("reclaim_all");
            }
            1 => {
                if !reclaimed_clean || free.is_empty() {
                    continue;
                }
                let i = *free.front().unwrap();
                let r = sender.try_send(off(i), SAMPLE, CH);
                trace.push(format!("TrySend({})->{:?}", i, r.as_ref().map(|o| o.map(idx))));
                reclaimed_clean = false;
                match r {
                    Ok(evicted) => {
                        free.pop_front();
                        if submission.len() == cfg.buf {
                            if !cfg.overflow {
                                bad = fail("capacity_exceeded", format!("try_send succeeded with {} offsets in a buffer of {}", submission.len(), cfg.buf), &trace);
                            } else {
                                let oldest = submission.pop_front().unwrap();
                                if evicted.map(idx) != Some(oldest) {
                                    bad = fail("eviction_wrong", format!("overflow must hand back the oldest offset {}, got {:?}", oldest, evicted.map(idx)), &trace);
                                }
                                free.push_back(oldest);
                                ev!("overflow_eviction");
                            }
                        } else if evicted.is_some() {
                            bad = fail("invented_offset", format!("try_send handed back {:?} although the buffer was not full", evicted.map(idx)), &trace);
                        }
                        submission.push_back(i);
                        ev!("send");
                    }
                    Err(ZeroCopySendError::ReceiveBufferFull) => {
                        if cfg.overflow || submission.len() < cfg.buf {
                            bad = fail("spurious_full", format!("ReceiveBufferFull with {} of {} offsets queued (overflow {})", submission.len(), cfg.buf, cfg.overflow), &trace);
                        }
                        ev!("buffer_full");
                    }
                    Err(e) => bad = fail("send_error", format!("try_send failed with {:?} (submission {:?}, borrowed {:?}, completion {:?})", e, submission, borrowed, completion), &trace),
                }
            }
            2 => {
                let r = receiver.receive(CH);
                trace.push(format!("Receive->{:?}", r.as_ref().map(|o| o.map(idx))));
                match r {
                    Ok(Some(p)) => {
                        if borrowed.len() >= cfg.borrow {
                            bad = fail("borrow_limit_not_enforced", format!("receive handed out offset {} with {} already borrowed (max {})", idx(p), borrowed.len(), cfg.borrow), &trace);
                        }
                        match submission.pop_front() {
                            Some(h) if h == idx(p) => {}
                            other => bad = fail("offset_lost_or_duplicated", format!("receive returned {} but the oldest sent offset is {:?}", idx(p), other), &trace),
                        }
                        borrowed.push(idx(p));
                        ev!("receive");
                    }
                    Ok(None) => {
                        if !submission.is_empty() {
                            bad = fail("offset_lost_or_duplicated", format!("receive returned None with {:?} queued", submission), &trace);
                        }
                    }
                    Err(ZeroCopyReceiveError::ReceiveWouldExceedMaxBorrowValue) => {
                        if borrowed.len() < cfg.borrow {
                            bad = fail("spurious_borrow_limit", format!("borrow limit reported with {} of {} borrowed", borrowed.len(), cfg.borrow), &trace);
                        }
                        ev!("borrow_limit");
                    }
                }
                if receiver.has_data(CH) == submission.is_empty() && bad.is_none() {
                    bad = fail("has_data_wrong", format!("has_data() = {} with {:?} queued", receiver.has_data(CH), submission), &trace);
                }
                if receiver.borrow_count(CH) != borrowed.len() && bad.is_none() {
                    bad = fail("borrow_count_wrong", format!("borrow_count() = {} with {:?} borrowed", receiver.borrow_count(CH), borrowed), &trace);
                }
            }
            3 | 4 => {
                if borrowed.is_empty() {
                    continue;
                }
                let i = if *op == 3 { borrowed.remove(0) } else { borrowed.pop().unwrap() };
                let r = receiver.release(off(i), CH);
                trace.push(format!("Release({})->{:?}", i, r));
                match r {
                    Ok(()) => {
                        completion.push_back(i);
                        ev!("release");
                        if completion.len() > cfg.buf + cfg.borrow {
                            ev!("completion_queue_at_worst_case");
                        }
                    }
                    Err(e) => bad = fail("release_failed", format!("release of a borrowed offset failed with {:?} ({} offsets waiting to be reclaimed, buffer {} + borrow {})", e, completion.len(), cfg.buf, cfg.borrow), &trace),
                }
            }
            _ => {}
        }
        // conservation: every offset in exactly one place
        let total = free.len() + submission.len() + borrowed.len() + completion.len();
        if bad.is_none() && total != cfg.chunks {
            bad = fail("offset_lost_or_duplicated", format!("{} of {} offsets accounted for", total, cfg.chunks), &trace);
        }
        if bad.is_some() {
            break;
        }
    }
    if bad.is_none() {
        // the receiver vanishes: the sender must get back exactly what was outstanding
        drop(receiver);
        let mut used = Vec::new();
        unsafe { sender.acquire_used_offsets(|p| used.push(idx(p))) };
        used.sort();
        let mut exp: Vec<usize> = submission.iter().chain(borrowed.iter()).chain(completion.iter()).cloned().collect();
        exp.sort();
        // offsets still in the completion queue may be reported through the used list as well
        let mut exp_min: Vec<usize> = submission.iter().chain(borrowed.iter()).cloned().collect();
        exp_min.sort();
        if used != exp && used != exp_min {
            bad = Some(("used_offsets_wrong".into(), format!("cfg {:?}: after the receiver vanished acquire_used_offsets returned {:?}, outstanding were {:?} (without unreclaimed: {:?}) | history: {}", cfg, used, exp, exp_min, trace.join(" "))));
        }
        drop(sender);
    }
    let res = calcfg::residue(&prefix);
    if bad.is_none() && !res.is_empty() {
        bad = Some(("residue".into(), format!("connection files left after both sides detached: {:?}", res)));
    }
    calcfg::cleanup(&prefix);
    bad
}

pub fn campaign(args: &vkit::Args) -> Report {
    let seed = args.u64("seed", 1);
    let shard = args.u64("shard", 0);
    let secs = args.u64("secs", 5);
    let deadline = std::time::Instant::now() + std::time::Duration::from_secs(secs);
    let only = args.kv.get("only-hist").map(|s| s.parse::<u64>().unwrap());
    let storage = args.str("storage", "local");
    let prop = args.str("prop", "C03");
    let mut rep = Report::new();
    let mut i = 0u64;
    while std::time::Instant::now() < deadline {
        let hi = only.unwrap_or(i);
        let mut rng = Rng::derive(&[seed, shard, hi, 303]);
        let buf = rng.range(1, 3) as usize;
        let borrow = rng.range(1, 3) as usize;
        let cfg = Cfg { buf, borrow, overflow: rng.chance(1, 2), chunks: buf + borrow + 1 + rng.below(3) as usize };
        let len = rng.range(8, 60) as usize;
        // bias: receiver operations right after a reclaim (the window between reclaim and send)
        let mut script: Vec<u8> = Vec::new();
        if rng.chance(1, 3) {
            // worst-case gadget: fill the submission queue while the receiver borrows its maximum, then let the
            // receiver return everything and take more between the sender's reclaim and its next send
            for n in 0..(buf + borrow) {
                script.push(0);
                script.push(1);
                if n < borrow {
                    script.push(2);
                }
            }
            script.push(0);
            for _ in 0..(buf + borrow) {
                script.push(if rng.chance(1, 2) { 3 } else { 4 });
                script.push(2);
            }
            script.push(1);
            for _ in 0..(buf + borrow + 1) {
                script.push(2);
                script.push(3);
            }
        }
        while script.len() < len {
            match rng.below(10) {
                0..=3 => {
                    script.push(0);
                    for _ in 0..rng.below(3) {
                        script.push(rng.range(2, 4) as u8);
                    }
                    script.push(1);
                }
                4..=6 => script.push(2),
                7..=8 => script.push(3),
                _ => script.push(4),
            }
        }
        let exec = |sc: &[u8], ev: &mut std::collections::BTreeMap<&'static str, u64>| {
            if storage == "shm" { run::<iceoryx2_cal::zero_copy_connection::posix_shared_memory::Connection>(cfg, sc, ev) } else { run::<iceoryx2_cal::zero_copy_connection::process_local::Connection>(cfg, sc, ev) }
        };
        let mut events = std::collections::BTreeMap::new();
        let mut r = exec(&script, &mut events);
        rep.execs += 1;
        for (k, v) in &events {
            rep.count(k, *v);
        }
        if events.get("completion_queue_at_worst_case").is_some() || events.get("overflow_eviction").is_some() {
            rep.nontrivial += 1;
            rep.distinct(vkit::mix(vkit::fnv_str(&format!("{:?}", cfg)), vkit::fnv(&script)));
        }
        if i < 1 {
            rep.sample(Json::obj().set("connection_config", format!("{:?}", cfg)).set("storage", storage.as_str()).set("script", script.iter().map(|o| op_name(*o)).collect::<Vec<_>>().join(" ")));
        }
        if let Some((rule, _)) = r.clone() {
            // shrink
            let mut cur = script.clone();
            let mut chunk = (cur.len() / 2).max(1);
            loop {
                let mut k = 0;
                while k < cur.len() {
                    let mut cand = cur.clone();
                    let end = (k + chunk).min(cand.len());
                    cand.drain(k..end);
                    let mut e2 = std::collections::BTreeMap::new();
                    let rc = exec(&cand, &mut e2);
                    if rc.as_ref().map(|m| m.0 == rule).unwrap_or(false) {
                        cur = cand;
                        r = rc;
                    } else {
                        k += chunk;
                    }
                }
                if chunk == 1 {
                    break;
                }
                chunk /= 2;
            }
            let (rule, msg) = r.unwrap();
            rep.violation(&rule, format!("{}:conn:{}", prop, rule), msg, Json::obj().set("replay_args", format!("c03conn --prop {} --storage {} --seed {} --shard {} --only-hist {}", prop, storage, seed, shard, hi)));
        }
        i += 1;
        if only.is_some() {
            break;
        }
    }
    rep.count("histories", i);
    rep
}
